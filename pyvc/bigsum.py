"""Congruence preprocessing for finite sums (DESIGN.md 2.5/2.6).

`bigsum<K,V>(lambda k. body)` is an uninterpreted function of an array; z3 decides equality of two
such sums by array extensionality, which is fragile inside large formulas. This module proves the
pointwise equality of lambda bodies with small quantifier-free queries (recursively for nested
sums) and replaces sums that are thereby equal by one fresh constant. Sound: equal functions have
equal sums. It never makes a formula provable that is not valid."""
import itertools
import z3

_counter = itertools.count()


def is_bigsum(t):
    return z3.is_app(t) and t.decl().name().startswith("bigsum<") and t.num_args() == 1


def collect_bigsums(t, acc, seen):
    """Outermost bigsum applications in t (not those nested inside another bigsum's lambda)."""
    i = t.get_id()
    if i in seen:
        return
    seen.add(i)
    if is_bigsum(t):
        acc.append(t)
        return
    if z3.is_quantifier(t):
        collect_bigsums(t.body(), acc, seen)
    elif z3.is_app(t):
        for c in t.children():
            collect_bigsums(c, acc, seen)


def has_free_vars(t):
    """Does t contain a de Bruijn variable bound OUTSIDE t (t sits under a quantifier / lambda of the formula)?"""
    memo = {}

    def go(x, depth):
        key = (x.get_id(), depth)
        if key in memo:
            return memo[key]
        if z3.is_var(x):
            r = z3.get_var_index(x) >= depth
        elif z3.is_quantifier(x):
            r = go(x.body(), depth + x.num_vars())
        elif z3.is_app(x):
            r = any(go(c, depth) for c in x.children())
        else:
            r = False
        memo[key] = r
        return r
    return go(t, 0)


def abstract_quantifiers(ts):
    """Replace every quantified subformula by a propositional atom (identical formulas -> same atom).
    Proving the abstraction valid proves the original valid."""
    table = {}
    memo = {}

    def go(t):
        i = t.get_id()
        if i in memo:
            return memo[i]
        if is_bigsum(t):
            key = "S" + t.sexpr()
            if key not in table:
                table[key] = z3.Const(f"sa!{next(_counter)}", t.sort())
            r = table[key]
        elif z3.is_quantifier(t):
            if t.is_lambda():
                r = t
            else:
                key = ("A" if t.is_forall() else "E") + "|".join(str(t.var_sort(i)) for i in range(t.num_vars())) + "|" + t.body().sexpr()
                if key not in table:
                    table[key] = z3.Bool(f"qa!{next(_counter)}")
                r = table[key]
        elif z3.is_app(t) and t.num_args() > 0:
            kids = [go(c) for c in t.children()]
            if all(a.eq(b) for a, b in zip(kids, t.children())):
                r = t
            else:
                r = t.decl()(*kids)
        else:
            r = t
        memo[i] = r
        return r
    return [go(t) for t in ts]


def valid(hyps, goal, timeout_ms, fast_reject=False, quant_retry=True):
    # 1) cheap attempt: quantified subformulas as atoms, quantifier-free hypotheses only
    try:
        qf = [h for h in hyps if not z3.is_quantifier(h)]
        ab = abstract_quantifiers(qf + [goal])
        s0 = z3.Solver()
        s0.set("timeout", min(timeout_ms, 2000))
        for h in ab[:-1]:
            s0.add(h)
        s0.add(z3.Not(ab[-1]))
        r0 = s0.check()
        if r0 == z3.unsat:
            return True
        if r0 == z3.sat and fast_reject and not quant_retry:
            return False
        if r0 == z3.sat and fast_reject:
            # candidate pruning: one short attempt with the quantified hypotheses (shape facts such as
            # "len(cfg.cn) == len(gene.regions)" are quantified preconditions), then "not shown equal"
            timeout_ms = min(timeout_ms, 1500)
    except z3.Z3Exception:
        pass
    s = z3.Solver()
    s.set("timeout", timeout_ms)
    for h in hyps:
        s.add(h)
    s.add(z3.Not(goal))
    r = s.check()
    if r == z3.unknown and not fast_reject:
        # z3 gives up on  exists i. (0 <= i < n and start + i == p)  in the presence of unrelated disjunctions
        # ("incomplete quantifiers"); light quantifier elimination (equivalence preserving) solves the index
        try:
            s2 = z3.Then(z3.Tactic("simplify"), z3.Tactic("qe-light"), z3.Tactic("smt")).solver()
            s2.set("timeout", min(timeout_ms, 3000))
            for h in hyps:
                s2.add(h)
            s2.add(z3.Not(goal))
            r = s2.check()
        except z3.Z3Exception:
            pass
    return r == z3.unsat


def symbols(t, memo={}):
    """Names of the uninterpreted functions / constants occurring in a term (cheap mismatch filter)."""
    i = t.get_id()
    if i in memo:
        return memo[i][0]
    out = set()
    seen = set()
    stack = [t]
    while stack:
        x = stack.pop()
        if x.get_id() in seen:
            continue
        seen.add(x.get_id())
        if z3.is_quantifier(x):
            stack.append(x.body())
        elif z3.is_app(x):
            if x.decl().kind() == z3.Z3_OP_UNINTERPRETED and x.num_args() > 0:
                out.add(x.decl().name())
            stack.extend(x.children())
    memo[i] = (frozenset(out), t)
    return memo[i][0]


def equal_sums(a, b, hyps, timeout_ms, depth=0):
    """Are the two bigsum applications provably equal (pointwise equal bodies)?"""
    if a.eq(b):
        return True
    if not a.decl().eq(b.decl()) or depth > 3:
        return False
    sa, sb = symbols(a), symbols(b)
    if {x for x in sa if x.startswith("var<")} != {x for x in sb if x.startswith("var<")}:
        return False  # sums over different LP variable families are not candidates
    la, lb = a.arg(0), b.arg(0)
    ksort = la.sort().domain()
    c = z3.Const(f"bs!{next(_counter)}", ksort)
    ba = z3.simplify(z3.Select(la, c))
    bb = z3.simplify(z3.Select(lb, c))
    goal = ba == bb
    goal2, hyps2 = abstract(goal, hyps, timeout_ms, depth + 1)
    return valid(hyps2, goal2, timeout_ms, fast_reject=True)


def zero_of(sort):
    return z3.RealVal(0) if sort == z3.RealSort() else z3.IntVal(0)


def is_zero_sum(a, hyps, timeout_ms, depth=0):
    """Is every summand provably 0 (e.g. the guard of the sum is false under the hypotheses)?
    Sound: the sum of the zero function is 0 (BigSum axiom Z, DESIGN.md 2.5)."""
    if depth > 3 or a.sort() not in (z3.RealSort(), z3.IntSort()):
        return False
    la = a.arg(0)
    c = z3.Const(f"bz!{next(_counter)}", la.sort().domain())
    body = z3.simplify(z3.Select(la, c))
    inner = []
    collect_bigsums(body, inner, set())
    subs = [(s, zero_of(s.sort())) for s in inner if is_zero_sum(s, hyps, timeout_ms, depth + 1)]
    if subs:
        body = z3.simplify(z3.substitute(body, *subs))
    return valid(hyps, body == zero_of(a.sort()), timeout_ms, fast_reject=True)


def one_point(a, hyps, timeout_ms):
    """Rule P (one-point rule, lean/BigSum.lean `bigsum_single`): for a closed sum whose summand is
    `ite(G(i), V(i), 0)` over an integer index where the guard pins the index to one value e (the query
    `G(i) -> i == e` is VALIDATED for a fresh i under the hypotheses - the candidate e comes from an equality
    conjunct of G, linear in i with coefficient +-1), the sum equals the summand at e. Returns that term or None.
    Sound: every summand at i != e is 0."""
    la = a.arg(0)
    if not z3.is_quantifier(la) or not la.is_lambda() or la.sort().domain() != z3.IntSort():
        return None
    i = z3.Const(f"bp!{next(_counter)}", z3.IntSort())
    body = z3.simplify(z3.Select(la, i))
    if not (z3.is_app(body) and body.decl().kind() == z3.Z3_OP_ITE):
        return None
    G, V, Z = body.children()
    if not z3.simplify(Z == zero_of(a.sort())).eq(z3.BoolVal(True)):
        return None
    conj = list(G.children()) if z3.is_and(G) else [G]
    zero, one = z3.IntVal(0), z3.IntVal(1)
    for c in conj:
        if not (z3.is_eq(c) and c.arg(0).sort() == z3.IntSort()):
            continue
        d = c.arg(0) - c.arg(1)
        d0 = z3.simplify(z3.substitute(d, (i, zero)))
        d1 = z3.simplify(z3.substitute(d, (i, one)))
        coef = z3.simplify(d1 - d0)
        if not z3.is_int_value(coef) or coef.as_long() not in (1, -1):
            continue
        e = z3.simplify(-d0) if coef.as_long() == 1 else d0
        if valid(hyps, z3.Implies(G, i == e), timeout_ms, fast_reject=True):
            return z3.simplify(z3.substitute(body, (i, e)))
    return None


def abstract(goal, hyps, timeout_ms=3000, depth=0, zeros=False, cross=False, points=False):
    """Replace provably equal outermost sums in `goal` by common fresh constants (and all-zero sums by 0).
    With cross=True closed sums of the hypotheses are candidates too (a sum computed by the code, which sits in
    a path condition, against the sum written in the contract); only goal/goal and goal/hypothesis pairs are
    compared and the substitution is applied to the goal and to every hypothesis alike. Sound: the replaced
    terms are closed and provably equal under `hyps`, the constant is fresh."""
    sums = []
    seen = set()
    collect_bigsums(goal, sums, seen)
    sums = [s for s in sums if not has_free_vars(s)]
    if points:
        ps = [(s, one_point(s, hyps, min(timeout_ms, 3000))) for s in sums]
        ps = [(s, t) for s, t in ps if t is not None]
        if ps:
            goal = z3.substitute(goal, *ps)
            sums = [s for s in sums if not any(s.eq(z) for z, _ in ps)]
    n_goal = len(sums)
    if cross and n_goal:
        more = []
        for h in hyps:
            collect_bigsums(h, more, seen)
        sums += [s for s in more if not has_free_vars(s) and not any(s.eq(x) for x in sums)]
    zs = [(s, zero_of(s.sort())) for s in sums[:n_goal] if zeros and is_zero_sum(s, hyps, min(timeout_ms, 3000), depth)]
    if zs:
        goal = z3.substitute(goal, *zs)
        n_goal -= len(zs)
        sums = [s for s in sums if not any(s.eq(z) for z, _ in zs)]
    if len(sums) < 2:
        return goal, hyps
    # union-find over sums
    parent = list(range(len(sums)))

    def find(i):
        while parent[i] != i:
            parent[i] = parent[parent[i]]
            i = parent[i]
        return i
    for i in range(len(sums)):
        for j in range(i + 1, len(sums)):
            if find(i) == find(j) or i >= n_goal:
                continue
            if sums[i].decl().eq(sums[j].decl()) and equal_sums(sums[i], sums[j], hyps, timeout_ms, depth):
                parent[find(j)] = find(i)
    subs = []
    reps = {}
    for i, s in enumerate(sums):
        r = find(i)
        if r not in reps:
            reps[r] = z3.Const(f"sum!{next(_counter)}", s.sort())
        subs.append((s, reps[r]))
    if cross:
        return z3.substitute(goal, *subs), [z3.substitute(h, *subs) for h in hyps]
    return z3.substitute(goal, *subs), hyps


def skolemize(goal):
    """Strip outer universal quantifiers (fresh constants) and split  Or(Not g, c) / Implies(g, c)."""
    extra = []
    for _ in range(8):      # forall x. (g -> forall y. (h -> c))  ~>  c  with hypotheses g, h (fresh x, y)
        changed = False
        while z3.is_quantifier(goal) and goal.is_forall():
            vs = [z3.Const(f"sk!{next(_counter)}!{goal.var_name(i)}", goal.var_sort(i)) for i in range(goal.num_vars())]
            goal = z3.substitute_vars(goal.body(), *reversed(vs))
            changed = True
        if z3.is_implies(goal):
            extra.append(goal.arg(0))
            goal = goal.arg(1)
            changed = True
        elif z3.is_or(goal) and goal.num_args() == 2 and z3.is_not(goal.arg(0)):
            extra.append(goal.arg(0).arg(0))
            goal = goal.arg(1)
            changed = True
        if not changed:
            break
    return goal, extra


def prove_with_congruence(hyps, goal, timeout_ms=5000):
    """Try to prove hyps |- goal using the sum-congruence preprocessing. Returns True if proved."""
    g, extra = skolemize(goal)
    h2 = list(hyps) + extra
    if z3.is_and(g):
        return all(prove_with_congruence(h2, c, timeout_ms) for c in g.children())
    g2, h3 = abstract(g, h2, min(timeout_ms, 8000))
    if valid(h3, g2, timeout_ms):
        return True
    # second attempt: sums whose summands are all provably 0 (false guard under the hypotheses) are 0
    g3, h3 = abstract(g, h2, min(timeout_ms, 8000), zeros=True)
    if valid(h3, g3, timeout_ms):
        return True
    # third attempt (only reached when the obligation would otherwise stay undecided): sums of the hypotheses
    g4, h4 = abstract(g, h2, min(timeout_ms, 8000), cross=True)
    if (h4 is not h2) and valid(h4, g4, timeout_ms):
        return True
    # fourth attempt: one-point rule P for sums whose guard pins the index (`for i in range(n): d[start + i] += 1`)
    g5, h5 = abstract(g, h2, min(timeout_ms, 8000), zeros=True, points=True)
    return (g5 is not g) and valid(h5, g5, timeout_ms)
