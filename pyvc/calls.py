"""Calls: builtins, container / string methods, contracts, inlining, spec functions."""
import ast
import z3

from . import front
from .ty import (TInt, TReal, TBool, TStr, TNone, TAny, TTuple, TRec, TList, TDict, TSet, TOpt,
                 TUnion, TObj, TFunc, TLin)
from .vals import *  # noqa
from .symex import t_and, t_or, t_not, t_ite, to_real, Frame, SPEC_BUILTINS
from .interp import NUM, BUILTIN_CLASSES, VPoison
from .comp import CompMixin, VRange, Source, VParts

LAZY_SPEC = {"requires", "ensures", "raises", "modifies", "returns", "invariant", "may_raise", "reads", "foreach",
             "bounded", "decreases", "shares", "cut_after", "all_yields", "types", "pure", "assume_contract", "implies", "iff", "ite", "forall", "exists", "old"}
LOG_NAMES = {"aldy.common.log"}
EXC_CLASSES = {"ValueError", "TypeError", "KeyError", "IndexError", "StopIteration", "AttributeError", "Exception",
               "AssertionError", "OSError", "ZeroDivisionError", "AldyException", "NoSolutionsError"}
EXC_PARENTS = {"KeyError": "LookupError", "IndexError": "LookupError"}


def is_log_call(node, module):
    """log.debug(...), log.info(...), ... on aldy.common.log."""
    if isinstance(node, ast.Call) and isinstance(node.func, ast.Attribute) and isinstance(node.func.value, ast.Name):
        if module is not None and module.imports.get(node.func.value.id) in LOG_NAMES:
            return True
    return False


class CallMixin(CompMixin):

    def ev_Call(self, node, st):
        fi = self.frame_finfo(st)
        if is_log_call(node, fi.module if fi is not None else None):
            return VNone()
        fn = self.ev(node.func, st)
        if isinstance(fn, VFunc) and fn.kind == "builtin" and fn.name in LAZY_SPEC:
            return self.call_spec_builtin(st, fn.name, [], {k.arg: self.ev(k.value, st) for k in node.keywords if k.arg == "label"}, node)
        args = []
        for a in node.args:
            if isinstance(a, ast.Starred):
                args.extend(self.concrete_items(st, self.ev(a.value, st)))
            else:
                # keep generator / lambda arguments lazy-free: evaluate now
                args.append(self.ev(a, st))
        kw = {}
        for k in node.keywords:
            if k.arg is None:
                src = self.ev(k.value, st)
                h = self.resolve(st, src) if isinstance(src, VRef) else None
                if isinstance(h, HPyDict):
                    for kk, vv in h.items:
                        kw[pyconst(kk)[1]] = vv
                else:
                    kw["**"] = src
            else:
                kw[k.arg] = self.ev(k.value, st)
        return self.call_value(st, fn, args, kw, node)

    def call_value(self, st, fn, args, kw, node):
        if isinstance(fn, VClass):
            return self.construct(st, fn.name, args, kw, node)
        if isinstance(fn, VModule):
            # a function of a module that is not part of the repository (gzip.open, pickle.dump, ...): only callable when
            # the contract under verification (or the configuration) declares it external
            return self.call_qual(st, fn.name, args, kw, node)
        if not isinstance(fn, VFunc):
            raise Unsupported(f"call of {fn!r}")
        k = fn.kind
        if k == "builtin":
            return self.call_builtin(st, fn.name, args, kw, node)
        if k == "spec":
            return self.inline(st, fn.node, None, args, kw, node, spec=True, name=fn.name)
        if k == "ast":
            return self.inline(st, fn.node, fn.closure, args, kw, node, finfo=fn.finfo, name=fn.name)
        if k == "abstract":
            return self.call_abstract(st, fn, args, kw, node)
        if k == "global":
            return self.call_qual(st, fn.qualname, args, kw, node)
        if k == "bound":
            return self.call_method(st, fn.recv, fn.name, args, kw, node)
        if k == "debugmethod":
            return VNone()
        if k == "std":
            return self.call_std(st, fn.name, args, kw, node)
        if k == "partial":
            return self.call_value(st, fn.fn, list(fn.args) + args, dict(fn.kw, **kw), node)
        if k == "classattr":
            return self.call_classattr(st, fn.cls, fn.name, args, kw, node)
        if k == "globalvar":
            return self.call_external(st, fn.qualname, args, kw, node)
        if k == "opaqueattr":
            return self.call_external(st, f"<{fn.recv.name}>.{fn.name}", [fn.recv] + args, kw, node)
        raise Unsupported(f"call of function kind {k}")

    # ------------------------------------------------------------------ builtins

    def call_builtin(self, st, name, args, kw, node):
        from .interp import SPEC_FUNCS
        if name in SPEC_BUILTINS or name in SPEC_FUNCS:
            return self.call_spec_builtin(st, name, args, kw, node)
        a = [self.force(st, x) for x in args]
        if name == "len":
            return self.agg_len(st, a[0])
        if name == "sum":
            return self.agg_sum(st, a[0], a[1] if len(a) > 1 else None)
        if name == "any":
            return self.agg_any(st, a[0])
        if name == "all":
            return self.agg_any(st, a[0], is_all=True)
        if name in ("max", "min"):
            return self.agg_minmax(st, a, kw, name == "max", node)
        if name == "abs":
            v = a[0]
            if isinstance(v, VInt):
                return VInt(z3.If(v.t >= 0, v.t, -v.t))
            if isinstance(v, VReal):
                return VReal(z3.If(v.t >= 0, v.t, -v.t))
            raise Unsupported("abs of non-number")
        if name in ("float", "int", "str", "bool"):
            return self.convert(st, name, a, node)
        if name == "isinstance":
            return VBool(self.isinstance_t(st, a[0], a[1]))
        if name == "hasattr":
            ok, nm = pyconst(a[1])
            if isinstance(a[0], VDyn):
                return VBool(t_or(*[a[0].tag == i for i, (ty, x) in enumerate(a[0].alts) if self.hasattr(st, x, nm)]))
            return VBool(self.hasattr(st, a[0], nm))
        if name == "getattr":
            ok, nm = pyconst(a[1])
            if not ok:
                raise Unsupported("getattr with symbolic name")
            if self.hasattr(st, a[0], nm):
                return self.getattr(st, a[0], nm, node)
            if len(a) > 2:
                return a[2]
            raise Unsupported("getattr of missing attribute")
        if name == "type":
            return VClass(self.pytype_name(st, a[0]))
        if name == "range":
            if len(a) == 1:
                return VRange(z3.IntVal(0), self.as_int(a[0]))
            step = 1
            if len(a) == 3:
                ok, step = pyconst(a[2])
                if not ok:
                    step = self.as_int(a[2])
                    return VRangeS(self.as_int(a[0]), self.as_int(a[1]), step)
            return VRange(self.as_int(a[0]), self.as_int(a[1]), step)
        if name == "enumerate":
            ok, start = pyconst(a[1]) if len(a) > 1 else (True, 0)
            if "start" in kw:
                ok, start = pyconst(kw["start"])
            return VFunc("enumerate", recv=a[0], start=start)
        if name == "zip":
            return VFunc("zip", args=a)
        if name in ("sorted", "list", "tuple", "reversed", "iter"):
            return self.seq_builtin(st, name, a, kw, node)
        if name in ("set", "frozenset"):
            if not a:
                return self.alloc(st, HPySet([]))
            return self.to_set(st, a[0])
        if name == "dict":
            return self.to_dict(st, a, kw)
        if name == "next":
            return self.next_builtin(st, a, node)
        if name == "round":
            v = a[0]
            if isinstance(v, VInt):
                return v
            f = self.ctx.ufunc("py_round", z3.RealSort(), z3.IntSort())
            r = f(v.t)
            st.pc.append(z3.And(z3.ToReal(r) - v.t <= z3.RealVal("1/2"), v.t - z3.ToReal(r) <= z3.RealVal("1/2")))
            return VInt(r)
        if name == "print":
            file = kw.get("file")
            st.events.append(("print", tuple(a), tuple(sorted(kw.keys())), t_and(*st.pc[st.rec[-1].pc_len:]) if st.rec else None))
            return VNone()
        if name == "open":
            return VOpaque(self.fresh(st, "file", TAny("file").sort()), "file")
        if name in EXC_CLASSES:
            return VExc(name, tuple(a))
        if name in ("id", "repr"):
            return self.fresh_of(st, TInt() if name == "id" else TStr(), name)
        raise Unsupported(f"builtin {name}")

    def pytype_name(self, st, v):
        if isinstance(v, VDyn):
            alts = self.dyn_alts(st, v)
            if len(alts) == 1:
                return self.pytype_name(st, alts[0][2])
            raise Unsupported("type() of a value whose dynamic type is not determined")
        if isinstance(v, VBool):
            return "bool"
        if isinstance(v, VInt):
            return "int"
        if isinstance(v, VReal):
            return "float"
        if isinstance(v, VStr):
            return "str"
        if isinstance(v, VNone):
            return "NoneType"
        if isinstance(v, VTuple):
            return "tuple"
        if isinstance(v, VRec):
            return v.cls
        if isinstance(v, VRef):
            h = self.resolve(st, v)
            if isinstance(h, HObj):
                return h.cls
            if isinstance(h, (HSeq, HList, HListC)):
                return "list"
            if isinstance(h, (HDict, HPyDict)):
                return "dict"
            if isinstance(h, (HSet, HPySet)):
                return "set"
        if isinstance(v, VFam):
            return {"list": "list", "set": "set", "gen": "generator"}[v.kind]
        if isinstance(v, VOpaque):
            return v.name
        raise Unsupported(f"type of {v!r}")

    def isinstance_t(self, st, v, cls):
        if isinstance(v, VDyn):
            return t_or(*[v.tag == i for i, (ty, a) in enumerate(v.alts) if self.isinstance(st, a, cls)])
        return z3.BoolVal(self.isinstance(st, v, cls))

    def isinstance(self, st, v, cls):
        names = [c.name for c in cls.items] if isinstance(cls, VTuple) else [cls.name]
        tn = self.pytype_name(st, v)
        for n in names:
            if tn == n:
                return True
            if n == "int" and tn == "bool":
                return True
            if n == "tuple" and isinstance(v, VRec):
                return True
            if n == "object":
                return True
        return False

    def hasattr(self, st, v, name):
        if isinstance(v, VRec):
            return name in v.names
        if isinstance(v, VLin):
            return getattr(v, "var", None) is not None and name in ("integer", "lb", "ub", "solution_value", "name")
        if isinstance(v, VRef):
            h = self.resolve(st, v)
            if isinstance(h, HObj):
                if name in h.fields:
                    return True
                if h.cls in self.schema.classes and self.schema.field_ty(h.cls, name) is not None:
                    return True
                q = self.schema.qualname(h.cls)
                if q and self.find_method(h.cls, name) is not None:
                    return True
                return False
        if isinstance(v, (VInt, VReal, VBool, VStr, VNone, VTuple)):
            return False
        raise Unsupported(f"hasattr on {v!r}")

    def convert(self, st, name, a, node):
        if a and isinstance(a[0], VDyn):
            return self.dyn_apply(st, a[0], lambda x: self.convert(st, name, [x] + list(a[1:]), node))
        if not a:
            return {"float": VReal(0), "int": VInt(0), "str": VStr(""), "bool": VBool(False)}[name]
        v = a[0]
        if name == "bool":
            return VBool(self.truth(st, v))
        if name == "str":
            return VStr(self.to_str(st, v))
        if name == "int":
            if isinstance(v, VInt):
                return v
            if isinstance(v, VBool):
                return VInt(self.as_int(v))
            if isinstance(v, VReal):
                t = v.t
                return VInt(z3.If(t >= 0, z3.ToInt(t), -z3.ToInt(-t)))
            if isinstance(v, VStr):
                ok = self.ctx.ufunc("parses_int", z3.StringSort(), z3.BoolSort())
                val = self.ctx.ufunc("int_of_str", z3.StringSort(), z3.IntSort())
                if not st.frame.spec and not self.decide(st, ok(v.t)):
                    self.do_raise(st, VExc("ValueError", ()))
                    raise PathDone()
                return VInt(val(v.t))
            self.do_raise(st, VExc("TypeError", ()))
            raise PathDone()
        if name == "float":
            if isinstance(v, VReal):
                return v
            if isinstance(v, (VInt, VBool)):
                return VReal(to_real(self.as_int(v)))
            if isinstance(v, VStr):
                ok = self.ctx.ufunc("parses_float", z3.StringSort(), z3.BoolSort())
                val = self.ctx.ufunc("float_of_str", z3.StringSort(), z3.RealSort())
                if not st.frame.spec and not self.decide(st, ok(v.t)):
                    self.do_raise(st, VExc("ValueError", ()))
                    raise PathDone()
                return VReal(val(v.t))
            self.do_raise(st, VExc("TypeError", ()))
            raise PathDone()
        raise Unsupported(name)

    def seq_builtin(self, st, name, a, kw, node):
        v = a[0] if a else None
        if v is None:
            return self.alloc(st, HList([])) if name == "list" else VTuple([])
        s = self.source(st, v)
        if s.concrete:
            items = list(s.items)
            if name == "sorted":
                items = self.sort_concrete(st, items, kw, node)
            if name == "reversed":
                items = list(reversed(items))
            if name == "tuple":
                return VTuple(items)
            return self.alloc(st, HList(items))
        if name in ("list", "iter", "tuple"):
            if isinstance(v, VRef):
                h = self.resolve(st, v)
                if isinstance(h, (HSeq, HListC)):
                    return self.alloc(st, h)  # copy
            return VFam("list", s.binders, s.guard, s.elem, s.seqsrc)
        if name == "sorted":
            # order of an abstract collection: the result is the same multiset, order unspecified
            return VFam("list", s.binders, s.guard, s.elem, None)
        raise Unsupported(f"{name} over abstract collection")

    def sort_concrete(self, st, items, kw, node):
        key = kw.get("key")
        rev = kw.get("reverse")
        if len(items) <= 1:
            return items
        keys = [self.call_value(st, key, [i], {}, node) if key is not None else i for i in items]
        # insertion sort with decided comparisons (forks when undecided)
        order = list(range(len(items)))
        out = []
        for i in order:
            pos = len(out)
            for j in range(len(out)):
                c = self.compare(st, ast.Lt(), keys[i], keys[out[j]])
                if self.decide(st, c):
                    pos = j
                    break
            out.insert(pos, i)
        res = [items[i] for i in out]
        if rev is not None and pyconst(rev)[1]:
            res.reverse()
        return res

    def to_set(self, st, v):
        s = self.source(st, v)
        if s.concrete:
            return self.alloc(st, HPySet(self.dedup(st, s.items)))
        if isinstance(v, VRef):
            h = self.resolve(st, v)
            if isinstance(h, HSet):
                return self.alloc(st, h)
        return self.fam_to_set(st, VFam("set", s.binders, s.guard, s.elem))

    def to_dict(self, st, a, kw):
        items = []
        if a:
            src = a[0]
            h = self.resolve(st, src) if isinstance(src, VRef) else None
            if isinstance(h, HPyDict):
                items = list(h.items)
            elif isinstance(h, HDict):
                if kw:
                    raise Unsupported("dict(abstract, **kw)")
                return self.alloc(st, HDict(h.kty, h.binder, h.dom, h.val, None, h.vty))
            else:
                s = self.source(st, src)
                if s.concrete:
                    for it in s.items:
                        k, v = it.items
                        items = [(x, y) for x, y in items if not self.try_const_eq(x, k)] + [(k, v)]
                else:
                    k, v = s.elem.items
                    return self.alloc(st, self.dict_from_family(st, s.binders, s.guard, k, v))
        for k, v in kw.items():
            if k == "**":
                h2 = self.resolve(st, v)
                if isinstance(h2, HPyDict):
                    for kk, vv in h2.items:
                        items = [(x, y) for x, y in items if not self.try_const_eq(x, kk)] + [(kk, vv)]
                    continue
                raise Unsupported("** of abstract dict")
            items = [(x, y) for x, y in items if not self.try_const_eq(x, VStr(k))] + [(VStr(k), v)]
        return self.alloc(st, HPyDict(items))

    def next_builtin(self, st, a, node):
        s = self.source(st, a[0])
        if s.concrete:
            if s.items:
                return s.items[0]
            if len(a) > 1:
                return a[1]
            self.do_raise(st, VExc("StopIteration", ()))
            raise PathDone()
        ex = self.exists(s.binders, s.guard)
        if len(a) > 1:
            raise Unsupported("next with default over abstract collection")
        if not self.decide(st, ex):
            self.do_raise(st, VExc("StopIteration", ()))
            raise PathDone()
        # some element: order unspecified unless the source is unique; pick a witness
        wit = [self.fresh(st, "w", b.sort()) for b in s.binders]
        pairs = list(zip(s.binders, wit))
        st.pc.append(z3.substitute(s.guard, *pairs))
        uniq = self.forall(s.binders, z3.Implies(s.guard, t_and(*[b == w for b, w in pairs])))
        if not self.implied(st, uniq):
            if not s.ordered:
                self.ctx.notes.append(f"next() over an unordered collection with possibly several elements at {self.where(node, st)}")
                st.ghost["__order_dependent__"] = True
            else:
                # first element of an ordered source: witness is minimal index
                if len(s.binders) == 1 and s.binders[0].sort() == z3.IntSort():
                    b = s.binders[0]
                    st.pc.append(self.forall([b], z3.Implies(s.guard, b >= wit[0])))
        return subst(s.elem, pairs)

    def call_std(self, st, name, args, kw, node):
        a = [self.force(st, x) for x in args]
        if name == "copy":
            v = a[0]
            if not isinstance(v, VRef):
                return v
            h = self.resolve(st, v)
            r = self.alloc(st, h)
            c = self.canon(st, v)
            st.aliases.append((c.root, c.path, "shallow"))
            st.aliases.append((r.root, (), "shallow"))
            return r
        if name == "deepcopy":
            v = a[0]
            if not isinstance(v, VRef):
                return v
            return self.alloc(st, self.deep_copy(st, self.resolve(st, v)))
        if name == "partial":
            return VFunc("partial", fn=a[0], args=a[1:], kw=kw)
        if name == "natsorted":
            return self.seq_builtin(st, "sorted", a, {k: v for k, v in kw.items() if k in ("key", "reverse")}, node) if not a or not self.needs_natsort(st, a[0], kw) else self.natsorted(st, a, kw, node)
        if name in ("ceil", "floor"):
            v = a[0]
            if isinstance(v, VInt):
                return v
            t = to_real(v.t)
            return VInt(-z3.ToInt(-t)) if name == "ceil" else VInt(z3.ToInt(t))
        if name == "mean":
            s0 = self.source(st, a[0])
            if s0.concrete:
                tot = VInt(0)
                for x in s0.items:
                    tot = self.binop(st, ast.Add(), tot, self.force(st, x))
                self.oblige(st, "statistics-empty", z3.BoolVal(len(s0.items) > 0), where=self.where(node, st))
                return self.binop(st, ast.Div(), tot, VInt(len(s0.items))) if s0.items else VReal(0)
            tot = self.agg_sum(st, a[0])
            n = self.agg_len(st, a[0]) if not isinstance(a[0], VFam) else VInt(self.bigsum(st, a[0].binders, a[0].guard, z3.IntVal(1)))
            self.oblige(st, "statistics-empty", n.t > 0, where=self.where(node, st))
            return VReal(to_real(tot.t) / to_real(n.t))
        if name in ("defaultdict", "Counter"):
            return self.construct(st, name, args, kw, node)
        return self.call_external(st, name, args, kw, node)

    def needs_natsort(self, st, v, kw):
        return True

    def natsorted(self, st, a, kw, node):
        """natsorted: a deterministic total preorder (assumed); concrete inputs are ordered by an
        abstract key, abstract inputs keep their multiset."""
        s0 = self.source(st, a[0])
        if not s0.concrete:
            return VFam("list", s0.binders, s0.guard, s0.elem, None)
        if len(s0.items) <= 1:
            return self.alloc(st, HList(s0.items))
        raise Unsupported("natsorted of several concrete items (order is an abstract preorder)")

    def deep_copy(self, st, h):
        if isinstance(h, HObj):
            fs = {}
            for k, v in h.fields.items():
                fs[k] = self.deep_copy_v(st, v)
            return HObj(h.cls, fs, h.lazy)
        if isinstance(h, HList):
            return HList([self.deep_copy_v(st, v) for v in h.items])
        if isinstance(h, HPyDict):
            return HPyDict([(k, self.deep_copy_v(st, v)) for k, v in h.items], h.default)
        if isinstance(h, HPySet):
            return h
        return h  # templates are stored by value

    def deep_copy_v(self, st, v):
        if isinstance(v, VRef):
            return self.alloc(st, self.deep_copy(st, self.resolve(st, v)))
        if isinstance(v, H):
            return self.deep_copy(st, v)
        return v

    # ------------------------------------------------------------------ constructors

    def construct(self, st, cls, args, kw, node):
        if cls in ("int", "float", "str", "bool"):
            return self.convert(st, cls, [self.force(st, a) for a in args], node)
        if cls in ("list", "tuple", "set", "dict"):
            return self.call_builtin(st, cls, args, kw, node)
        if cls in EXC_CLASSES:
            return VExc(cls, tuple(args))
        if cls == "NoneType":
            self.do_raise(st, VExc("TypeError", ()))
            raise PathDone()
        if cls == "defaultdict":
            fac = args[0] if args else None
            d = {"list": "list", "int": "int", "set": "set", "dict": "dict"}.get(getattr(fac, "name", None))
            if fac is not None and d is None:
                if isinstance(fac, VFunc) and fac.kind == "ast":
                    d = ("lambda", fac)
                    raise Unsupported("defaultdict with lambda factory")
                raise Unsupported("defaultdict factory")
            items = []
            if len(args) > 1:
                h = self.resolve(st, args[1])
                items = list(h.items)
            return self.alloc(st, HPyDict(items, default=d))
        if cls == "Counter":
            if not args:
                return self.alloc(st, HPyDict([], default="int"))
            return self.counter_of(st, args[0], node)
        if cls in self.schema.classes:
            kind = self.schema.kind(cls)
            if kind == "rec":
                names = self.schema.fields(cls)
                vals = list(args)
                for n in names[len(vals):]:
                    if n not in kw:
                        raise Unsupported(f"{cls}() missing field {n}")
                    vals.append(kw[n])
                return VRec(cls, names, [self.force(st, v) for v in vals])
            q = self.schema.qualname(cls)
            if q:
                init = f"{q}.__init__"
                if init in self.ctx.contracts or front.find_function(init) is not None:
                    obj = self.alloc(st, HObj(cls, {}, None))
                    st.ghost[("rootty", obj.root)] = TObj(cls)
                    self.call_qual(st, init, [obj] + list(args), kw, node)
                    return obj
                # dataclass: positional fields
                names = self.schema.fields(cls)
                fs = {}
                for n, v in zip(names, args):
                    fs[n] = v
                for k2, v in kw.items():
                    fs[k2] = v
                dflt = self.schema.classes[cls].get("defaults", {})
                for n in names:
                    if n not in fs and n in dflt:
                        fs[n] = self.const_or_alloc(st, dflt[n])
                return self.alloc(st, HObj(cls, fs, None))
        raise Unsupported(f"constructor {cls}")

    def const_or_alloc(self, st, c):
        if c == "[]":
            return self.alloc(st, HList([]))
        if c == "{}":
            return self.alloc(st, HPyDict([]))
        if c == "set()":
            return self.alloc(st, HPySet([]))
        return self.const(c)

    def counter_of(self, st, v, node):
        s = self.source(st, v)
        if s.concrete:
            items = []
            for x in s.items:
                for i, (k, c) in enumerate(items):
                    if self.try_const_eq(k, x):
                        items[i] = (k, VInt(c.t + 1))
                        break
                else:
                    items.append((x, VInt(1)))
            return self.alloc(st, HPyDict(items, default="int"))
        ety = self.type_of(s.elem)
        et = self.lower(s.elem, ety)
        y = z3.Const(f"ck!{next(self.ctx.counter)}", et.sort())
        cnt = self.bigsum(st, s.binders, t_and(s.guard, et == y), z3.IntVal(1))
        return self.alloc(st, HDict(ety, y, cnt > 0, VInt(cnt), "int", TInt()))

    # ------------------------------------------------------------------ methods on values

    def call_method(self, st, recv, name, args, kw, node):
        recv = self.force(st, recv)
        if isinstance(recv, VDyn):
            return self.dyn_apply(st, recv, lambda x: self.call_method(st, x, name, args, kw, node))
        if isinstance(recv, VStr):
            return self.str_method(st, recv, name, [self.force(st, a) for a in args], kw, node)
        if isinstance(recv, VRec):
            if name == "_replace":
                items = list(recv.items)
                for k, v in kw.items():
                    items[recv.names.index(k)] = v
                return VRec(recv.cls, recv.names, items)
            q = self.schema.qualname(recv.cls)
            if q:
                return self.call_qual(st, f"{q}.{name}", [recv] + list(args), kw, node)
        if isinstance(recv, VFam):
            if name in ("copy",):
                return recv
            raise Unsupported(f"method {name} on comprehension value")
        if isinstance(recv, VTuple):
            if name == "index":
                for i, x in enumerate(recv.items):
                    if self.decide(st, self.eq(st, x, args[0])):
                        return VInt(i)
                raise Unsupported("tuple.index miss")
            if name == "count":
                return VInt(z3.Sum([z3.If(self.eq(st, x, args[0]), 1, 0) for x in recv.items]) if recv.items else z3.IntVal(0))
        if isinstance(recv, VFunc) and recv.kind == "objdict":
            return self.objdict_method(st, recv.recv, name, args, kw, node)
        if isinstance(recv, VExc):
            raise Unsupported("method on exception")
        if isinstance(recv, VOpaque):
            return self.call_external(st, f"<{recv.name}>.{name}", [recv] + list(args), kw, node)
        if isinstance(recv, VRef):
            h = self.resolve(st, recv)
            if isinstance(h, HObj):
                return self.call_obj_method(st, recv, h, name, args, kw, node)
            if isinstance(h, (HDict, HPyDict)):
                return self.dict_method(st, recv, h, name, args, kw, node)
            if isinstance(h, (HSeq, HList, HListC, HBag)):
                return self.list_method(st, recv, h, name, args, kw, node)
            if isinstance(h, (HSet, HPySet)):
                return self.set_method(st, recv, h, name, args, kw, node)
        raise Unsupported(f"method {name} on {recv!r}")

    def find_method(self, cls, name):
        q = self.schema.qualname(cls)
        if not q:
            return None
        mod, cn = q.rsplit(".", 1)
        fi = front.find_method(mod, cn, name)
        return fi

    def call_obj_method(self, st, recv, h, name, args, kw, node):
        cls = h.cls
        d = self.schema.classes.get(cls, {})
        if d.get("builtin_methods") and name in d["builtin_methods"]:
            return self.call_builtin_obj(st, recv, h, name, args, kw, node)
        q = self.schema.qualname(cls)
        if not q:
            return self.call_external(st, f"<{cls}>.{name}", [recv] + list(args), kw, node)
        # contracts are keyed by the defining class; walk bases
        mod, cn = q.rsplit(".", 1)
        seen = set()
        cur = cn
        while cur and cur not in seen:
            seen.add(cur)
            cq = f"{mod}.{cur}.{name}"
            if cq in self.ctx.contracts or front.find_function(cq) is not None:
                return self.call_qual(st, cq, [recv] + list(args), kw, node)
            bs = front.class_bases(mod, cur)
            cur = bs[0] if bs else None
        raise Unsupported(f"method {cls}.{name} not found")

    def str_method(self, st, s, name, a, kw, node):
        if name == "startswith":
            if isinstance(a[0], VTuple):
                return VBool(t_or(*[z3.PrefixOf(x.t, s.t) for x in a[0].items]))
            return VBool(z3.PrefixOf(a[0].t, s.t))
        if name == "endswith":
            return VBool(z3.SuffixOf(a[0].t, s.t))
        if name == "replace":
            ok, sv = pyconst(s)
            ok1, x = pyconst(a[0])
            ok2, y = pyconst(a[1])
            if ok and ok1 and ok2:
                return VStr(sv.replace(x, y))
            f = self.ctx.ufunc("str_replace_all", z3.StringSort(), z3.StringSort(), z3.StringSort(), z3.StringSort())
            return VStr(f(s.t, a[0].t, a[1].t))
        if name == "split":
            ok, sv = pyconst(s)
            if ok and all(pyconst(x)[0] for x in a):
                parts = sv.split(*[pyconst(x)[1] for x in a], **{k: pyconst(v)[1] for k, v in kw.items()})
                return self.alloc(st, HList([VStr(p) for p in parts]))
            if len(a) == 1 and isinstance(a[0], VStr):
                return self.str_split(st, s, a[0], kw, node)
            raise Unsupported("str.split without separator on symbolic string")
        if name in ("lower", "upper", "strip", "lstrip", "rstrip"):
            ok, sv = pyconst(s)
            if ok and not a:
                return VStr(getattr(sv, name)())
            f = self.ctx.ufunc("str_" + name, z3.StringSort(), z3.StringSort())
            r = f(s.t)
            return VStr(r)
        if name == "join":
            src = a[0]
            sc = None
            try:
                sc = self.source(st, src)
            except Unsupported:
                pass
            if sc is not None and sc.concrete and all(isinstance(x, VStr) for x in sc.items):
                parts = []
                for i, x in enumerate(sc.items):
                    if i:
                        parts.append(s.t)
                    parts.append(x.t)
                if not parts:
                    return VStr("")
                return VStr(parts[0] if len(parts) == 1 else z3.Concat(*parts))
            return VStr(self.fresh(st, "joined", z3.StringSort()))
        if name == "format":
            return VStr(self.fresh(st, "formatted", z3.StringSort()))
        if name == "isdigit":
            f = self.ctx.ufunc("str_isdigit", z3.StringSort(), z3.BoolSort())
            return VBool(f(s.t))
        if name == "index" or name == "find":
            return VInt(z3.IndexOf(s.t, a[0].t, 0))
        if name == "count":
            return VInt(self.fresh(st, "strcount", z3.IntSort()))
        raise Unsupported(f"str.{name}")

    def str_split(self, st, s, sep, kw, node):
        """s.split(sep) for a one-piece separator: modelled for strings with at most one occurrence
        by a case split; otherwise an abstract list of pieces with the join-back axiom."""
        occurs = z3.Contains(s.t, sep.t)
        if not self.decide(st, occurs):
            return self.alloc(st, HList([s]))
        i = z3.IndexOf(s.t, sep.t, 0)
        left = z3.SubString(s.t, 0, i)
        right = z3.SubString(s.t, i + z3.Length(sep.t), z3.Length(s.t) - i - z3.Length(sep.t))
        maxsplit = kw.get("maxsplit")
        if maxsplit is not None and pyconst(maxsplit)[1] == 1:
            return self.alloc(st, HList([VStr(left), VStr(right)]))
        if not self.decide(st, z3.Contains(right, sep.t)):
            return self.alloc(st, HList([VStr(left), VStr(right)]))
        raise Unsupported("str.split with more than one separator occurrence")

    def dict_method(self, st, recv, h, name, args, kw, node):
        a = [self.force(st, x) for x in args]
        if name in ("items", "keys", "values"):
            return VFunc("dictview", recv=recv, mode=name)
        if name == "get":
            key = a[0]
            dflt = a[1] if len(a) > 1 else VNone()
            c = self.contains(st, recv, key)
            cs = z3.simplify(c)
            if z3.is_false(cs):
                return dflt
            if z3.is_true(cs) or self.implied(st, c):
                return self.guarded(st, c, lambda: self.getitem_nodefault(st, recv, key, node))
            if self.implied(st, t_not(c)):
                return dflt
            hit = self.guarded(st, c, lambda: self.getitem_nodefault(st, recv, key, node))
            hv = self.resolve(st, hit) if isinstance(hit, VRef) else hit
            dv = self.resolve(st, dflt) if isinstance(dflt, VRef) else dflt
            try:
                m = self.v_ite(c, hv, dv)
            except NeedSplit:
                raise NeedSplit(cs)
            if isinstance(m, H):
                r = self.alloc(st, m)
                if isinstance(hit, VRef):
                    st.aliases.append((hit.root, hit.path))
                return r
            return m
        if name == "setdefault":
            key = a[0]
            dflt = a[1] if len(a) > 1 else VNone()
            c = self.contains(st, recv, key)
            if not self.decide(st, c):
                self.write(st, VRef(recv.root, recv.path + (("k", key),)), dflt)
            return self.getitem_nodefault(st, recv, key, node)
        if name == "update":
            src = a[0] if a else None
            if src is not None:
                s = self.source(st, src, "items")
                if not s.concrete:
                    hs = self.resolve(st, src)
                    if isinstance(hs, HDict) and isinstance(h, HDict):
                        hb = subst(hs, [(hs.binder, h.binder)])
                        nh = HDict(h.kty, h.binder, t_or(h.dom, hb.dom), self.v_ite(hb.dom, hb.val, h.val), h.default, h.vty)
                        self.write_h(st, recv, nh)
                        return VNone()
                    raise Unsupported("dict.update from abstract source")
                for it in s.items:
                    k, v = it.items
                    self.write(st, VRef(recv.root, recv.path + (("k", k),)), v)
            for k, v in kw.items():
                self.write(st, VRef(recv.root, recv.path + (("k", VStr(k)),)), v)
            return VNone()
        if name == "pop":
            raise Unsupported("dict.pop")
        if name == "clear":
            self.write_h(st, recv, HPyDict([], getattr(h, "default", None)))
            return VNone()
        if name == "copy":
            return self.alloc(st, h)
        if name == "most_common":
            raise Unsupported("Counter.most_common")
        raise Unsupported(f"dict.{name}")

    def getitem_nodefault(self, st, recv, key, node):
        return self.load(st, VRef(recv.root, recv.path + (("k", key),)))

    def write_h(self, st, ref, h):
        """Replace the descriptor a reference points to (in-place container update)."""
        if not ref.path:
            self.check_alias_hazard(st, ref)
            if st.rec and ref.root not in st.rec[-1].fresh:
                st.rec[-1].log_write(self, st, ref, h)
            st.heap[ref.root] = h
        else:
            self.write_raw(st, ref, h)

    def write_raw(self, st, ref, h):
        ref = self.canon_prefix(st, ref)
        self.check_alias_hazard(st, ref)
        if st.rec and ref.root not in st.rec[-1].fresh:
            st.rec[-1].log_write(self, st, ref, h)
        st.heap[ref.root] = self.upd_raw(st, st.heap[ref.root], list(ref.path), h)

    def upd_raw(self, st, cur, path, newh):
        """Like upd, but the new value is a descriptor stored by value (no aliasing note)."""
        marker = _Raw(newh)
        return self.upd(st, cur, path, marker)

    def as_stored(self, st, new, by_value):
        if isinstance(new, _Raw):
            return new.h
        if type(new).__name__ == "_Share":
            return new.v
        return super().as_stored(st, new, by_value)

    def list_method(self, st, recv, h, name, args, kw, node):
        a = [self.force(st, x) for x in args]
        if name == "append" and st.rec and recv.root not in st.rec[-1].fresh and self.canon(st, recv).root in getattr(st.rec[-1], "before", ()):
            # append to a loop-external list inside a summarised loop: order-free accumulation
            from .interp import Effect
            c = self.canon(st, recv)
            g = t_and(*st.pc[st.rec[-1].pc_len:])
            val = a[0]
            if isinstance(val, VRef) and val.root not in st.rec[-1].before:
                val = self.resolve(st, val)
            st.rec[-1].effects.append(Effect("append", c.root, c.path, val, g, where=self.where(node, st)))
            return VNone()
        if name == "append":
            if isinstance(h, HList):
                self.write_h(st, recv, HList(list(h.items) + [a[0]]))
            elif isinstance(h, HSeq):
                self.write_h(st, recv, HSeq(h.elem_ty, z3.Concat(h.t, z3.Unit(self.lower(a[0], h.elem_ty)))))
            else:
                raise Unsupported("append to comprehension-shaped list")
            return VNone()
        if name == "extend":
            src = a[0]
            if isinstance(h, HList):
                self.write_h(st, recv, HList(list(h.items) + self.concrete_items(st, src)))
                return VNone()
            if isinstance(h, HSeq):
                hs = self.resolve(st, src) if isinstance(src, VRef) else None
                if isinstance(hs, HSeq):
                    self.write_h(st, recv, HSeq(h.elem_ty, z3.Concat(h.t, hs.t)))
                    return VNone()
                items = self.concrete_items(st, src)
                t = h.t
                for i in items:
                    t = z3.Concat(t, z3.Unit(self.lower(i, h.elem_ty)))
                self.write_h(st, recv, HSeq(h.elem_ty, t))
                return VNone()
        if name == "pop":
            if isinstance(h, HList):
                ok, i = pyconst(a[0]) if a else (True, -1)
                if not h.items:
                    self.oblige(st, "indexerror", z3.BoolVal(False), where=self.where(node, st))
                    raise PathDone()
                items = list(h.items)
                x = items.pop(i)
                self.write_h(st, recv, HList(items))
                return x
            if isinstance(h, HSeq) and not a:
                n = z3.Length(h.t)
                self.oblige(st, "indexerror", n > 0, where=self.where(node, st))
                x = self.lift(h.t[n - 1], h.elem_ty)
                self.write_h(st, recv, HSeq(h.elem_ty, z3.SubSeq(h.t, 0, n - 1)))
                return x
        if name == "copy":
            return self.alloc(st, h)
        if name == "clear":
            self.write_h(st, recv, HList([]) if not isinstance(h, HSeq) else HSeq(h.elem_ty, z3.Empty(h.t.sort())))
            return VNone()
        if name == "sort":
            if isinstance(h, HList):
                self.write_h(st, recv, HList(self.sort_concrete(st, list(h.items), kw, node)))
                return VNone()
        if name == "index":
            if isinstance(h, HList):
                for i, x in enumerate(h.items):
                    if self.decide(st, self.eq(st, x, a[0])):
                        return VInt(i)
                self.do_raise(st, VExc("ValueError", ()))
                raise PathDone()
        if name == "insert" and isinstance(h, HList):
            ok, i = pyconst(a[0])
            items = list(h.items)
            items.insert(i, a[1])
            self.write_h(st, recv, HList(items))
            return VNone()
        raise Unsupported(f"list.{name} on {type(h).__name__}")

    def set_method(self, st, recv, h, name, args, kw, node):
        a = [self.force(st, x) for x in args]
        if name == "add":
            if isinstance(h, HPySet):
                if not any(self.try_const_eq(x, a[0]) for x in h.items):
                    self.write_h(st, recv, HPySet(list(h.items) + [a[0]]))
                return VNone()
            kt = self.lower(a[0], h.kty)
            self.write_h(st, recv, HSet(h.kty, h.binder, t_or(h.mem, h.binder == kt)))
            return VNone()
        if name == "copy":
            return self.alloc(st, h)
        if name == "clear":
            self.write_h(st, recv, HPySet([]))
            return VNone()
        if name in ("update", "difference_update"):
            other = self.as_hset(st, a[0], h)
            me = self.as_hset(st, recv, None)
            ob = subst(other, [(other.binder, me.binder)])
            mem = t_or(me.mem, ob.mem) if name == "update" else t_and(me.mem, t_not(ob.mem))
            self.write_h(st, recv, HSet(me.kty, me.binder, mem))
            return VNone()
        if name in ("remove", "discard"):
            me = self.as_hset(st, recv, None)
            kt = self.lower(a[0], me.kty)
            if name == "remove":
                self.oblige(st, "keyerror", subst(me.mem, [(me.binder, kt)]), where=self.where(node, st))
            self.write_h(st, recv, HSet(me.kty, me.binder, t_and(me.mem, me.binder != kt)))
            return VNone()
        raise Unsupported(f"set.{name}")

    def as_hset(self, st, v, like):
        """View any collection as an abstract set descriptor."""
        if isinstance(v, VRef):
            h = self.resolve(st, v)
            if isinstance(h, HSet):
                return h
            if isinstance(h, (HPySet, HList)):
                if not h.items:
                    if like is None or not isinstance(like, HSet):
                        raise Unsupported("empty concrete set with unknown element type")
                    return HSet(like.kty, like.binder, z3.BoolVal(False))
                ety = self.type_of(h.items[0])
                y = z3.Const(f"sk!{next(self.ctx.counter)}", ety.sort())
                return HSet(ety, y, t_or(*[y == self.lower(i, ety) for i in h.items]))
            if isinstance(h, HDict):
                return HSet(h.kty, h.binder, h.dom)
        s = self.source(st, v)
        if s.concrete:
            if not s.items:
                if like is None or not isinstance(like, HSet):
                    raise Unsupported("empty concrete set with unknown element type")
                return HSet(like.kty, like.binder, z3.BoolVal(False))
            ety = self.type_of(s.items[0])
            y = z3.Const(f"sk!{next(self.ctx.counter)}", ety.sort())
            return HSet(ety, y, t_or(*[y == self.lower(i, ety) for i in s.items]))
        r = self.fam_to_set(st, VFam("set", s.binders, s.guard, s.elem))
        return self.resolve(st, r)

    def container_binop(self, st, op, a, b, node):
        ha = self.resolve(st, a) if isinstance(a, VRef) else None
        hb = self.resolve(st, b) if isinstance(b, VRef) else None
        if isinstance(op, ast.Add):
            if isinstance(a, (VFam, VParts)) and isinstance(b, (VFam, VParts)):
                # list + list of two comprehension values: the pieces side by side (only aggregates consume it)
                return VParts((a.fams if isinstance(a, VParts) else [a]) + (b.fams if isinstance(b, VParts) else [b]))
            if isinstance(ha, HList) and isinstance(hb, HList):
                return self.alloc(st, HList(list(ha.items) + list(hb.items)))
            if isinstance(ha, HSeq) and isinstance(hb, HSeq):
                return self.alloc(st, HSeq(ha.elem_ty, z3.Concat(ha.t, hb.t)))
            if isinstance(ha, HSeq) and isinstance(hb, HList):
                t = ha.t
                for i in hb.items:
                    t = z3.Concat(t, z3.Unit(self.lower(i, ha.elem_ty)))
                return self.alloc(st, HSeq(ha.elem_ty, t))
            if isinstance(ha, HList) and isinstance(hb, HSeq):
                if not ha.items:
                    return self.alloc(st, hb)
                t = z3.Concat(*[z3.Unit(self.lower(i, hb.elem_ty)) for i in ha.items], hb.t)
                return self.alloc(st, HSeq(hb.elem_ty, t))
        if isinstance(op, ast.Mult) and isinstance(ha, HList) and isinstance(b, VInt):
            ok, n = pyconst(b)
            if ok:
                return self.alloc(st, HList(list(ha.items) * n))
            if len(ha.items) == 1 and self.encodable_v(ha.items[0]):
                ety = self.type_of(ha.items[0])
                rep = self.ctx.ufunc(f"seq_repeat<{ety.show()}>", ety.sort(), z3.IntSort(), z3.SeqSort(ety.sort()))
                t = rep(self.lower(ha.items[0], ety), b.t)
                st.pc.append(z3.Length(t) == z3.If(b.t > 0, b.t, 0))
                return self.alloc(st, HSeq(ety, t))
        if isinstance(op, (ast.BitOr, ast.Sub, ast.BitAnd)):
            sa = self.as_hset(st, a, hb if isinstance(hb, HSet) else None)
            sb = self.as_hset(st, b, sa)
            sb2 = subst(sb, [(sb.binder, sa.binder)])
            if isinstance(op, ast.BitOr):
                mem = t_or(sa.mem, sb2.mem)
            elif isinstance(op, ast.Sub):
                mem = t_and(sa.mem, t_not(sb2.mem))
            else:
                mem = t_and(sa.mem, sb2.mem)
            return self.alloc(st, HSet(sa.kty, sa.binder, mem))
        raise Unsupported(f"operator {type(op).__name__} on containers")

    def encodable_v(self, v):
        try:
            return self.encodable(self.type_of(v))
        except Unsupported:
            return False


class _Raw:
    def __init__(self, h):
        self.h = h


class VRangeS(VRange):
    pass


class PathDone(Exception):
    """The current path ended inside an expression (raise)."""
