"""Symbolic executor: Python AST (real aldy source + sidecar contracts) -> verification conditions."""
import ast
import itertools
import z3

from . import front
from .ty import (TInt, TReal, TBool, TStr, TNone, TAny, TTuple, TRec, TList, TDict, TSet, TOpt,
                 TUnion, TObj, TFunc, Ty, TLin, TLinVar)
from .vals import *  # noqa


# ----------------------------------------------------------------------------- helpers

def t_and(*xs):
    xs = [x for x in xs if not z3.is_true(x)]
    if any(z3.is_false(x) for x in xs):
        return z3.BoolVal(False)
    if not xs:
        return z3.BoolVal(True)
    return xs[0] if len(xs) == 1 else z3.And(*xs)


def t_or(*xs):
    xs = [x for x in xs if not z3.is_false(x)]
    if any(z3.is_true(x) for x in xs):
        return z3.BoolVal(True)
    if not xs:
        return z3.BoolVal(False)
    return xs[0] if len(xs) == 1 else z3.Or(*xs)


def t_not(x):
    if z3.is_true(x):
        return z3.BoolVal(False)
    if z3.is_false(x):
        return z3.BoolVal(True)
    if z3.is_not(x):
        return x.arg(0)
    return z3.Not(x)


def t_ite(c, a, b):
    if z3.is_true(c):
        return a
    if z3.is_false(c):
        return b
    if a.eq(b):
        return a
    return z3.If(c, a, b)


def to_real(t):
    return z3.ToReal(t) if t.sort() == z3.IntSort() else t


CANON = [TNone(), TBool(), TInt(), TReal(), TStr()]


def to_dyn(v):
    """Scalar value as a canonical dynamic value."""
    if isinstance(v, VDyn):
        return v
    zero = [VNone(), VBool(False), VInt(0), VReal(0), VStr("")]
    idx = {VNone: 0, VBool: 1, VInt: 2, VReal: 3, VStr: 4}.get(type(v))
    if idx is None:
        return None
    alts = [(CANON[i], v if i == idx else zero[i]) for i in range(5)]
    return VDyn(z3.IntVal(idx), alts, "")


class Obligation:
    def __init__(self, name, kind, hyps, goal, where="", meta=None):
        self.name, self.kind, self.hyps, self.goal, self.where = name, kind, list(hyps), goal, where
        self.meta = meta or {}


class Frame:
    """One function activation."""

    def __init__(self, finfo, env, parent=None, spec=False):
        self.finfo = finfo  # front.FuncInfo or None
        self.env = env  # name -> V
        self.parent = parent  # lexical parent Frame (closures)
        self.spec = spec

    def lookup(self, name):
        f = self
        while f is not None:
            if name in f.env:
                return f.env[name]
            f = f.parent
        return None

    def clone(self, memo):
        if id(self) in memo:
            return memo[id(self)]
        f = Frame(self.finfo, dict(self.env), None, self.spec)
        for k, v in self.__dict__.items():
            if k not in ("finfo", "env", "parent", "spec"):
                setattr(f, k, v)
        memo[id(self)] = f
        f.parent = self.parent.clone(memo) if self.parent is not None else None
        return f


class State:
    def __init__(self):
        self.pc = []
        self.axioms = []
        self.heap = {}
        self.frames = []  # call stack of Frame
        self.status = "run"  # run | return | raise | break | continue
        self.value = None  # return value / VExc
        self.old_heap = None
        self.ghost = {}
        self.aliases = []  # (root, path) pairs copied by value
        self.rec = []  # recording frames (rule F)
        self.events = []  # ordered observable events (calls of interest, prints)
        self.fresh_roots = set()
        self.depth = 0
        self.nfresh = 0

    def clone(self):
        s = State()
        s.pc = list(self.pc)
        s.axioms = list(self.axioms)
        s.heap = dict(self.heap)
        memo = {}
        s.frames = [f.clone(memo) for f in self.frames]
        s.status, s.value = self.status, self.value
        s.old_heap = self.old_heap
        s.ghost = dict(self.ghost)
        s.aliases = list(self.aliases)
        s.rec = [r.clone() for r in self.rec]
        s.events = list(self.events)
        s.fresh_roots = set(self.fresh_roots)
        s.depth = self.depth
        s.nfresh = self.nfresh
        return s

    def hyps(self):
        return list(self.axioms) + list(self.pc)

    @property
    def frame(self):
        return self.frames[-1]


class Contract:
    def __init__(self, qualname, node, module_text, path):
        self.qualname = qualname
        self.node = node  # FunctionDef
        self.path = path
        self.flags = {}
        for d in node.decorator_list:
            if isinstance(d, ast.Call):
                for kw in d.keywords:
                    self.flags[kw.arg] = ast.literal_eval(kw.value)


class Ctx:
    """Engine-wide context for one function verification run."""

    def __init__(self, schema, contracts, specfuncs, config=None):
        self.schema = schema
        self.contracts = contracts  # qualname -> Contract
        self.specfuncs = specfuncs  # name -> ast.FunctionDef (spec vocabulary)
        self.config = config or {}
        self.counter = itertools.count()
        self.root_counter = itertools.count(1)
        self.obls = []
        self.assumed = []  # assumed contracts / opaque calls used
        self.notes = []
        self.decide_cache = {}
        self.funcs = {}  # uninterpreted function cache
        self.solver_calls = 0
        self.loops = []  # (function, loop ordinal, rule)
        self.paths = 0

    def fresh(self, base, sort):
        return z3.Const(f"{base}!{next(self.counter)}", sort)

    def ufunc(self, name, *sorts):
        key = (name,) + tuple(str(s) for s in sorts)
        if key not in self.funcs:
            self.funcs[key] = z3.Function(name, *sorts)
        return self.funcs[key]

    def new_root(self):
        return f"r{next(self.root_counter)}"


SPEC_BUILTINS = {"requires", "ensures", "raises", "modifies", "reads", "types", "returns", "invariant",
                 "decreases", "ghost", "assume_contract", "may_raise", "pure", "foreach", "bounded", "shares", "cut_after", "must_raise", "not_called",
                 "names_distinct"}


class Exec:
    def __init__(self, ctx):
        self.ctx = ctx
        self.schema = ctx.schema

    # ------------------------------------------------------------------ abstract value creation

    def app(self, name, sort, binders):
        if not binders:
            return z3.Const(name, sort)
        f = self.ctx.ufunc(name, *[b.sort() for b in binders], sort)
        return f(*binders)

    def mk_abstract(self, ty, name, binders=()):
        binders = tuple(binders)
        if isinstance(ty, TInt):
            return VInt(self.app(name, z3.IntSort(), binders))
        if isinstance(ty, TReal):
            return VReal(self.app(name, z3.RealSort(), binders))
        if isinstance(ty, TLin):
            return VLin(self.app(name, z3.RealSort(), binders))
        if isinstance(ty, TLinVar):
            return self.lift(self.app(name, ty.sort(), binders), ty)
        if isinstance(ty, TBool):
            return VBool(self.app(name, z3.BoolSort(), binders))
        if isinstance(ty, TStr):
            return VStr(self.app(name, z3.StringSort(), binders))
        if isinstance(ty, TNone):
            return VNone()
        if isinstance(ty, TAny):
            return VOpaque(self.app(name, ty.sort(), binders), ty.name)
        if isinstance(ty, TRec):
            return VRec(ty.cls, [f for f, _ in ty.fields],
                        [self.mk_abstract(t, f"{name}.{f}", binders) for f, t in ty.fields])
        if isinstance(ty, TTuple):
            items = [self.mk_abstract(t, f"{name}.{i}", binders) for i, t in enumerate(ty.items)]
            return VTuple(items)
        if isinstance(ty, (TOpt, TUnion)):
            return VLazy(ty, name, binders)
        if isinstance(ty, TFunc):
            return VFunc("abstract", name=name, ty=ty, binders=binders)
        if isinstance(ty, TObj):
            return HObj(ty.cls, {}, (name, binders))
        if isinstance(ty, TDict):
            b = z3.Const(f"{name}!k", self.key_sort(ty.k))
            return HDict(ty.k, b, self.app(f"{name}!dom", z3.BoolSort(), binders + (b,)),
                         self.mk_abstract(ty.v, f"{name}!val", binders + (b,)), ty.default, ty.v)
        if isinstance(ty, TSet):
            b = z3.Const(f"{name}!k", self.key_sort(ty.k))
            return HSet(ty.k, b, self.app(f"{name}!mem", z3.BoolSort(), binders + (b,)))
        if isinstance(ty, TList):
            if self.encodable(ty.elem):
                return HSeq(ty.elem, self.app(name, z3.SeqSort(self.key_sort(ty.elem)), binders))
            i = z3.Const(f"{name}!i", z3.IntSort())
            return HListC(self.app(f"{name}!len", z3.IntSort(), binders), i,
                          self.mk_abstract(ty.elem, f"{name}!e", binders + (i,)), ty.elem)
        raise Unsupported(f"cannot make abstract value of type {ty}")

    def encodable(self, ty):
        return isinstance(ty, (TInt, TReal, TBool, TStr, TRec, TAny, TLin, TLinVar)) or (
            isinstance(ty, TTuple) and all(self.encodable(i) for i in ty.items))

    def key_sort(self, ty):
        if not self.encodable(ty):
            raise Unsupported(f"type {ty} is not encodable as a z3 sort")
        return ty.sort()

    # lower: V -> z3 term of ty.sort();  lift: term -> V
    def lower(self, v, ty):
        if isinstance(ty, TInt):
            if isinstance(v, VInt):
                return v.t
            if isinstance(v, VBool):
                return z3.If(v.t, 1, 0)
        if isinstance(ty, TReal):
            if isinstance(v, (VInt, VReal)):
                return to_real(v.t)
            if isinstance(v, VBool):
                return z3.If(v.t, z3.RealVal(1), z3.RealVal(0))
        if isinstance(ty, TBool) and isinstance(v, VBool):
            return v.t
        if isinstance(ty, TLin) and isinstance(v, (VLin, VInt, VReal)):
            return to_real(v.t)
        if isinstance(ty, TLinVar) and isinstance(v, VLin) and getattr(v, "var", None) is not None:
            return v.var
        if isinstance(ty, TReal) and isinstance(v, VLin):
            return v.t
        if isinstance(ty, TStr) and isinstance(v, VStr):
            return v.t
        if isinstance(ty, TAny) and isinstance(v, VOpaque):
            return v.t
        if isinstance(ty, TRec):
            if isinstance(v, VRec) or isinstance(v, VTuple):
                items = v.items
                if len(items) == len(ty.fields):
                    s = ty.sort()
                    return s.constructor(0)(*[self.lower(i, t) for i, (_, t) in zip(items, ty.fields)])
        if isinstance(ty, TTuple) and isinstance(v, (VTuple, VRec)) and len(v.items) == len(ty.items):
            s = ty.sort()
            return s.constructor(0)(*[self.lower(i, t) for i, t in zip(v.items, ty.items)])
        raise Unsupported(f"cannot lower {v!r} to {ty}")

    def lift(self, t, ty):
        if isinstance(ty, TInt):
            return VInt(t)
        if isinstance(ty, TReal):
            return VReal(t)
        if isinstance(ty, TLin):
            return VLin(t)
        if isinstance(ty, TLinVar):
            r = VLin(self.ctx.ufunc("lp_val", ty.sort(), z3.RealSort())(t))
            r.var = t
            return r
        if isinstance(ty, TBool):
            return VBool(t)
        if isinstance(ty, TStr):
            return VStr(t)
        if isinstance(ty, TAny):
            return VOpaque(t, ty.name)
        if isinstance(ty, TRec):
            s = ty.sort()
            return VRec(ty.cls, [f for f, _ in ty.fields],
                        [self.lift(z3.simplify(s.accessor(0, i)(t)), ft) for i, (_, ft) in enumerate(ty.fields)])
        if isinstance(ty, TTuple):
            s = ty.sort()
            return VTuple([self.lift(z3.simplify(s.accessor(0, i)(t)), it) for i, it in enumerate(ty.items)])
        raise Unsupported(f"cannot lift term of type {ty}")

    def type_of(self, v, st=None):
        """Best-effort static type of a value (for keys of fresh containers)."""
        if isinstance(v, VInt):
            return TInt()
        if isinstance(v, VReal):
            return TReal()
        if isinstance(v, VBool):
            return TBool()
        if isinstance(v, VStr):
            return TStr()
        if isinstance(v, VNone):
            return TNone()
        if isinstance(v, VOpaque):
            return TAny(v.name)
        if isinstance(v, VRec):
            return self.schema.parse(v.cls)
        if isinstance(v, VTuple):
            return TTuple([self.type_of(i, st) for i in v.items])
        if isinstance(v, VLin):
            return TLinVar() if getattr(v, "var", None) is not None else TLin()
        raise Unsupported(f"no static type for {v!r}")

    # ------------------------------------------------------------------ deciding conditions

    def implied(self, st, c):
        for p in st.pc:
            if p.eq(c):
                return True
        key = (tuple(p.get_id() for p in st.pc), len(st.axioms), c.get_id())
        cache = self.ctx.decide_cache
        if key in cache:
            return cache[key][0]
        s = z3.Solver()
        s.set("timeout", int(self.ctx.config.get("decide_timeout_ms", 1500)))
        s.set("smt.mbqi", False)
        for p in st.axioms:
            s.add(p)
        for p in st.pc:
            s.add(p)
        s.add(z3.Not(c))
        self.ctx.solver_calls += 1
        r = s.check() == z3.unsat
        cache[key] = (r, list(st.pc), c)  # keep the ASTs alive: z3 recycles ids of freed terms
        return r

    def decide(self, st, c):
        c = z3.simplify(c)
        if z3.is_true(c):
            return True
        if z3.is_false(c):
            return False
        if self.implied(st, c):
            return True
        nc = z3.simplify(z3.Not(c))
        if self.implied(st, nc):
            return False
        raise NeedSplit(c)

    def oblige(self, st, name, goal, kind="safety", where="", meta=None):
        if st.frame.spec and kind == "safety":
            return
        goal = z3.simplify(goal) if not isinstance(goal, bool) else z3.BoolVal(goal)
        if z3.is_true(goal):
            # still count trivially true obligations? keep them: they are real obligations, discharged syntactically
            pass
        self.ctx.obls.append(Obligation(name, kind, st.hyps(), goal, where, meta))

    def where(self, node, st):
        fi = None
        f = st.frame
        while f is not None and fi is None:
            fi = f.finfo
            f = f.parent
        if fi is None:
            for fr in reversed(st.frames):
                if fr.finfo is not None:
                    fi = fr.finfo
                    break
        fn = fi.module.path if fi is not None and hasattr(fi, "module") else "?"
        return f"{fn}:{getattr(node, 'lineno', '?')}"

    # ------------------------------------------------------------------ heap access

    def alloc(self, st, h):
        r = self.ctx.new_root()
        st.heap[r] = h
        st.fresh_roots.add(r)
        return VRef(r)

    def field_value(self, st, hobj, name):
        if name in hobj.fields:
            return hobj.fields[name]
        ty = self.schema.field_ty(hobj.cls, name) if hobj.cls in self.schema.classes else None
        if ty is None:
            raise Unsupported(f"unknown field {hobj.cls}.{name}")
        if hobj.lazy is None:
            raise Unsupported(f"field {hobj.cls}.{name} read before assignment")
        nm, bs = hobj.lazy
        return self.mk_abstract(ty, f"{nm}.{name}", bs)

    def step(self, st, cur, kind, x):
        """One access step inside a heap descriptor. Returns V | H | VRef (jump)."""
        if kind == "f":
            if not isinstance(cur, HObj):
                raise Unsupported(f"attribute {x} of non-object {type(cur).__name__}")
            return self.field_value(st, cur, x)
        if isinstance(cur, HDict):
            kt = self.lower(x, cur.kty)
            return subst(cur.val, [(cur.binder, kt)])
        if isinstance(cur, HPyDict):
            for k, v in cur.items:
                if self.const_eq(k, x):
                    return v
            raise Unsupported("concrete dict lookup with unknown key")
        if isinstance(cur, HSeq):
            return self.lift(cur.t[self.as_int(x)], cur.elem_ty)
        if isinstance(cur, HList):
            ok, i = pyconst(x)
            if not ok:
                raise Unsupported("symbolic index into concrete list")
            return cur.items[i]
        if isinstance(cur, HListC):
            return subst(cur.elem, [(cur.binder, self.as_int(x))])
        raise Unsupported(f"subscript of {type(cur).__name__}")

    def resolve(self, st, ref):
        cur = st.heap[ref.root]
        path = list(ref.path)
        while path:
            (kind, x), path = path[0], path[1:]
            nxt = self.step(st, cur, kind, x)
            if isinstance(nxt, VRef):
                return self.resolve(st, VRef(nxt.root, nxt.path + tuple(path)))
            cur = nxt
        return cur

    def canon(self, st, ref):
        """Follow jumps so that the reference names the owning root."""
        cur = st.heap[ref.root]
        done = []
        path = list(ref.path)
        while path:
            (kind, x), path = path[0], path[1:]
            nxt = self.step(st, cur, kind, x)
            if isinstance(nxt, VRef):
                return self.canon(st, VRef(nxt.root, nxt.path + tuple(path)))
            done.append((kind, x))
            cur = nxt
        return VRef(ref.root, tuple(done))

    def load(self, st, ref):
        """Value seen when reading through a reference: scalars by value, containers by reference."""
        x = self.resolve(st, ref)
        if isinstance(x, H):
            return self.canon(st, ref)
        if st.rec and ref.path and ref.path[-1][0] == "f" and ref.root not in st.rec[-1].fresh:
            st.rec[-1].reads.append((self.canon(st, ref), None, tuple(st.pc[st.rec[-1].pc_len:])))
        return self.force(st, x)

    def force(self, st, v):
        """Resolve lazy Optional/Union values by case split."""
        if not isinstance(v, VLazy):
            return v
        if isinstance(v.ty, TOpt):
            isn = self.app(v.name + "!isnone", z3.BoolSort(), v.binders)
            if self.decide(st, isn):
                return VNone()
            inner = self.mk_abstract(v.ty.inner, v.name, v.binders)
            if isinstance(inner, H):
                key = ("lazyroot", v.name, tuple(b.get_id() for b in v.binders))
                if key not in st.ghost:
                    st.ghost[key] = self.alloc_named(st, inner, v.name)
                return st.ghost[key]
            return self.force(st, inner)
        if isinstance(v.ty, TUnion):
            tag = self.app(v.name + "!tag", z3.IntSort(), v.binders)
            alts = []
            extra = [a for a in v.ty.alts if not any(type(a) is type(c) for c in CANON)]
            all_tys = list(CANON) + extra
            for i, cty in enumerate(all_tys):
                inner = self.mk_abstract(cty, f"{v.name}!as{i}", v.binders)
                if isinstance(inner, H):
                    rn = f"{v.name}!as{i}" + "".join("|" + b.sexpr() for b in v.binders)
                    inner = self.alloc_named(st, inner, rn)
                alts.append((cty, inner))
            akey = ("unionax", v.name)
            if akey not in st.ghost:
                st.ghost[akey] = True
                xs = [z3.Const(f"ux!{i}", b.sort()) for i, b in enumerate(v.binders)]
                tg = self.app(v.name + "!tag", z3.IntSort(), tuple(xs))
                body = t_or(*[tg == i for i, cty in enumerate(all_tys) if any(a == cty or (i < 5 and type(a) is type(cty)) for a in v.ty.alts)])
                st.axioms.append(z3.ForAll(xs, body) if xs else body)
            return VDyn(tag, alts, v.name)
        raise Unsupported("lazy value")

    def alloc_named(self, st, h, name):
        r = "p:" + name
        if r not in st.heap:
            st.heap[r] = h
        return VRef(r)

    def write(self, st, ref, new):
        ref = self.canon_prefix(st, ref)
        self.check_alias_hazard(st, ref)
        st.ghost["__epoch__"] = st.ghost.get("__epoch__", 0) + 1
        st.heap[ref.root] = self.upd(st, st.heap[ref.root], list(ref.path), new)
        if st.rec and ref.root not in st.rec[-1].fresh:
            st.rec[-1].log_write(self, st, ref, new)

    def canon_prefix(self, st, ref):
        """Canonicalise all but the last step (the last step may not exist yet)."""
        if not ref.path:
            return ref
        pre = self.canon(st, VRef(ref.root, ref.path[:-1]))
        return VRef(pre.root, pre.path + (ref.path[-1],))

    def check_alias_hazard(self, st, ref):
        for al in st.aliases:
            r, p = al[0], al[1]
            if len(al) > 2 and al[2] == "shallow":
                # shallow copy: rebinding a field is fine, mutating a shared nested container is not
                if r == ref.root and self.path_prefix(p, ref.path) and len(ref.path) - len(p) >= 2:
                    raise Unsupported(f"in-place update below a shallow copy ({ref!r})")
                continue
            if r == ref.root and (self.path_prefix(p, ref.path) or self.path_prefix(ref.path, p)):
                raise Unsupported(f"in-place update of an object that was stored by value elsewhere ({ref!r})")

    @staticmethod
    def path_prefix(p, q):
        if len(p) > len(q):
            return False
        for (k1, x1), (k2, x2) in zip(p, q):
            if k1 != k2:
                return False
            if k1 == "f" and x1 != x2:
                return False
        return True

    def as_stored(self, st, new, by_value):
        """What is put into a slot: scalar V, VRef (by reference) or H copy (by value)."""
        if isinstance(new, VRef):
            if by_value:
                h = self.deep_inline(st, self.resolve(st, new))
                if new.root not in st.fresh_roots or new.path:
                    st.aliases.append((new.root, new.path))
                else:
                    # a fresh whole object moved into a template: remember the alias too
                    st.aliases.append((new.root, new.path))
                return h
            return new
        return new

    def deep_inline(self, st, h, depth=0):
        """By-value form of an object graph (references to nested containers are inlined); the copy
        is recorded as an alias hazard by the caller."""
        if depth > 6:
            raise Unsupported("object graph too deep to store by value")
        if isinstance(h, HObj):
            fs = {}
            for k, v in h.fields.items():
                if isinstance(v, VRef):
                    st.aliases.append((v.root, v.path))
                    v = self.deep_inline(st, self.resolve(st, v), depth + 1)
                elif isinstance(v, H):
                    v = self.deep_inline(st, v, depth + 1)
                fs[k] = v
            return HObj(h.cls, fs, h.lazy)
        if isinstance(h, HList) and any(isinstance(i, VRef) for i in h.items):
            items = []
            for i in h.items:
                if isinstance(i, VRef):
                    st.aliases.append((i.root, i.path))
                    i = self.deep_inline(st, self.resolve(st, i), depth + 1)
                items.append(i)
            return HList(items)
        return h

    def upd(self, st, cur, path, new):
        if not path:
            return new
        (kind, x), rest = path[0], path[1:]
        if kind == "f":
            if not isinstance(cur, HObj):
                raise Unsupported("attribute store on non-object")
            if rest:
                child = self.field_value(st, cur, x)
                if isinstance(child, VRef):
                    raise Unsupported("internal: uncanonical path")
                return cur.with_field(x, self.upd(st, child, rest, new))
            return cur.with_field(x, self.as_stored(st, new, by_value=False))
        # key step
        if isinstance(cur, HPyDict) and not pyconst(x)[0]:
            cur = self.abstract_dict(st, cur, x, None if rest else new)
        if isinstance(cur, HDict):
            kt = self.lower(x, cur.kty)
            eq = cur.binder == kt
            if rest:
                if cur.val is None:
                    raise Unsupported("nested store into an empty dictionary of unknown value shape")
                child = subst(cur.val, [(cur.binder, kt)])
                if cur.default is not None:
                    child = self.v_ite(subst(cur.dom, [(cur.binder, kt)]), child, self.default_h(cur))
                newchild = self.upd(st, child, rest, new)
            else:
                newchild = self.as_stored(st, new, by_value=True)
            newval = newchild if cur.val is None else self.v_ite(eq, newchild, cur.val)
            return HDict(cur.kty, cur.binder, z3.simplify(t_or(cur.dom, eq)), newval, cur.default, cur.vty)
        if isinstance(cur, HPyDict):
            items = list(cur.items)
            for i, (k, v) in enumerate(items):
                if self.const_eq(k, x):
                    items[i] = (k, self.upd(st, v, rest, new) if rest else self.as_stored(st, new, False))
                    return HPyDict(items, cur.default)
            if rest:
                raise Unsupported("nested store into missing concrete dict key")
            ok, _ = pyconst(x)
            if not ok:
                raise Unsupported("symbolic key stored into concrete dict")
            items.append((x, self.as_stored(st, new, False)))
            return HPyDict(items, cur.default)
        if isinstance(cur, HList):
            ok, i = pyconst(x)
            if not ok:
                raise Unsupported("symbolic index store into concrete list")
            items = list(cur.items)
            items[i] = self.upd(st, items[i], rest, new) if rest else self.as_stored(st, new, False)
            return HList(items)
        if isinstance(cur, HSeq) and not rest:
            i = self.as_int(x)
            e = self.lower(new, cur.elem_ty)
            n = z3.Length(cur.t)
            return HSeq(cur.elem_ty, z3.Concat(z3.SubSeq(cur.t, 0, i), z3.Unit(e), z3.SubSeq(cur.t, i + 1, n - i - 1)))
        if isinstance(cur, HListC):
            i = self.as_int(x)
            eq = cur.binder == i
            child = subst(cur.elem, [(cur.binder, i)])
            newchild = self.upd(st, child, rest, new) if rest else self.as_stored(st, new, True)
            return HListC(cur.length, cur.binder, self.v_ite(eq, newchild, cur.elem), cur.elem_ty)
        raise Unsupported(f"store into {type(cur).__name__}")

    def abstract_dict(self, st, h, key, v):
        """Concrete dict that receives a symbolic key: switch to the comprehension-shaped form."""
        kty = self.type_of(key)
        b = z3.Const(f"dk!{next(self.ctx.counter)}", kty.sort())
        dom = z3.BoolVal(False)
        val = None
        for k, x in h.items:
            kt = self.lower(k, kty)
            xv = self.resolve(st, x) if isinstance(x, VRef) else x
            dom = t_or(dom, b == kt)
            val = xv if val is None else self.v_ite(b == kt, xv, val)
        return HDict(kty, b, dom, val, h.default, None)

    def default_h(self, d):
        if d.default == "list":
            if isinstance(d.val, HSeq):
                return HSeq(d.val.elem_ty, z3.Empty(d.val.t.sort()))
            return HList([])
        if d.default == "int":
            return VInt(0)
        if d.default == "set":
            if isinstance(d.val, HSet):
                return HSet(d.val.kty, d.val.binder, z3.BoolVal(False))
            return HPySet([])
        if d.default == "dict":
            if isinstance(d.val, HDict):
                return HDict(d.val.kty, d.val.binder, z3.BoolVal(False), d.val.val, d.val.default, d.val.vty)
            return HPyDict([])
        raise Unsupported(f"defaultdict factory {d.default}")

    def v_ite(self, c, a, b):
        """Merge two V/H templates under condition c."""
        c = z3.simplify(c)
        if z3.is_true(c):
            return a
        if z3.is_false(c):
            return b
        if isinstance(a, VNone) and isinstance(b, VNone):
            return a
        if isinstance(a, (VInt, VBool)) and isinstance(b, (VInt, VBool)) and type(a) is type(b):
            return type(a)(t_ite(c, a.t, b.t))
        if isinstance(a, (VInt, VReal)) and isinstance(b, (VInt, VReal)):
            return VReal(t_ite(c, to_real(a.t), to_real(b.t)))
        if isinstance(a, VStr) and isinstance(b, VStr):
            return VStr(t_ite(c, a.t, b.t))
        if isinstance(a, (VLin, VInt, VReal)) and isinstance(b, (VLin, VInt, VReal)):
            r = VLin(t_ite(c, to_real(a.t), to_real(b.t)))
            va, vb = getattr(a, "var", None), getattr(b, "var", None)
            if va is not None and vb is not None:
                r.var = t_ite(c, va, vb)
            return r
        if isinstance(a, VOpaque) and isinstance(b, VOpaque):
            return VOpaque(t_ite(c, a.t, b.t), a.name)
        if isinstance(a, (VTuple, VRec)) and isinstance(b, (VTuple, VRec)) and len(a.items) == len(b.items):
            items = [self.v_ite(c, x, y) for x, y in zip(a.items, b.items)]
            return VRec(a.cls, a.names, items) if isinstance(a, VRec) else VTuple(items)
        if isinstance(a, HSeq) and isinstance(b, HSeq):
            return HSeq(a.elem_ty, t_ite(c, a.t, b.t))
        if isinstance(a, HSeq) and isinstance(b, HList) and not b.items:
            return HSeq(a.elem_ty, t_ite(c, a.t, z3.Empty(a.t.sort())))
        if isinstance(a, HList) and not a.items and isinstance(b, HSeq):
            return HSeq(b.elem_ty, t_ite(c, z3.Empty(b.t.sort()), b.t))
        if isinstance(a, HDict) and isinstance(b, HDict):
            bb = subst(b, [(b.binder, a.binder)]) if not a.binder.eq(b.binder) else b
            if a.val is None or bb.val is None:
                val = a.val if bb.val is None else bb.val
            else:
                val = self.v_ite(c, a.val, bb.val)
            return HDict(a.kty, a.binder, t_ite(c, a.dom, bb.dom), val, a.default, a.vty)
        if isinstance(a, HPyDict) and isinstance(b, HPyDict) and not a.items and not b.items:
            return a
        if isinstance(a, HList) and isinstance(b, HList) and not a.items and not b.items:
            return a
        if isinstance(a, HPyDict) and not a.items and isinstance(b, HDict):
            return HDict(b.kty, b.binder, z3.simplify(t_ite(c, z3.BoolVal(False), b.dom)), b.val, b.default, b.vty)
        if isinstance(b, HPyDict) and not b.items and isinstance(a, HDict):
            return HDict(a.kty, a.binder, z3.simplify(t_ite(c, a.dom, z3.BoolVal(False))), a.val, a.default, a.vty)
        if isinstance(a, HSet) and isinstance(b, HSet):
            bb = subst(b, [(b.binder, a.binder)]) if not a.binder.eq(b.binder) else b
            return HSet(a.kty, a.binder, t_ite(c, a.mem, bb.mem))
        if isinstance(a, HListC) and isinstance(b, HListC):
            be = subst(b.elem, [(b.binder, a.binder)]) if not a.binder.eq(b.binder) else b.elem
            return HListC(t_ite(c, a.length, b.length), a.binder, self.v_ite(c, a.elem, be), a.elem_ty)
        if isinstance(a, HPySet) and isinstance(b, HPySet) and not a.items and not b.items:
            return a
        if isinstance(a, HPySet) and isinstance(b, HSet):
            mem = t_or(*[b.binder == self.lower(i, b.kty) for i in a.items])
            return HSet(b.kty, b.binder, t_ite(c, mem, b.mem))
        if isinstance(b, HPySet) and isinstance(a, HSet):
            mem = t_or(*[a.binder == self.lower(i, a.kty) for i in b.items])
            return HSet(a.kty, a.binder, t_ite(c, a.mem, mem))
        if isinstance(a, HObj) and isinstance(b, HObj) and a.cls == b.cls:
            names = set(a.fields) | set(b.fields)
            if (a.lazy is None and set(b.fields) - set(a.fields)) or (b.lazy is None and set(a.fields) - set(b.fields)):
                raise NeedSplit(c)
            fs = {}
            for n in names:
                fa = a.fields[n] if n in a.fields else self.mk_abstract(self.schema.field_ty(a.cls, n), f"{a.lazy[0]}.{n}", a.lazy[1])
                fb = b.fields[n] if n in b.fields else self.mk_abstract(self.schema.field_ty(b.cls, n), f"{b.lazy[0]}.{n}", b.lazy[1])
                fs[n] = self.v_ite(c, fa, fb)
            if a.lazy is not None and b.lazy is not None and a.lazy[0] == b.lazy[0] and all(
                    x.eq(y) for x, y in zip(a.lazy[1], b.lazy[1])):
                return HObj(a.cls, fs, a.lazy)
            # differing lazies: materialise every schema field
            for n in self.schema.fields(a.cls):
                if n not in fs:
                    fa = self.mk_abstract(self.schema.field_ty(a.cls, n), f"{a.lazy[0]}.{n}", a.lazy[1])
                    fb = self.mk_abstract(self.schema.field_ty(b.cls, n), f"{b.lazy[0]}.{n}", b.lazy[1])
                    fs[n] = self.v_ite(c, fa, fb)
            return HObj(a.cls, fs, None)
        if isinstance(a, VLazy) and isinstance(b, VLazy) and a.name == b.name and a.ty == b.ty:
            return VLazy(a.ty, a.name, [t_ite(c, x, y) for x, y in zip(a.binders, b.binders)])
        if isinstance(a, VRef) and isinstance(b, VRef) and a.root == b.root and a.path == b.path:
            return a
        da, db = to_dyn(a), to_dyn(b)
        if da is not None and db is not None and len(da.alts) == len(db.alts):
            return VDyn(t_ite(c, da.tag, db.tag), [(ty, self.v_ite(c, x, y)) for (ty, x), (_, y) in zip(da.alts, db.alts)], da.name or db.name)
        # shapes differ: cannot merge symbolically -> fork on the condition
        raise NeedSplit(c)

    # ------------------------------------------------------------------ scalar helpers

    def as_int(self, v):
        if isinstance(v, VInt):
            return v.t
        if isinstance(v, VBool):
            return z3.If(v.t, 1, 0)
        if isinstance(v, VReal):
            t = z3.simplify(v.t)
            if z3.is_rational_value(t) and t.denominator_as_long() == 1:
                return z3.IntVal(t.numerator_as_long())
        raise Unsupported(f"integer expected, got {v!r}")

    def const_eq(self, a, b):
        oa, ca = pyconst(a)
        ob, cb = pyconst(b)
        if oa and ob:
            return ca == cb
        if isinstance(a, (VInt, VStr, VReal, VBool)) and type(a) is type(b) and a.t.eq(b.t):
            return True
        if isinstance(a, (VTuple, VRec)) and isinstance(b, (VTuple, VRec)) and len(a.items) == len(b.items):
            return all(self.const_eq(x, y) for x, y in zip(a.items, b.items))
        if oa != ob:
            raise Unsupported("comparison of constant and symbolic key in concrete dict")
        raise Unsupported("undecidable key comparison in concrete dict")

    def dyn_alts(self, st, v):
        """Feasible alternatives of a dynamic value under the current path condition."""
        out = []
        for i, (ty, a) in enumerate(v.alts):
            g = v.tag == i
            if any(p.eq(g) for p in st.pc):
                return [(g, ty, a)]
        for i, (ty, a) in enumerate(v.alts):
            g = v.tag == i
            if self.implied(st, z3.simplify(z3.Not(g))):
                continue
            out.append((g, ty, a))
        return out

    def dyn_apply(self, st, v, fn):
        """Apply fn to every feasible alternative and merge the results."""
        for i, (ty, a) in enumerate(v.alts):
            g = v.tag == i
            if any(p.eq(g) for p in st.pc):
                return fn(a)
        res = []
        for i, (ty, a) in enumerate(v.alts):
            g = z3.simplify(v.tag == i)
            if z3.is_false(g):
                continue
            n = len(st.pc)
            st.pc.append(g)
            try:
                res.append((g, fn(a)))
            except NeedSplit:
                # never split below a temporary guard: split on the guard itself first
                del st.pc[n:]
                raise NeedSplit(g)
            except Unsupported:
                del st.pc[n:]
                if self.implied(st, z3.simplify(z3.Not(g))):
                    continue
                raise
            except Exception as e:
                if type(e).__name__ != "PathDone":
                    raise
                # this alternative raises a Python exception: fork so that it takes its own path
                del st.pc[n:]
                st.status, st.value = "run", None
                if self.implied(st, z3.simplify(z3.Not(g))):
                    continue
                raise NeedSplit(g)
            finally:
                del st.pc[n:]
        if not res:
            raise Unsupported("dynamic value without feasible alternative (infeasible path)")

        def merge(res):
            cur = res[-1][1]
            for g, r in reversed(res[:-1]):
                if isinstance(cur, z3.ExprRef) and isinstance(r, z3.ExprRef):
                    cur = t_ite(g, r, cur)
                else:
                    try:
                        cur = self.v_ite(g, r, cur)
                    except NeedSplit:
                        raise NeedSplit(z3.simplify(g))
            return cur
        try:
            return merge(res)
        except NeedSplit:
            # results of different shapes cannot be merged: before asking for a case split on a tag, drop the
            # alternatives the path condition excludes (splitting on an excluded tag would be asked for again
            # and again: the excluded alternative still produces a value)
            feas = [(g, r) for g, r in res if not self.implied(st, z3.simplify(z3.Not(g)))]
            if not feas:
                raise Unsupported("dynamic value without feasible alternative (infeasible path)")
            if len(feas) == len(res):
                raise
            return merge(feas)

    def narrow(self, st, v):
        """Reduce a dynamic value to one alternative when the path condition determines its tag."""
        if not isinstance(v, VDyn):
            return v
        for i, (ty, a) in enumerate(v.alts):
            g = v.tag == i
            if any(p.eq(g) for p in st.pc):
                return a
        for i, (ty, a) in enumerate(v.alts):
            if self.implied(st, v.tag == i):
                return a
        return v

    def truth(self, st, v):
        """z3 Bool: Python truthiness of a value."""
        if isinstance(v, VDyn):
            return self.dyn_apply(st, v, lambda a: self.truth(st, a))
        if isinstance(v, VBool):
            return v.t
        if isinstance(v, VInt):
            return v.t != 0
        if isinstance(v, (VReal, VLin)):
            return v.t != 0
        if isinstance(v, VStr):
            return z3.Length(v.t) > 0
        if isinstance(v, VNone):
            return z3.BoolVal(False)
        if isinstance(v, (VTuple,)):
            return z3.BoolVal(len(v.items) > 0)
        if isinstance(v, VRec):
            return z3.BoolVal(True)
        if isinstance(v, (VFunc, VClass, VModule, VOpaque, VExc)):
            return z3.BoolVal(True)
        if isinstance(v, VFam):
            if v.kind == "gen":
                return z3.BoolVal(True)
            return self.exists(v.binders, v.guard)
        if isinstance(v, VRef):
            h = self.resolve(st, v)
            if isinstance(h, HObj):
                return z3.BoolVal(True)
            if isinstance(h, HSeq):
                return z3.Length(h.t) > 0
            if isinstance(h, (HList, HPyDict, HPySet)):
                return z3.BoolVal(len(h.items) > 0)
            if isinstance(h, HListC):
                return h.length > 0
            if isinstance(h, HDict):
                return self.exists([h.binder], h.dom)
            if isinstance(h, HSet):
                return self.exists([h.binder], h.mem)
        raise Unsupported(f"truthiness of {v!r}")

    def exists(self, binders, body):
        body = z3.simplify(body)
        if z3.is_false(body) or z3.is_true(body) or not binders:
            return body
        return z3.Exists(list(binders), body)

    def forall(self, binders, body):
        body = z3.simplify(body)
        if z3.is_false(body) or z3.is_true(body) or not binders:
            return body
        return z3.ForAll(list(binders), body)

    def eq(self, st, a, b):
        """z3 Bool for Python a == b."""
        a, b = self.force(st, a), self.force(st, b)
        if isinstance(a, VDyn):
            return self.dyn_apply(st, a, lambda x: self.eq(st, x, b))
        if isinstance(b, VDyn):
            return self.dyn_apply(st, b, lambda x: self.eq(st, a, x))
        if isinstance(a, VNone) or isinstance(b, VNone):
            return z3.BoolVal(isinstance(a, VNone) and isinstance(b, VNone))
        num = (VInt, VReal, VBool, VLin)
        if isinstance(a, num) and isinstance(b, num):
            if isinstance(a, VBool) and isinstance(b, VBool):
                return a.t == b.t
            ta = self.as_int(a) if isinstance(a, VBool) else a.t
            tb = self.as_int(b) if isinstance(b, VBool) else b.t
            if ta.sort() != tb.sort():
                ta, tb = to_real(ta), to_real(tb)
            return ta == tb
        if isinstance(a, VStr) and isinstance(b, VStr):
            return a.t == b.t
        if isinstance(a, VOpaque) and isinstance(b, VOpaque):
            return a.t == b.t
        if isinstance(a, (VTuple, VRec)) and isinstance(b, (VTuple, VRec)):
            if len(a.items) != len(b.items):
                return z3.BoolVal(False)
            return t_and(*[self.eq(st, x, y) for x, y in zip(a.items, b.items)])
        if isinstance(a, VClass) and isinstance(b, VClass):
            return z3.BoolVal(a.name == b.name)
        if isinstance(a, VRef) and isinstance(b, VRef):
            ha, hb = self.resolve(st, a), self.resolve(st, b)
            return self.h_eq(st, ha, hb)
        if isinstance(a, VFam) or isinstance(b, VFam):
            return self.fam_eq(st, a, b)
        if isinstance(a, (VStr, VInt, VReal, VBool, VTuple, VRec)) and isinstance(b, (VStr, VInt, VReal, VBool, VTuple, VRec)):
            return z3.BoolVal(False)  # different Python types
        raise Unsupported(f"equality of {a!r} and {b!r}")

    def h_eq(self, st, ha, hb):
        if isinstance(ha, HSeq) and isinstance(hb, HSeq):
            return ha.t == hb.t
        if isinstance(ha, HList) and isinstance(hb, HList):
            if len(ha.items) != len(hb.items):
                return z3.BoolVal(False)
            return t_and(*[self.eq(st, x, y) for x, y in zip(ha.items, hb.items)])
        if isinstance(ha, HSeq) and isinstance(hb, HList):
            ha, hb = hb, ha
        if isinstance(ha, HList) and isinstance(hb, HSeq):
            if not ha.items:
                return z3.Length(hb.t) == 0
            return hb.t == z3.Concat(*[z3.Unit(self.lower(i, hb.elem_ty)) for i in ha.items]) if len(ha.items) > 1 else hb.t == z3.Unit(self.lower(ha.items[0], hb.elem_ty))
        if isinstance(ha, HDict) and isinstance(hb, HDict):
            bb = subst(hb, [(hb.binder, ha.binder)])
            return self.forall([ha.binder], t_and(ha.dom == bb.dom, z3.Implies(ha.dom, self.vh_eq(st, ha.val, bb.val))))
        if isinstance(ha, HSet) and isinstance(hb, HSet):
            bb = subst(hb, [(hb.binder, ha.binder)])
            return self.forall([ha.binder], ha.mem == bb.mem)
        if isinstance(ha, HPyDict) and isinstance(hb, HDict):
            ha, hb = hb, ha
        if isinstance(ha, HDict) and isinstance(hb, HPyDict):
            conj = []
            keys = []
            for k, v in hb.items:
                kt = self.lower(k, ha.kty)
                keys.append(kt)
                conj.append(subst(ha.dom, [(ha.binder, kt)]))
                conj.append(self.vh_eq(st, subst(ha.val, [(ha.binder, kt)]), v))
            conj.append(self.forall([ha.binder], z3.Implies(ha.dom, t_or(*[ha.binder == k for k in keys]))))
            return t_and(*conj)
        raise Unsupported(f"equality of {type(ha).__name__} and {type(hb).__name__}")

    def vh_eq(self, st, a, b):
        if isinstance(a, VRef):
            a = self.resolve(st, a)
        if isinstance(b, VRef):
            b = self.resolve(st, b)
        if isinstance(a, H) and isinstance(b, H):
            return self.h_eq(st, a, b)
        return self.eq(st, a, b)

    def fam_eq(self, st, a, b):
        """Equality of list-like values where at least one is a comprehension over a sequence."""
        def as_seqfam(x):
            if isinstance(x, VFam) and x.seqsrc is not None:
                return x
            return None
        fa, fb = as_seqfam(a), as_seqfam(b)
        if fa is not None and fb is not None:
            sa, ia = fa.seqsrc
            sb, ib = fb.seqsrc
            fb2 = subst(fb, [(ib, ia)])
            return t_and(sa == sb, self.forall([ia], z3.Implies(
                z3.And(0 <= ia, ia < z3.Length(sa)),
                t_and(fa.guard == fb2.guard, z3.Implies(fa.guard, self.eq(st, fa.elem, fb2.elem))))))
        # a sequence value against a comprehension over a sequence: the comprehension's value is a function of
        # (source sequence, guard as a function of the index, element as a function of the index); it is named by an
        # uninterpreted function of exactly these, so equal comprehensions denote equal sequences (congruence) and
        # nothing else is assumed about it
        for x, y in ((a, b), (b, a)):
            fx = as_seqfam(x)
            if fx is None or isinstance(y, VFam):
                continue
            hy = self.resolve(st, y) if isinstance(y, VRef) else y
            if isinstance(hy, HList) and not hy.items:
                continue
            if isinstance(hy, HSeq):
                sa, ia = fx.seqsrc
                et = self.lower(fx.elem, hy.elem_ty)
                f = self.ctx.ufunc(f"famseq<{et.sort()}>", sa.sort(), z3.ArraySort(z3.IntSort(), z3.BoolSort()),
                                   z3.ArraySort(z3.IntSort(), et.sort()), hy.t.sort())
                # ... except its length: the number of source indices that satisfy the guard (the same term `len(...)`
                # of the comprehension denotes)
                cnt = self.as_int(self.agg_len(st, fx))
                return z3.And(hy.t == f(sa, z3.Lambda([ia], fx.guard), z3.Lambda([ia], et)), z3.Length(hy.t) == cnt)
        raise Unsupported("equality of comprehension values with different shapes")
