"""Contracts: parsing sidecar files, applying a callee contract at a call site, spec builtins."""
import ast
import os
import z3

from . import front
from .ty import (TInt, TReal, TBool, TStr, TNone, TAny, TTuple, TRec, TList, TDict, TSet, TOpt,
                 TUnion, TObj, TFunc, TLin)
from .vals import *  # noqa
from .symex import t_and, t_or, t_not, t_ite, to_real, Frame, Contract, SPEC_BUILTINS
from .interp import NUM
from .calls import CallMixin, PathDone, is_log_call
from .comp import VRange


def load_contracts(paths):
    """Parse sidecar files. Returns (contracts, specfuncs, lemmas)."""
    contracts, specfuncs, lemmas = {}, {}, {}
    for p in paths:
        with open(p) as f:
            text = f.read()
        try:
            tree = ast.parse(text, filename=p)
        except SyntaxError as e:
            import sys
            print(f"NOTE: contract file {p} does not parse ({e}); skipped", file=sys.stderr)
            continue
        for node in tree.body:
            if isinstance(node, ast.Assign) and len(node.targets) == 1 and isinstance(node.targets[0], ast.Name):
                try:
                    specfuncs[node.targets[0].id] = ("const", ast.literal_eval(node.value))
                except Exception:
                    pass
            if not isinstance(node, ast.FunctionDef):
                continue
            tag = None
            for d in node.decorator_list:
                if isinstance(d, ast.Call) and isinstance(d.func, ast.Name) and d.func.id in ("contract", "lemma"):
                    tag = (d.func.id, ast.literal_eval(d.args[0]))
            if tag is None:
                specfuncs[node.name] = node
            elif tag[0] == "contract":
                contracts[tag[1]] = Contract(tag[1], node, text, p)
            else:
                lemmas[tag[1]] = Contract(tag[1], node, text, p)
    return contracts, specfuncs, lemmas


class _Share:
    def __init__(self, v):
        self.v = v


class Deferred:
    def __init__(self, kind, node, env, label=None, extra=None):
        self.kind, self.node, self.env, self.label, self.extra = kind, node, env, label, extra


class ContractMixin(CallMixin):

    # ------------------------------------------------------------------ running a contract body

    def run_contract_pre(self, st, contract, env, mode):
        """Execute the contract body in a spec frame. mode: 'assume' (verifying the function itself:
        requires are assumed) or 'check' (call site: requires become obligations).
        Deferred clauses are collected in st.ghost['__deferred__']."""
        f = Frame(None, dict(env), None, spec=True)
        f.contract = contract
        f.mode = mode
        st.frames.append(f)
        st.ghost["__deferred__"] = []
        try:
            states = self.exec_block(contract.node.body, [st])
        finally:
            pass
        return states, f

    def call_spec_builtin(self, st, name, args, kw, node):
        fr = st.frame
        # find the spec frame carrying contract mode
        sf = fr
        while sf is not None and not hasattr(sf, "mode"):
            sf = sf.parent
        if name == "requires":
            for i, a in enumerate(node.args):
                c = self.cond(st, a)
                if sf is not None and sf.mode == "check":
                    # call site: the precondition is an obligation; it is not added to the path condition
                    # (it would end up inside comprehension / loop guards)
                    self.ctx.obls.append(self.mk_obl(st, f"pre@{sf.contract.qualname}", c, "pre", sf.callsite))
                    continue
                st.pc.append(c)
                if z3.is_false(z3.simplify(c)):
                    st.status = "dead"
                    raise PathDone()
            return VNone()
        if name in ("ensures", "raises", "modifies", "returns", "invariant", "may_raise", "reads", "foreach",
                    "bounded", "decreases", "shares", "must_raise", "not_called"):
            label = None
            if "label" in kw:
                label = pyconst(kw["label"])[1]
            st.ghost["__deferred__"] = list(st.ghost.get("__deferred__", [])) + [
                Deferred(name, node, self.snapshot_env(st), label)]
            return VNone()
        if name == "types" or name == "pure" or name == "assume_contract":
            return VNone()
        if name == "all_yields":
            return self.all_yields(st, node)
        if name == "cut_after":
            st.ghost["__cuts__"] = tuple(st.ghost.get("__cuts__", ())) + tuple(ast.literal_eval(a) for a in node.args)
            return VNone()
        if name == "implies":
            a = self.cond(st, node.args[0])
            if z3.is_false(z3.simplify(a)):
                return VBool(True)
            b = self.guarded(st, a, lambda: self.cond(st, node.args[1]), dead=z3.BoolVal(True))
            return VBool(z3.Implies(a, b))
        if name == "iff":
            return VBool(self.cond(st, node.args[0]) == self.cond(st, node.args[1]))
        if name == "ite":
            c = self.cond(st, node.args[0])
            a = self.guarded(st, c, lambda: self.force(st, self.ev(node.args[1], st)))
            b = self.guarded(st, t_not(c), lambda: self.force(st, self.ev(node.args[2], st)))
            return self.v_ite(c, a, b)
        if name in ("forall", "exists"):
            return self.quantifier(st, name, node)
        if name == "old":
            return self.eval_old(st, node.args[0])
        if name == "is_none":
            return VBool(isinstance(self.force(st, args[0]), VNone))
        if name == "typed":
            ok, tn = pyconst(args[1])
            v = self.force(st, args[0])
            if isinstance(v, VDyn):
                canon = {0: "NoneType", 1: "bool", 2: "int", 3: "float", 4: "str"}
                return VBool(t_or(*[v.tag == i for i, (ty, a) in enumerate(v.alts)
                                    if (canon[i] if i in canon else self.pytype_name(st, a)) == tn]))
            return VBool(self.pytype_name(st, v) == tn)
        if name == "call_arg":
            # call_arg("qualname", i): the i-th positional argument of the (single) call of an external function on this path
            ok, q = pyconst(args[0])
            ok2, i = pyconst(args[1])
            hits = [ev for ev in st.events if ev[0] == "call" and ev[1] == q]
            if len(hits) != 1:
                raise Unsupported(f"call_arg({q!r}): {len(hits)} calls on this path")
            return hits[0][2][i]
        if name == "call_result":
            # the value an external (opaque) call returned on this path: lets a postcondition talk about
            # "what the callee handed back" without assuming anything about it
            ok, q = pyconst(args[0])
            hits = [ev for ev in st.events if ev[0] == "call" and ev[1] == q and len(ev) > 3 and isinstance(ev[3], V)]
            if len(hits) != 1:
                raise Unsupported(f"call_result({q!r}): {len(hits)} calls on this path")
            return hits[0][3]
        if name == "sameobj":
            a, b = args
            if not (isinstance(a, VRef) and isinstance(b, VRef)):
                return VBool(False)
            ca, cb = self.canon(st, a), self.canon(st, b)
            if ca.root == cb.root and (ca.path == cb.path or self.same_path(ca.path, cb.path)):
                return VBool(True)
            if ca.root == cb.root and len(ca.path) == len(cb.path) and all(
                    k1 == k2 and (k1 != "f" or x1 == x2) for (k1, x1), (k2, x2) in zip(ca.path, cb.path)):
                # two cells of the same container(s): in the tree-shaped heap model a cell holds its own object,
                # so the objects are the same iff all keys / indices along the path are equal
                eqs = []
                for (k1, x1), (k2, x2) in zip(ca.path, cb.path):
                    if k1 != "f":
                        eqs.append(self.eq(st, x1, x2))
                return VBool(t_and(*eqs))
            if ca.root.startswith("p:") and cb.root.startswith("p:"):
                # two different access paths into the entry state: the heap model keeps them apart but cannot exclude
                # that the caller passes the same object twice - neither answer may be assumed
                raise Unsupported("sameobj() between two objects of the entry state reached by different access paths "
                                  "(aliasing between parameters is not modelled)")
            return VBool(False)  # an object allocated after entry is distinct from everything that existed before
        if name == "opaque":
            # opaque("name", "type", args...) : uninterpreted spec function
            ok, fname = pyconst(args[0])
            ok, tn = pyconst(args[1])
            ty = self.schema.parse(tn)
            def build(vals):
                ts = []
                for i, a in enumerate(vals):
                    a = self.force(st, a)
                    if isinstance(a, VDyn):
                        return self.dyn_apply(st, a, lambda x: build(vals[:i] + [x] + vals[i + 1:]))
                    ts.append(self.lower(a, self.type_of(a)))
                f = self.ctx.ufunc(fname, *[t.sort() for t in ts], ty.sort())
                return self.lift(f(*ts) if ts else z3.Const(fname, ty.sort()), ty)
            return build(list(args[2:]))
        if name == "count":
            return self.agg_len(st, args[0])
        if name == "fresh":
            ok, tn = pyconst(args[0])
            return self.fresh_of(st, self.schema.parse(tn), "ghost")
        raise Unsupported(f"spec builtin {name}")

    def all_yields(self, st, node):
        """all_yields(lambda y: P): P holds for every value the generator yields. When verifying the
        generator itself it ranges over the recorded yields; at a call site over the result list."""
        lam = node.args[0]
        pname = lam.args.args[0].arg

        def holds(v):
            f = Frame(None, {pname: v}, st.frame, True)
            st.frames.append(f)
            try:
                return self.cond(st, lam.body)
            finally:
                st.frames.pop()

        def over_list(lst):
            s0 = self.source(st, lst)
            if s0.concrete:
                return t_and(*[holds(x) for x in s0.items])
            self.push_binders(st, s0.binders)
            ns_saved = st.ghost.get("__nosplit__", ())
            self.mark_nosplit(st, s0.binders)
            n = len(st.pc)
            st.pc.append(s0.guard)
            try:
                body = holds(s0.elem)
            finally:
                del st.pc[n:]
                self.pop_binders(st, len(s0.binders))
                st.ghost["__nosplit__"] = ns_saved
            return self.forall(s0.binders, z3.Implies(s0.guard, body))
        res = st.frame.lookup("result")
        if res is not None and not isinstance(res, VNone) and getattr(st.frames[0], "mode", None) != "post" and not any(
                getattr(f, "mode", None) == "post" for f in st.frames):
            return VBool(over_list(res))
        conj = []
        for kind, v in st.ghost.get("__yields__", ()):
            conj.append(holds(v) if kind == "one" else over_list(v))
        return VBool(t_and(*conj))

    def mk_obl(self, st, name, goal, kind, where=""):
        from .symex import Obligation
        return Obligation(name, kind, st.hyps(), z3.simplify(goal), where)

    def snapshot_env(self, st):
        env = {}
        f = st.frame
        chain = []
        while f is not None:
            chain.append(f)
            f = f.parent
        for f in reversed(chain):
            env.update(f.env)
        return env

    def quantifier(self, st, name, node):
        lam = node.args[0]
        if not isinstance(lam, ast.Lambda):
            raise Unsupported("forall/exists expects a lambda with typed defaults")
        names = [a.arg for a in lam.args.args]
        tys = [self.schema.parse(ast.unparse(d)) for d in lam.args.defaults]
        if len(tys) != len(names):
            raise Unsupported("quantifier binder without type")
        binders, vals = [], []
        for n, ty in zip(names, tys):
            b = self.fresh_binder(st, n, ty)
            binders.append(b)
            vals.append(self.lift(b, ty))
        f = Frame(None, dict(zip(names, vals)), st.frame, True)
        st.frames.append(f)
        self.push_binders(st, binders)
        ns_saved = st.ghost.get("__nosplit__", ())
        self.mark_nosplit(st, binders)
        try:
            body = self.cond(st, lam.body)
        finally:
            self.pop_binders(st, len(binders))
            st.ghost["__nosplit__"] = ns_saved
            st.frames.pop()
        return VBool(self.forall(binders, body) if name == "forall" else self.exists(binders, body))

    def fresh_binder(self, st, n, ty):
        st.nfresh += 1
        return z3.Const(f"{n}!s{st.nfresh}", self.key_sort(ty))

    def mark_nosplit(self, st, binders):
        st.ghost["__nosplit__"] = tuple(st.ghost.get("__nosplit__", ())) + tuple(b.get_id() for b in binders)

    def eval_old(self, st, node):
        if st.old_heap is None:
            return self.ev(node, st)
        cur = st.heap
        st.heap = dict(st.old_heap)
        # roots allocated after entry stay visible
        for r, h in cur.items():
            if r not in st.heap:
                st.heap[r] = h
        try:
            v = self.ev(node, st)
            if isinstance(v, VRef):
                # freeze: copy descriptor into a ghost root so later reads see the old value
                h = self.resolve(st, v)
                r = self.ctx.new_root()
                cur[r] = h
                v = VRef(r)
            return v
        finally:
            st.heap = cur

    # ------------------------------------------------------------------ calling by qualified name

    def call_qual(self, st, qualname, args, kw, node):
        pol = self.ctx.config.get("calls", {})
        vc = self.ctx.contracts.get(st.ghost.get("__verifying__"))
        if vc is not None and isinstance(vc.flags.get("external"), dict) and qualname in vc.flags["external"]:
            # the contract under verification declares this callee external explicitly: the callee's own contract
            # (e.g. an LP-model contract that is not written for call sites) is not applied; the call is opaque
            # and recorded in the assumed list like any other external call
            return self.call_external(st, qualname, args, kw, node)
        if qualname in self.ctx.contracts and qualname not in self.ctx.config.get("inline", ()):
            return self.apply_contract(st, self.ctx.contracts[qualname], args, kw, node)
        fi = front.find_function(qualname)
        if fi is not None and (qualname in self.ctx.config.get("inline", ()) or self.ctx.config.get("inline_all")):
            return self.inline(st, fi.node, None, args, kw, node, finfo=fi, name=qualname)
        return self.call_external(st, qualname, args, kw, node)

    def call_external(self, st, qualname, args, kw, node):
        ext = self.ctx.config.get("external", {})
        for pat, spec in ext.items():
            if qualname == pat or (pat.endswith("*") and qualname.startswith(pat[:-1])):
                if qualname not in self.ctx.assumed:
                    self.ctx.assumed.append(qualname)
                ty = self.schema.parse(spec) if spec else TNone()
                if isinstance(ty, TNone):
                    st.events.append(("call", qualname, tuple(args), None))
                    return VNone()
                r = self.fresh_of(st, ty, "ext_" + qualname.replace(".", "_").replace("<", "").replace(">", ""))
                st.events.append(("call", qualname, tuple(args), r))
                return r
        raise Unsupported(f"call of {qualname} (no contract, not inlined, not declared external) at {self.where(node, st)}")

    def call_classattr(self, st, cls, name, args, kw, node):
        return self.call_external(st, f"{cls}.{name}", args, kw, node)

    def call_abstract(self, st, fn, args, kw, node):
        """Callable parameter: pure uninterpreted function of (encodable) arguments."""
        ts = []
        for a in args:
            a = self.force(st, a)
            if isinstance(a, VRef):
                continue  # object arguments: the function may depend on them; treated as fixed context
            ts.append(self.lower(a, self.type_of(a)))
        ty = fn.ty.ret
        bs = tuple(fn.binders) + tuple(ts)
        v = self.mk_abstract(ty, fn.name + "!ret", bs)
        if isinstance(v, H):
            return self.alloc(st, v)
        return v

    def bind_params(self, st, fnode, args, kw, env_frame_for_defaults):
        a = fnode.args
        names = [x.arg for x in a.posonlyargs + a.args]
        env = {}
        args = list(args)
        if len(args) > len(names) and a.vararg is None:
            raise Unsupported("too many positional arguments")
        for n, v in zip(names, args):
            env[n] = v
        if a.vararg is not None:
            env[a.vararg.arg] = VTuple(args[len(names):])
        defaults = list(a.defaults)
        dnames = names[len(names) - len(defaults):] if defaults else []
        kw = dict(kw)
        for n in names[len(args):]:
            if n in kw:
                env[n] = kw.pop(n)
            elif n in dnames:
                env[n] = self.ev(defaults[dnames.index(n)], st)
            else:
                raise Unsupported(f"missing argument {n}")
        for ko, d in zip(a.kwonlyargs, a.kw_defaults):
            if ko.arg in kw:
                env[ko.arg] = kw.pop(ko.arg)
            elif d is not None:
                env[ko.arg] = self.ev(d, st)
            else:
                raise Unsupported(f"missing keyword-only argument {ko.arg}")
        if a.kwarg is not None:
            env[a.kwarg.arg] = self.alloc(st, HPyDict([(VStr(k), v) for k, v in kw.items() if k != "**"]))
            if "**" in kw:
                env[a.kwarg.arg] = kw["**"]
        elif kw:
            raise Unsupported(f"unexpected keyword arguments {list(kw)}")
        return env

    def inline(self, st, fnode, closure, args, kw, node, finfo=None, spec=False, name="?"):
        if st.depth > 12:
            raise Unsupported(f"inline depth exceeded at {name}")
        env = self.bind_params(st, fnode, args, kw, st.frame)
        f = Frame(finfo, env, closure, spec or (st.frame.spec and closure is st.frame))
        if spec:
            f.spec = True
        if isinstance(fnode, ast.Lambda):
            st.frames.append(f)
            try:
                return self.ev(fnode.body, st)
            finally:
                st.frames.pop()
        st.frames.append(f)
        st.depth += 1
        multi = st.ghost.get("__multi__", True)
        st.ghost["__multi__"] = False
        try:
            out = self.exec_block(fnode.body, [st])
        finally:
            st.ghost["__multi__"] = multi
            st.depth -= 1
            st.frames.pop()
        assert len(out) == 1 and out[0] is st
        if st.status == "return":
            v = st.value
            st.status, st.value = "run", None
            return v
        if st.status == "raise":
            raise PathDone()
        st.status = "run"
        return VNone()

    def apply_contract(self, st, contract, args, kw, node):
        """Modular call: check requires, havoc modifies, assume ensures."""
        rfi = front.find_function(contract.qualname)
        env = self.bind_params(st, rfi.node if rfi is not None else contract.node, args, kw, st.frame)
        f = Frame(None, env, None, spec=True)
        f.contract, f.mode, f.callsite = contract, "check", self.where(node, st)
        saved_def = st.ghost.get("__deferred__")
        st.ghost["__deferred__"] = []
        st.frames.append(f)
        multi = st.ghost.get("__multi__", True)
        st.ghost["__multi__"] = False
        pre_heap = dict(st.heap)
        try:
            self.exec_block(contract.node.body, [st])
            deferred = st.ghost["__deferred__"]
            result = None
            # havoc
            for d in deferred:
                if d.kind == "modifies":
                    self.with_env(st, d.env, lambda d=d: [self.havoc(st, self.ev(a, st), a) for a in d.node.args])
            old_save = st.old_heap
            st.old_heap = pre_heap
            try:
                rty = None
                for d in deferred:
                    if d.kind == "returns":
                        rty = self.schema.parse(ast.literal_eval(d.node.args[0]))
                # raises clauses fork
                for d in deferred:
                    if d.kind == "raises":
                        exc = d.node.args[0].id
                        when = None
                        for k2 in d.node.keywords:
                            if k2.arg == "when":
                                when = k2.value
                        c = self.with_env(st, d.env, lambda: self.cond(st, when)) if when is not None else None
                        if c is None:
                            raise Unsupported("raises without when= at a call site")
                        if self.decide(st, c):
                            st.events.append(("call", contract.qualname, tuple(args), "raised"))
                            self.do_raise(st, VExc(exc, ()))
                            raise PathDone()
                for d in deferred:
                    if d.kind == "may_raise":
                        exc = d.node.args[0].id
                        flag = self.fresh(st, "raises_" + exc, z3.BoolSort())
                        if self.decide(st, flag):
                            st.events.append(("call", contract.qualname, tuple(args), "raised"))
                            self.do_raise(st, VExc(exc, ()))
                            raise PathDone()
                for d in deferred:
                    if d.kind != "ensures":
                        continue
                    for a in d.node.args:
                        if result is None and isinstance(a, ast.Compare) and len(a.ops) == 1 and isinstance(a.ops[0], ast.Eq) \
                                and isinstance(a.left, ast.Name) and a.left.id == "result":
                            result = self.with_env(st, d.env, lambda a=a: self.ev(a.comparators[0], st))
                            if isinstance(result, VFam):
                                pass
                            continue
                        if result is None and self.mentions_result(a):
                            if rty is None:
                                raise Unsupported(f"contract of {contract.qualname} needs returns(...)")
                            result = self.result_value(st, contract, rty, args, kw)
                        envr = dict(d.env)
                        if result is not None:
                            envr["result"] = result
                        c = self.with_env(st, envr, lambda a=a: self.cond(st, a))
                        st.pc.append(c)
                        if st.rec and self.cur_binders(st):
                            # inside a summarised loop the callee's postcondition is a fact about THIS iteration's result
                            # (a function of the loop binders); the path condition of the iteration is dropped when the
                            # loop is summarised, so the fact is kept as a closed axiom: for all binders, under the
                            # iteration's local path condition
                            g0 = t_and(*st.pc[st.ghost.get("__binder_pc__", len(st.pc)):-1])
                            ax = z3.ForAll(list(self.cur_binders(st)), z3.Implies(g0, c))
                            st.axioms.append(ax)
                            st.ghost["__loop_axioms__"] = tuple(st.ghost.get("__loop_axioms__", ())) + (ax,)
                if result is None:
                    if rty is not None and not isinstance(rty, TNone):
                        result = self.result_value(st, contract, rty, args, kw)
                    else:
                        result = VNone()
                for d in deferred:
                    if d.kind == "shares":
                        envr = dict(d.env)
                        envr["result"] = result
                        def do_share(d=d):
                            dst = self.ev(d.node.args[0], st)
                            srcv = self.ev(d.node.args[1], st)
                            hs = self.resolve(st, srcv)
                            for fa in d.node.args[2:]:
                                fname = ast.literal_eval(fa)
                                fv = self.field_value(st, hs, fname)
                                hd = self.resolve(st, dst)
                                st.heap[dst.root] = self.upd(st, st.heap[dst.root], list(dst.path) + [("f", fname)], _Share(fv))
                        self.with_env(st, envr, do_share)
            finally:
                st.old_heap = old_save
            if contract.flags.get("assumed"):
                if contract.qualname not in self.ctx.assumed:
                    self.ctx.assumed.append(contract.qualname)
            st.events.append(("call", contract.qualname, tuple(args), None))
            cuts = st.ghost.get("__cuts__", ())
            if contract.qualname in cuts and len(st.frames) >= 2 and st.frames[-2].finfo is not None \
                    and st.frames[-2].finfo.qualname == st.ghost.get("__verifying__"):
                st.ghost["__cut_pending__"] = True
            return result
        finally:
            st.ghost["__multi__"] = multi
            st.frames.pop()
            st.ghost["__deferred__"] = saved_def

    def result_value(self, st, contract, rty, args, kw):
        """Fresh result of a contract call. For contracts marked pure=True the result is a function of
        the arguments and of the heap version, so repeated calls in one state agree."""
        base = "res_" + contract.qualname.split(".")[-1]
        if not contract.flags.get("pure"):
            return self.fresh_of(st, rty, base)
        terms, tag = [], []
        for a in list(args) + [kw[k] for k in sorted(kw)]:
            a = self.force(st, a)
            if isinstance(a, VRef):
                c = self.canon(st, a)
                tag.append(f"{c.root}{''.join(str(x) for _, x in c.path if isinstance(x, str))}")
                for _, x in c.path:
                    if isinstance(x, V):
                        try:
                            terms.append(self.lower(x, self.type_of(x)))
                        except Unsupported:
                            return self.fresh_of(st, rty, base)
                continue
            try:
                for t in self.flat_scalar_terms(st, a):
                    terms.append(t)
            except Unsupported:
                return self.fresh_of(st, rty, base)
        name = f"pure:{contract.qualname}@{st.ghost.get('__epoch__', 0)}[{'|'.join(tag)}]"
        v = self.mk_abstract(rty, name, tuple(terms))
        return self.heapify(st, v)

    def flat_scalar_terms(self, st, v):
        if isinstance(v, VNone):
            return []
        if isinstance(v, (VTuple, VRec)):
            out = []
            for i in v.items:
                out += self.flat_scalar_terms(st, self.force(st, i))
            return out
        if isinstance(v, (VInt, VReal, VBool, VStr, VOpaque)):
            return [v.t]
        raise Unsupported("non-scalar argument")

    def mentions_result(self, node):
        return any(isinstance(n, ast.Name) and n.id in ("result", "all_yields") for n in ast.walk(node))

    def with_env(self, st, env, fn):
        f = Frame(None, dict(env), None, True)
        top = st.frames[-1]
        for attr in ("contract", "mode", "callsite"):
            if hasattr(top, attr):
                setattr(f, attr, getattr(top, attr))
        f.finfo = None
        st.frames.append(f)
        try:
            return fn()
        finally:
            st.frames.pop()

    def havoc(self, st, v, node=None):
        if not isinstance(v, VRef):
            raise Unsupported("modifies() of a non-reference")
        ref = self.canon(st, v)
        ty = self.ref_type(st, ref)
        if ty is None:
            raise Unsupported(f"cannot determine type for havoc of {ref!r}")
        st.nfresh += 1
        n = f"s{st.nfresh}"
        new = self.mk_abstract(ty, f"havoc!{n}", tuple(self.cur_binders(st)))
        if not ref.path:
            st.heap[ref.root] = new
        else:
            if isinstance(new, V):
                self.write(st, ref, new)
            else:
                self.write_raw(st, ref, new)

    def ref_type(self, st, ref):
        """Static type of the location a canonical reference denotes (via the schema)."""
        cur = st.heap[ref.root]
        ty = st.ghost.get(("rootty", ref.root))
        for kind, x in ref.path:
            if kind == "f":
                if not isinstance(cur, HObj):
                    return None
                ty = self.schema.field_ty(cur.cls, x)
                cur = self.step(st, cur, kind, x)
            else:
                if isinstance(ty, TDict):
                    ty = ty.v
                elif isinstance(ty, TList):
                    ty = ty.elem
                else:
                    return None
                cur = self.step(st, cur, kind, x)
            if isinstance(ty, TOpt):
                ty = ty.inner
        return ty
