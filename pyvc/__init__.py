"""pyvc -- verification-condition generator for the Python subset used by aldy.

The real source under $VERIF_REPO (default /repo) is re-parsed on every run; contracts live in
/verif/contracts as sidecar files.  See /verif/DESIGN.md section 2.
"""
