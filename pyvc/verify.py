"""Verify one function against its sidecar contract: generate and discharge obligations."""
import ast
import os
import subprocess
import tempfile
import time
import traceback
import z3

from . import front
from .ty import Schema, TObj, TNone
from .vals import *  # noqa
from .symex import Ctx, State, Frame, Obligation, t_and, t_not
from .stmts import StmtMixin
from .contract import load_contracts
from .calls import PathDone


class Engine(StmtMixin):
    pass


try:
    from .loops import LoopMixin

    class Engine(LoopMixin):  # noqa: F811
        pass
except ImportError:
    pass

try:
    from .lp import LPMixin

    try:
        from .loops import LoopMixin as _LoopMixin

        class Engine(LPMixin, _LoopMixin):  # noqa: F811  (LP layer + rule I; both derive from StmtMixin)
            pass
    except ImportError:
        class Engine(LPMixin):  # noqa: F811
            pass
except ImportError:
    pass


def contract_types(contract):
    """types(x='...') declarations inside a contract body (static scan)."""
    out = {}
    ret = None
    for n in ast.walk(contract.node):
        if isinstance(n, ast.Call) and isinstance(n.func, ast.Name):
            if n.func.id == "types":
                for k in n.keywords:
                    out[k.arg] = ast.literal_eval(k.value)
            if n.func.id == "returns":
                ret = ast.literal_eval(n.args[0])
    return out, ret


class Result:
    def __init__(self, qualname):
        self.qualname = qualname
        self.obligations = []  # dicts
        self.status = "ok"  # ok | unsupported | crash
        self.message = ""
        self.sha = ""
        self.paths = 0
        self.loops = []
        self.assumed = []
        self.notes = []
        self.time_s = 0.0
        self.lineno = 0
        self.file = ""


def verify_function(qualname, schema, contracts, specfuncs, config=None, only=None):
    t0 = time.time()
    res = Result(qualname)
    config = dict(config or {})
    contract = contracts[qualname]
    config.update(contract.flags.get("config", {}))
    for k in ("inline", "external"):
        if k in contract.flags:
            if isinstance(contract.flags[k], dict):
                d = dict(config.get(k, {}))
                d.update(contract.flags[k])
                config[k] = d
            else:
                config[k] = list(config.get(k, [])) + list(contract.flags[k])
    ctx = Ctx(schema, contracts, specfuncs, config)
    ex = Engine(ctx)
    fi = front.find_function(qualname)
    if fi is None:
        res.status, res.message = "unsupported", f"function {qualname} not found in the repository"
        return res
    res.sha, res.lineno, res.file = fi.sha, fi.lineno, fi.module.path
    try:
        _verify(ex, ctx, fi, contract, res)
    except Unsupported as e:
        res.status, res.message = "unsupported", str(e)
    except NeedSplit as e:
        res.status, res.message = "unsupported", f"unhandled case split on {e.cond}"
    except Exception as e:  # engine bug
        res.status, res.message = "crash", f"{type(e).__name__}: {e}\n{traceback.format_exc()}"
    res.paths = ctx.paths
    res.loops = ctx.loops
    res.assumed = ctx.assumed
    res.notes = ctx.notes
    res.time_s = time.time() - t0
    return res


def make_param(ex, st, name, ty):
    v = ex.mk_abstract(ty, name, ())
    if isinstance(v, H):
        r = "p:" + name
        st.heap[r] = v
        st.ghost[("rootty", r)] = ty
        return VRef(r)
    return v


def _verify(ex, ctx, fi, contract, res):
    schema = ctx.schema
    tys, rty = contract_types(contract)
    fnode = fi.node
    pnames = [a.arg for a in fnode.args.posonlyargs + fnode.args.args + fnode.args.kwonlyargs]
    if fnode.args.vararg:
        pnames.append(fnode.args.vararg.arg)
    if fnode.args.kwarg:
        pnames.append(fnode.args.kwarg.arg)
    cnames = [a.arg for a in contract.node.args.args]
    st = State()
    st.frames = []
    env = {}
    ann = {a.arg: a.annotation for a in fnode.args.posonlyargs + fnode.args.args + fnode.args.kwonlyargs}
    for n in cnames:
        if tys.get(n) == "Debug":
            # the process-wide debug store (aldy.common.json and what is read out of it): writes are dropped
            from .interp import VDebug
            env[n] = VDebug()
            continue
        if n in tys:
            ty = schema.parse(tys[n])
        elif n == "self" and fi.cls is not None:
            cn = schema.cls_of_qualname(f"{fi.module.name}.{fi.cls.name}")
            if cn is None:
                raise Unsupported(f"class {fi.cls.name} not in schema")
            ty = TObj(cn)
        elif ann.get(n) is not None:
            ty = schema.parse(ast.unparse(ann[n]))
        else:
            raise Unsupported(f"no type for parameter {n}")
        env[n] = make_param(ex, st, n, ty)
    extra = {n: env[n] for n in cnames if n not in pnames}
    # contract body, assuming requires
    root = Frame(fi.outer if fi.outer is not None else fi, dict(env), None, spec=True)
    root.contract, root.mode = contract, "assume"
    st.frames = [root]
    st.ghost["__deferred__"] = []
    st.ghost["__multi__"] = True
    st.ghost["__verifying__"] = fi.qualname
    pre_states = ex.exec_block(contract.node.body, [st])
    obls = []
    n_exit = 0
    sat_pre = False
    for ps in pre_states:
        if ps.status != "run":
            continue
        # vacuity: requires must be satisfiable
        s = z3.Solver()
        s.set("timeout", 5000)
        for p in ps.hyps():
            s.add(p)
        r = s.check()
        if r == z3.unsat:
            continue
        sat_pre = True
        deferred = list(ps.ghost.get("__deferred__", []))
        ghost_env = dict(ps.frames[0].env)
        inv = {}
        for d in deferred:
            if d.kind == "invariant":
                k = None
                for kw in d.node.keywords:
                    if kw.arg == "loop":
                        k = ast.literal_eval(kw.value)
                inv.setdefault(k, []).append(d)
        ps.ghost["__invariants__"] = inv
        ps.old_heap = dict(ps.heap)
        closure = Frame(fi.outer, dict(extra), None, spec=False) if extra or fi.outer is not None else None
        fenv = {n: env[n] for n in pnames if n in env}
        # defaults for parameters the contract does not mention
        for n in pnames:
            if n not in fenv:
                raise Unsupported(f"contract of {fi.qualname} does not bind parameter {n}")
        ps.frames = [Frame(fi, fenv, closure, spec=False)]
        ps.ghost["__deferred__"] = []
        nob = len(ctx.obls)
        ends = ex.exec_block(fnode.body, [ps])
        live = 0
        for e in ends:
            n_exit += 1
            _exit_obligations(ex, ctx, fi, contract, e, deferred, ghost_env, rty, n_exit)
            if live == 0:
                s2 = z3.Solver()
                s2.set("timeout", 5000)
                for p in e.hyps():
                    s2.add(p)
                if s2.check() != z3.unsat:
                    live += 1
        if ends and live == 0:
            # every exit has a contradictory path condition (e.g. an assumed callee postcondition that is false at
            # the call site): all obligations of this function would be vacuously true
            ctx.obls.append(Obligation("vacuity/some-exit-reachable", "vacuity", [], z3.BoolVal(False), fi.module.path))
    if not sat_pre:
        ctx.obls.append(Obligation("vacuity/requires-satisfiable", "vacuity", [], z3.BoolVal(False), fi.module.path))
    res.raw = ctx.obls
    res.n_exits = n_exit


def _exit_obligations(ex, ctx, fi, contract, e, deferred, ghost_env, rty, n_exit):
    where = f"{fi.module.path}:{fi.lineno}"
    if e.status in ("break", "continue"):
        raise Unsupported("break/continue escaped a loop")
    raised = e.status == "raise"
    is_cut = e.status == "cut"
    exc_value = e.value if raised else None
    result = e.value if e.status == "return" else VNone()
    declared = set()
    for d in deferred:
        if d.kind in ("raises", "may_raise", "must_raise"):
            declared.add(d.node.args[0].id)
    if raised and exc_value.cls not in declared:
        ctx.obls.append(Obligation(f"no-unexpected-exception/{exc_value.cls}", "safety", e.hyps(), z3.BoolVal(False), where))
    # evaluate post-state clauses in a spec frame
    for idx, d in enumerate(deferred):
        env = dict(d.env)
        env["result"] = result
        f = Frame(None, env, None, spec=True)
        f.contract, f.mode = contract, "post"
        e.frames = [f]
        e.status = "run"
        e.ghost["__multi__"] = False
        label = d.label or str(idx)
        if is_cut and d.kind in ("ensures", "raises", "shares"):
            continue  # verification stops at the cut: only the emitted model and the frame are checked
        if d.kind == "ensures" and not raised:
            for j, a in enumerate(d.node.args):
                for pc2, g2 in _cond_split(ex, e, a):
                    ctx.obls.append(Obligation(f"post/{label}" + (f".{j}" if len(d.node.args) > 1 else ""), "post", pc2, g2, where,
                                               {"text": ast.unparse(a)}))
        if d.kind == "shares" and not raised:
            dst = ex.ev(d.node.args[0], e)
            srcv = ex.ev(d.node.args[1], e)
            hd, hs = ex.resolve(e, dst), ex.resolve(e, srcv)
            for fa in d.node.args[2:]:
                fname = ast.literal_eval(fa)
                ctx.obls.append(Obligation(f"post/shares/{fname}", "post", e.hyps(), _same_field(ex, e, hd, hs, fname), where,
                                           {"text": f"result.{fname} is self.{fname}"}))
        if d.kind in ("must_raise", "not_called"):
            # must_raise(E, when=c): under c (entry state) the function does not return normally;
            # not_called("qualname", when=c): under c no call of that function happens on any path
            when = None
            for kw in d.node.keywords:
                if kw.arg == "when":
                    when = kw.value
            if when is None:
                raise Unsupported(f"{d.kind} needs when=")
            hit = (not raised) if d.kind == "must_raise" else any(ev[0] == "call" and ev[1] == ast.literal_eval(d.node.args[0]) for ev in e.events)
            if hit:
                old_heap = e.heap
                e.heap = dict(e.old_heap)
                for r, h in old_heap.items():
                    if r not in e.heap:
                        e.heap[r] = h
                try:
                    for pc2, c in _cond_split(ex, e, when):
                        ctx.obls.append(Obligation(f"{d.kind.replace('_', '-')}/{label}", "post", pc2, z3.simplify(z3.Not(c)), where, {"text": ast.unparse(when)}))
                finally:
                    e.heap = old_heap
            continue
        if d.kind == "raises":
            exc = d.node.args[0].id
            when = None
            for kw in d.node.keywords:
                if kw.arg == "when":
                    when = kw.value
            if when is None:
                continue
            old_heap = e.heap
            e.heap = dict(e.old_heap)
            for r, h in old_heap.items():
                if r not in e.heap:
                    e.heap[r] = h
            try:
                for pc2, c in _cond_split(ex, e, when):
                    if raised and exc_value.cls == exc:
                        ctx.obls.append(Obligation(f"raises/{label}/only-when", "post", pc2, c, where, {"text": ast.unparse(when)}))
                    elif not raised:
                        ctx.obls.append(Obligation(f"raises/{label}/must-raise", "post", pc2, z3.simplify(z3.Not(c)), where, {"text": ast.unparse(when)}))
            finally:
                e.heap = old_heap
    if hasattr(ex, "family_obligations") and not raised:
        ctx.obls.extend(ex.family_obligations(e, where))
    # frame: parameters' roots unchanged unless listed in modifies
    mod_roots = []
    for d in deferred:
        if d.kind == "modifies":
            f = Frame(None, dict(d.env), None, spec=True)
            e.frames = [f]
            cur_heap = e.heap
            e.heap = dict(e.old_heap)  # paths are resolved in the entry state
            try:
                for a in d.node.args:
                    v = ex.ev(a, e)
                    if isinstance(v, VRef):
                        c = ex.canon(e, v)
                        mod_roots.append((c.root, c.path))
            finally:
                e.heap = cur_heap
    for r, h0 in e.old_heap.items():
        h1 = e.heap.get(r)
        if h1 is h0:
            continue
        if any(mr == r for mr, _ in mod_roots if True):
            # fine-grained: only listed paths may differ
            paths = [p for mr, p in mod_roots if mr == r]
            if any(len(p) == 0 for p in paths):
                continue
            goal = _frame_goal(ex, e, h0, h1, paths)
        else:
            goal = _frame_goal(ex, e, h0, h1, [])
        if goal is not None:
            ctx.obls.append(Obligation(f"frame/{r}", "frame", e.hyps(), z3.simplify(goal), where))


def _same_field(ex, e, ha, hb, f):
    """Two objects hold the very same value / object in field f."""
    a = ha.fields.get(f) if f in ha.fields else None
    b = hb.fields.get(f) if f in hb.fields else None
    if a is None and b is None:
        return z3.BoolVal(ha.lazy is not None and hb.lazy is not None and ha.lazy[0] == hb.lazy[0]
                          and all(x.eq(y) for x, y in zip(ha.lazy[1], hb.lazy[1])))
    if a is None:
        a = ex.field_value(e, ha, f)
    if b is None:
        b = ex.field_value(e, hb, f)
    if a is b:
        return z3.BoolVal(True)
    if isinstance(a, VRef) and isinstance(b, VRef):
        return z3.BoolVal(a.root == b.root and a.path == b.path)
    if isinstance(a, (VRef, H)) or isinstance(b, (VRef, H)):
        if isinstance(a, HObj) and isinstance(b, HObj) and not a.fields and not b.fields and a.lazy is not None and b.lazy is not None:
            return z3.BoolVal(a.lazy[0] == b.lazy[0])
        return z3.BoolVal(False)
    if isinstance(a, VLazy) and isinstance(b, VLazy):
        return z3.BoolVal(a.name == b.name)
    try:
        return ex.eq(e, a, b)
    except Unsupported:
        return z3.BoolVal(False)


def _cond_split(ex, e, node):
    """Evaluate a condition, splitting the state if necessary. Returns [(pc, cond)]."""
    out = []
    work = [e]
    while work:
        x = work.pop()
        snap = x.clone()
        try:
            c = ex.cond(x, node)
            out.append((x.hyps(), z3.simplify(c)))
        except NeedSplit as ns:
            a = snap.clone()
            a.pc.append(ns.cond)
            snap.pc.append(z3.simplify(z3.Not(ns.cond)))
            work += [snap, a]
    return out


def _frame_goal(ex, e, h0, h1, allowed_paths):
    """Obligation that h1 equals h0 except below allowed paths (only field-level precision)."""
    if isinstance(h0, HObj) and isinstance(h1, HObj):
        conj = []
        names = set(h0.fields) | set(h1.fields)
        for n in names:
            sub = [p[1:] for p in allowed_paths if p and p[0] == ("f", n)]
            if any(len(p) == 0 for p in sub):
                continue
            a = h0.fields.get(n)
            b = h1.fields.get(n)
            if a is b:
                continue
            if a is None:
                a = ex.field_value(e, h0, n)
            if b is None:
                b = ex.field_value(e, h1, n)
            if isinstance(a, H) and isinstance(b, H):
                g = _frame_goal(ex, e, a, b, sub)
                if g is not None:
                    conj.append(g)
            elif isinstance(a, VRef) and isinstance(b, VRef) and a.root == b.root and a.path == b.path:
                continue
            elif isinstance(a, (VRef, H)) or isinstance(b, (VRef, H)):
                conj.append(z3.BoolVal(False))
            elif isinstance(a, VLazy) or isinstance(b, VLazy):
                if not (isinstance(a, VLazy) and isinstance(b, VLazy) and a.name == b.name):
                    conj.append(z3.BoolVal(False))
            else:
                conj.append(ex.eq(e, a, b))
        return t_and(*conj) if conj else None
    try:
        return ex.h_eq(e, h0, h1)
    except Unsupported:
        return z3.BoolVal(False)


# ----------------------------------------------------------------------------- discharging

def solve_obligation(ob, timeout_ms=10000, want_model=True):
    """Returns (status, backend, seconds, model_text)."""
    t0 = time.time()
    g = ob.goal
    if z3.is_true(g):
        return "proved", "syntactic", 0.0, None
    if ob.kind == "family":
        try:
            from .bigsum import prove_with_congruence
            if prove_with_congruence(ob.hyps, g, 15000):
                return "proved", "z3+sum-congruence", time.time() - t0, None
        except z3.Z3Exception:
            pass
    # z3's quantifier instantiation is heavy-tailed: the same VC takes 0.3 s under one configuration / hypothesis order
    # and times out under another. Portfolio: every configuration with a SHORT budget first, then (after the sum
    # congruence) every configuration with the full budget. An `unsat` / `sat` answer is sound under every configuration.
    configs = ({}, {"smt.mbqi": False}, {"smt.random_seed": 11}, {"smt.random_seed": 23, "smt.mbqi": False}, {"smt.random_seed": 37})

    def attempt(cfg, budget):
        sv = z3.Solver()
        sv.set("timeout", budget)
        try:
            for k2, v2 in cfg.items():
                sv.set(k2, v2)
        except z3.Z3Exception:
            return None, sv
        for h in ob.hyps:
            sv.add(h)
        sv.add(z3.Not(g))
        return sv.check(), sv

    s = None
    for rnd, budget in enumerate((min(3000, timeout_ms), timeout_ms)):
        for cfg in configs:
            r, sv = attempt(cfg, budget)
            if s is None:
                s = sv
            if r == z3.unsat:
                return "proved", "z3", time.time() - t0, None
            if r == z3.sat:
                return "refuted", "z3", time.time() - t0, (sv.model() if want_model else None)
        if rnd == 0:
            # sums: congruence preprocessing (pointwise equal bodies => equal sums) before the long attempts
            try:
                from .bigsum import prove_with_congruence
                if "bigsum<" in g.sexpr()[:2000000] and prove_with_congruence(ob.hyps, g, timeout_ms):
                    return "proved", "z3+sum-congruence", time.time() - t0, None
            except z3.Z3Exception:
                pass
            # second opinions on the SMT-LIB dump (cvc5 decides many string VCs that z3 leaves open) before the long attempts
            smt = s.to_smt2()
            for name, cmd in (("cvc5", ["/usr/bin/cvc5", "--strings-exp", "--tlimit=30000", "--lang=smt2"]),
                              ("z3-4.8", ["/usr/bin/z3", "-smt2", "-T:30", "-in"])):
                try:
                    p = subprocess.run(cmd + ([] if name == "z3-4.8" else ["-"]), input=smt, capture_output=True, text=True, timeout=40)
                    out = p.stdout.strip().splitlines()
                    if out and out[0] == "unsat":
                        return "proved", name, time.time() - t0, None
                    if out and out[0] == "sat":
                        return "refuted", name, time.time() - t0, None
                except Exception:
                    pass
    return "unknown", "z3", time.time() - t0, None
