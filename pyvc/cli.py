import argparse
import os
import sys


def main():
    ap = argparse.ArgumentParser()
    ap.add_argument("pid")
    ap.add_argument("--tier", default=os.environ.get("VERIF_TIER", "quick"))
    ap.add_argument("--update-ledger", action="store_true")
    ap.add_argument("--replay")
    ap.add_argument("-v", action="store_true")
    a = ap.parse_args()
    seed = int(os.environ.get("VERIF_SEED", "0") or 0)
    from .runner import run_property
    if a.replay:
        from .replay import show_replay
        sys.exit(show_replay(a.replay))
    tier = a.tier if a.tier in ("quick", "thorough") else "quick"
    sys.exit(run_property(a.pid, tier, seed, a.update_ledger, a.v))


if __name__ == "__main__":
    main()
