"""LP layer: variables, linear expressions, emitted constraint families (DESIGN.md 2.6 'LP store')."""
import ast
import z3

from .ty import (TInt, TReal, TBool, TStr, TNone, TAny, TTuple, TRec, TList, TDict, TSet, TOpt,
                 TUnion, TObj, TFunc, TLin)
from .vals import *  # noqa
from .symex import t_and, t_or, t_not, t_ite, to_real
from .interp import Effect, NUM
from .stmts import StmtMixin

LPVAR = z3.DeclareSort("LPVar")
LP_INF = z3.Real("lp_INF")
LP_NAMES = {"lp_solution", "newvar", "newvar_at", "emits", "emitted", "lp_binary", "lp_integer", "lp_lb", "lp_ub", "lp_name",
            "lp_inf", "lp_families", "lp_isvar", "family", "lp_objective", "lp_setobjective"}


class LPMixin(StmtMixin):

    # ------------------------------------------------------------------ helpers

    def lp_val(self, v):
        return self.ctx.ufunc("lp_val", LPVAR, z3.RealSort())(v)

    def flat_terms(self, st, v):
        v = self.force(st, v)
        if isinstance(v, VDyn):
            v = self.narrow(st, v)
        if isinstance(v, (VTuple, VRec)):
            out = []
            for i in v.items:
                out += self.flat_terms(st, i)
            return out
        if isinstance(v, VLin):
            var = getattr(v, "var", None)
            if var is not None and not isinstance(var, tuple):
                return [var]
            return [v.t]
        if isinstance(v, (VInt, VReal, VBool, VStr, VOpaque)):
            return [v.t]
        if isinstance(v, VRef):
            h = self.resolve(st, v)
            if isinstance(h, HObj):
                # objects in names (e.g. SolvedAllele): identified by their scalar fields
                out = []
                for f in self.schema.fields(h.cls):
                    fv = self.field_value(st, h, f)
                    if isinstance(fv, (VInt, VReal, VBool, VStr)):
                        out.append(fv.t)
                return out
        raise Unsupported(f"value {v!r} inside a variable/constraint name")

    def site_of(self, st, name):
        """(site id, key terms) of a name value built by an f-string."""
        name = self.force(st, name)
        if isinstance(name, VNone):
            return "<anon>", []
        if not isinstance(name, VStr):
            raise Unsupported("LP name is not a string")
        if name.template is not None:
            keys = []
            for h in name.holes:
                keys += self.flat_terms(st, h)
            return name.template, keys
        ok, s = pyconst(name)
        if ok:
            return s, []
        return "<dyn>", [name.t]

    def mk_lpvar(self, st, site, keys):
        f = self.ctx.ufunc(f"var<{site}>" + "".join("," + str(k.sort()) for k in keys), *[k.sort() for k in keys], LPVAR)
        v = f(*keys) if keys else z3.Const(f"var<{site}>", LPVAR)
        r = VLin(self.lp_val(v))
        r.var = v
        return r

    def in_spec_model(self, st):
        """True while the contract of the function under verification describes its *expected* model."""
        return any(getattr(f, "mode", None) == "assume" for f in st.frames)

    def lp_emit(self, st, name, term, where=""):
        ld = getattr(self, "_last_diff", None)
        diff = ld[1] if ld is not None and ld[0] == term.get_id() else None
        self._last_diff = None
        if diff is not None:
            # keep the normal form  diff <= 0  (real-valued comparison of families is easier to discharge)
            term = diff <= 0
        else:
            term = z3.simplify(term)
        if self.in_spec_model(st):
            name = "spec:" + name
        allb = self.cur_binders(st)
        if st.rec:
            recb = set()
            for fr in st.rec:
                for b in fr.binders:
                    recb.add(b.get_id())
            extra = [b for b in allb if b.get_id() not in recb]
            g = t_and(*st.pc[st.rec[-1].pc_len:])
            st.rec[-1].effects.append(Effect("emit", None, (), term, g, tuple(extra), name=name, where=where))
        else:
            fams = list(st.ghost.get("__families__", ()))
            if allb:
                g = t_and(*st.pc[st.ghost.get("__binder_pc__", len(st.pc)):])
                fams.append((name, tuple(allb), g, term, where))
            else:
                fams.append((name, (), z3.BoolVal(True), term, where))
            st.ghost["__families__"] = tuple(fams)

    def families(self, st, spec=False):
        out = []
        for f in st.ghost.get("__families__", ()):
            if f[0].startswith("spec:") == spec:
                out.append((f[0][5:] if spec else f[0],) + tuple(f[1:]))
        return out

    def sort_perms(self, cb, sb):
        """Permutations of the spec binders whose sorts line up with the code binders (bounded)."""
        import itertools
        out = []
        for perm in itertools.permutations(sb):
            if all(x.sort() == y.sort() for x, y in zip(perm, cb)):
                out.append(list(perm))
                if len(out) >= 24:
                    break
        return out

    def quick_valid(self, st, goal, timeout_ms=3000):
        s = z3.Solver()
        s.set("timeout", timeout_ms)
        for h in st.hyps():
            s.add(h)
        s.add(z3.Not(goal))
        return s.check() == z3.unsat

    def family_obligations(self, st, where):
        """Emitted model == specified model, family by family (pointwise where shapes agree)."""
        from .symex import Obligation
        code, spec = {}, {}
        for f in self.families(st, False):
            code.setdefault(f[0], []).append(f)
        for f in self.families(st, True):
            spec.setdefault(f[0], []).append(f)
        so, co = st.ghost.get("__spec_objective__"), st.ghost.get("__objective__")
        if not spec and so is None:
            return []
        obls = []
        if so is not None:
            if co is None:
                obls.append(Obligation("objective/missing", "family", st.hyps(), z3.BoolVal(False), where, {"text": "no objective set"}))
            else:
                obls.append(Obligation("objective", "family", st.hyps(), z3.simplify(self.eq(st, co, so)), where,
                                       {"text": "objective of the emitted model == specified objective"}))
        for name in sorted(set(code) | set(spec)):
            cs, ss = code.get(name, []), spec.get(name, [])
            if not ss:
                obls.append(Obligation(f"family/{name}/unexpected", "family", st.hyps(), z3.BoolVal(False), cs[0][4],
                                       {"text": "the code emits a constraint family the specified model does not have"}))
                continue
            if not cs:
                obls.append(Obligation(f"family/{name}/missing", "family", st.hyps(), z3.BoolVal(False), where,
                                       {"text": "a constraint family of the specified model is not emitted"}))
                continue
            goal = None
            if len(cs) == len(ss):
                parts = []
                used = set()
                for c in cs:
                    best = None
                    for j, s_ in enumerate(ss):
                        if j in used or len(c[1]) != len(s_[1]):
                            continue
                        for perm in self.sort_perms(list(c[1]), list(s_[1])):
                            ren = list(zip(perm, c[1]))
                            sg = z3.substitute(s_[2], *ren) if ren else s_[2]
                            stm = z3.substitute(s_[3], *ren) if ren else s_[3]
                            cand = self.forall(list(c[1]), t_and(c[2] == sg, z3.Implies(c[2], c[3] == stm)))
                            if len(self.sort_perms(list(c[1]), list(s_[1]))) == 1 and len([x for x in ss if len(x[1]) == len(c[1])]) == 1:
                                cand = None  # unique candidate: no need to probe with the solver
                            # a family merged from several paths of the loop body is an if-then-else chain:
                            # compare case by case
                            cases, rest_t, acc = [], c[3], z3.BoolVal(True)
                            while z3.is_app_of(rest_t, z3.Z3_OP_ITE) and z3.is_bool(rest_t.arg(1)):
                                cases.append((t_and(acc, rest_t.arg(0)), rest_t.arg(1)))
                                acc = t_and(acc, z3.Not(rest_t.arg(0)))
                                rest_t = rest_t.arg(2)
                            cases.append((acc, rest_t))
                            def same(ct, stm):
                                if z3.is_le(ct) and z3.is_le(stm) and z3.simplify(ct.arg(1)).eq(z3.RealVal(0)) and z3.simplify(stm.arg(1)).eq(z3.RealVal(0)):
                                    return ct.arg(0) == stm.arg(0)
                                return ct == stm
                            pieces = (self.forall(list(c[1]), c[2] == sg),
                                      [self.forall(list(c[1]), z3.Implies(t_and(c[2], cg), same(ct, stm))) for cg, ct in cases])
                            if best is None:
                                best = (j, cand, pieces)
                            if cand is None or self.quick_valid(st, cand):
                                best = (j, cand, pieces)
                                break
                        else:
                            continue
                        break
                    if best is None:
                        parts = None
                        break
                    used.add(best[0])
                    parts.append(best[2])
                if parts is not None:
                    for k2, (pg, pb) in enumerate(parts):
                        suffix = f"#{k2}" if len(parts) > 1 else ""
                        obls.append(Obligation(f"family/{name}{suffix}/guard", "family", st.hyps(), z3.simplify(pg), cs[0][4],
                                               {"text": f"emitted family {name}: same index set as the specified family"}))
                        for k3, one in enumerate(pb):
                            sfx2 = f".{k3}" if len(pb) > 1 else ""
                            obls.append(Obligation(f"family/{name}{suffix}/body{sfx2}", "family", st.hyps(), one, cs[0][4],
                                                   {"text": f"emitted family {name}: same constraint as the specified family"}))
                    continue
            if goal is None:
                goal = t_and(*[self.family_formula(f) for f in cs]) == t_and(*[self.family_formula(f) for f in ss])
            obls.append(Obligation(f"family/{name}", "family", st.hyps(), z3.simplify(goal), cs[0][4],
                                   {"text": f"emitted family {name} == specified family"}))
        return obls

    def family_formula(self, fam):
        name, binders, guard, term, where = fam
        body = z3.Implies(guard, term) if not z3.is_true(guard) else term
        return self.forall(list(binders), body)

    def constr_term(self, st, c):
        c = self.force(st, c)
        if isinstance(c, VConstr):
            if c.diff is not None:
                self._last_diff = (c.t.get_id(), c.diff, c.t)
            return c.t
        if isinstance(c, VBool):
            return c.t
        raise Unsupported(f"constraint expected, got {c!r}")

    def newvar(self, st, vtype, lb, ub, name, where=""):
        site, keys = self.site_of(st, name)
        v = self.mk_lpvar(st, site, keys)
        ok, vt = pyconst(self.force(st, vtype)) if vtype is not None else (True, None)
        if not ok:
            raise Unsupported("symbolic vtype")
        val = v.t
        facts = []
        isb = self.ctx.ufunc("lp_binary", LPVAR, z3.BoolSort())
        isi = self.ctx.ufunc("lp_integer", LPVAR, z3.BoolSort())
        flb = self.ctx.ufunc("lp_lb", LPVAR, z3.RealSort())
        fub = self.ctx.ufunc("lp_ub", LPVAR, z3.RealSort())
        def site_axiom(pred, positive):
            key = ("lpax", site, pred, positive)
            if key in st.ghost:
                return
            st.ghost[key] = True
            xs = [z3.Const(f"vx!{i}", k.sort()) for i, k in enumerate(keys)]
            f = self.ctx.ufunc(f"var<{site}>" + "".join("," + str(k.sort()) for k in keys), *[k.sort() for k in keys], LPVAR)
            vv = f(*xs) if xs else z3.Const(f"var<{site}>", LPVAR)
            body = self.ctx.ufunc(pred, LPVAR, z3.BoolSort())(vv)
            if not positive:
                body = z3.Not(body)
            st.axioms.append(z3.ForAll(xs, body) if xs else body)
        if vt == "B":
            facts.append(z3.Or(val == 0, val == 1))
            site_axiom("lp_binary", True)
            site_axiom("lp_integer", True)
        else:
            site_axiom("lp_binary", False)
            lbt = to_real(self.force(st, lb).t) if lb is not None and not isinstance(self.force(st, lb), VNone) else z3.RealVal(0)
            ubt = to_real(self.force(st, ub).t) if ub is not None and not isinstance(self.force(st, ub), VNone) else LP_INF
            if not z3.simplify(lbt).eq(z3.simplify(-LP_INF)):
                facts.append(val >= lbt)
            if not z3.simplify(ubt).eq(LP_INF):
                facts.append(val <= ubt)
            if vt == "I":
                facts.append(z3.IsInt(val))
                site_axiom("lp_integer", True)
            else:
                site_axiom("lp_integer", False)
        if facts:
            self.lp_emit(st, "VAR:" + site, t_and(*facts), where)
        return v

    def getattr(self, st, obj, name, node=None):
        if name == "INF" and isinstance(obj, VRef):
            h = self.resolve(st, obj)
            if isinstance(h, HObj) and h.cls == "CBC":
                return VReal(LP_INF)
        return super().getattr(st, obj, name, node)

    def call_method(self, st, recv, name, args, kw, node):
        r = self.force(st, recv)
        if isinstance(r, VLin) and getattr(r, "var", None) is not None:
            v = r.var
            if name == "solution_value":
                return VReal(self.ctx.ufunc("lp_solution", LPVAR, z3.RealSort())(v))
            if name == "integer":
                return VBool(self.ctx.ufunc("lp_integer", LPVAR, z3.BoolSort())(v))
            if name in ("lb", "ub"):
                return VReal(self.ctx.ufunc("lp_" + name, LPVAR, z3.RealSort())(v))
            if name == "name":
                return VStr(self.ctx.ufunc("lp_name", LPVAR, z3.StringSort())(v))
        return super().call_method(st, recv, name, args, kw, node)

    # ------------------------------------------------------------------ spec builtins

    def site_where(self, st, node):
        """Source location of the statement of the code under verification that caused an emission."""
        for f in reversed(st.frames):
            cs = getattr(f, "callsite", None)
            if cs:
                return cs
        return self.where(node, st)

    def call_spec_builtin(self, st, name, args, kw, node):
        if name not in LP_NAMES:
            return super().call_spec_builtin(st, name, args, kw, node)
        a = [self.force(st, x) for x in args]
        if name == "newvar":
            # newvar(self, vtype, lb, ub, name)
            return self.newvar(st, a[1], a[2] if len(a) > 2 else None, a[3] if len(a) > 3 else None,
                               a[4] if len(a) > 4 else VNone(), self.site_where(st, node))
        if name == "newvar_at":
            # newvar_at("template", key values...): the variable created under that name
            ok, site = pyconst(a[0])
            keys = []
            for x in a[1:]:
                keys += self.flat_terms(st, x)
            return self.mk_lpvar(st, site, keys)
        if name == "emits":
            term = self.constr_term(st, a[1])
            nm = "<anon>"
            if len(a) > 2:
                nm, _ = self.site_of(st, a[2])
            self.lp_emit(st, nm, term, self.site_where(st, node) + f"/{getattr(node, 'lineno', 0)}")
            return VNone()
        if name == "family":
            # family("NAME", constraint) inside a specification model
            ok, nm = pyconst(a[0])
            self.lp_emit(st, nm, self.constr_term(st, a[1]), self.where(node, st))
            return VNone()
        if name == "emitted":
            return VBool(t_and(*[self.family_formula(f) for f in self.families(st)]))
        if name == "lp_inf":
            return VReal(LP_INF)
        if name in ("lp_binary", "lp_integer"):
            var = getattr(a[0], "var", None)
            if var is None:
                raise Unsupported(f"{name} of a non-variable")
            return VBool(self.ctx.ufunc(name, LPVAR, z3.BoolSort())(var))
        if name in ("lp_lb", "lp_ub"):
            var = getattr(a[0], "var", None)
            if var is None:
                raise Unsupported(f"{name} of a non-variable")
            return VReal(self.ctx.ufunc(name, LPVAR, z3.RealSort())(var))
        if name == "lp_name":
            var = getattr(a[0], "var", None)
            if var is None:
                raise Unsupported("lp_name of a non-variable")
            return VStr(self.ctx.ufunc("lp_name", LPVAR, z3.StringSort())(var))
        if name == "lp_solution":
            var = getattr(a[0], "var", None)
            if var is None:
                raise Unsupported("lp_solution of a non-variable")
            return VReal(self.ctx.ufunc("lp_solution", LPVAR, z3.RealSort())(var))
        if name == "lp_isvar":
            return VBool(getattr(a[0], "var", None) is not None)
        if name == "lp_setobjective":
            st.ghost["__spec_objective__" if self.in_spec_model(st) else "__objective__"] = a[1]
            return VNone()
        if name == "lp_objective":
            o = st.ghost.get("__objective__")
            if o is None:
                raise Unsupported("objective not set")
            return o
        raise Unsupported(name)


# VLin carries the identity of a bare variable
def _vlin_map(self, fn):
    r = VLin(fn(self.t))
    v = getattr(self, "var", None)
    if v is not None and not isinstance(v, tuple):
        r.var = fn(v)
    else:
        r.var = None
    return r


VLin.map_terms = _vlin_map
