"""Property-level driver: run the functions/lemmas of a property, apply ledger + known findings,
write evidence, decide the exit code."""
import ast
import glob
import hashlib
import json
import multiprocessing as mp
import os
import sys
import time
import traceback

ROOT = os.path.dirname(os.path.dirname(os.path.abspath(__file__)))


def load_all():
    from .ty import Schema
    from .contract import load_contracts
    files = sorted(glob.glob(os.path.join(ROOT, "contracts", "*.py")))
    sch, cfiles, config, plan = None, [], {}, {}
    for f in files:
        base = os.path.basename(f)
        if base == "schema.py":
            tree = ast.parse(open(f).read())
            for n in tree.body:
                if isinstance(n, ast.Assign) and n.targets[0].id == "CLASSES":
                    sch = Schema(ast.literal_eval(n.value))
        elif base == "config.py":
            tree = ast.parse(open(f).read())
            for n in tree.body:
                if isinstance(n, ast.Assign) and n.targets[0].id == "CONFIG":
                    config = ast.literal_eval(n.value)
                if isinstance(n, ast.Assign) and n.targets[0].id == "PLAN":
                    plan = ast.literal_eval(n.value)
        else:
            cfiles.append(f)
    contracts, specfuncs, lemmas = load_contracts(cfiles)
    return sch, contracts, specfuncs, lemmas, config, plan


_G = {}


def _init():
    _G["all"] = load_all()


def _vc_key(ob):
    h = hashlib.sha256()
    for x in ob.hyps:
        h.update(x.sexpr().encode())
    h.update(b"|-")
    h.update(ob.goal.sexpr().encode())
    return h.hexdigest()


def run_selftest(functions):
    """tools/selftest.py restricted to the functions of one property (scratch copy of the repository, removed afterwards)."""
    import subprocess
    if not functions:
        return None
    try:
        r = subprocess.run(["python3-vt", os.path.join(ROOT, "tools", "selftest.py"), "--only", ",".join(functions)],
                           capture_output=True, text=True, timeout=7200, cwd=ROOT)
    except (OSError, subprocess.TimeoutExpired) as e:
        return {"status": "error", "message": str(e), "survived": 0, "mutants": 0}
    lines = [l for l in r.stdout.splitlines() if l.startswith(("CAUGHT", "SURVIVED", "SKIP"))]
    return {"status": "ok", "mutants": len(lines), "caught": sum(l.startswith("CAUGHT") for l in lines),
            "survived": sum(l.startswith("SURVIVED") for l in lines), "skipped": sum(l.startswith("SKIP") for l in lines),
            "lines": [l[:160] for l in lines]}


def check_theory(path, tier):
    """Lean 4 / Mathlib file with the finite-sum facts the congruence prover relies on."""
    import hashlib
    import subprocess
    try:
        h = hashlib.sha256(open(path, "rb").read()).hexdigest()
        rec = open(path.replace(".lean", ".checked.sha256")).read().strip()
    except OSError as e:
        return {"status": "error", "message": str(e)}
    if h != rec:
        return {"status": "error", "message": "theory file differs from the version recorded as checked by lean"}
    if tier != "thorough":
        return {"status": "ok", "mode": "hash of the file last checked by lean 4.33 + Mathlib", "sha256": h}
    t0 = time.time()
    try:
        r = subprocess.run(["lean", os.path.basename(path)], cwd=os.path.dirname(path), capture_output=True, text=True, timeout=1500)
    except (OSError, subprocess.TimeoutExpired) as e:
        return {"status": "error", "message": f"lean did not run: {e}"}
    bad = r.returncode != 0 or "error" in r.stdout or "sorry" in r.stdout
    return {"status": "error" if bad else "ok", "mode": "re-checked by lean", "sha256": h, "time_s": round(time.time() - t0, 1),
            "message": (r.stdout + r.stderr)[-800:] if bad else ""}


class KnownIndex:
    """Known findings of one property, keyed by (function, obligation) - exact name, or a regular expression
    (`obligation_regex`, full match) for contracts whose clause labels carry evidence-class suffixes."""

    def __init__(self, entries):
        self.entries = list(entries)

    def get(self, key, default=None):
        import re
        fn, nm = key
        for k in self.entries:
            if k["function"] == fn and k.get("obligation") == nm:
                return k
        for k in self.entries:
            if k["function"] == fn and k.get("obligation_regex") and re.fullmatch(k["obligation_regex"], nm):
                return k
        return default

    def __contains__(self, key):
        return self.get(key) is not None


def _work(job):
    """Verify one function (or lemma); returns a JSON-able dict."""
    kind, name, timeout_ms = job
    if kind == "native":
        from .replay import run_native
        tier = os.environ.get("VERIF_TIER_EFFECTIVE", "quick")
        n, budget = (600, 240) if tier == "thorough" else (150, 60)
        t0 = time.time()
        nat = run_native(name, n=n, seed=int(os.environ.get("VERIF_SEED", "0") or 0), budget_s=budget)
        return {"kind": "native", "name": name, "status": "native-only", "message": "", "obligations": [], "sha": "", "paths": 0,
                "loops": [], "assumed": [], "notes": [], "file": "", "lineno": 0, "native": nat, "time_s": round(time.time() - t0, 2)}
    from . import verify, front
    from .verify import verify_function, solve_obligation
    if "all" not in _G:
        _init()
    sch, contracts, specfuncs, lemmas, config, plan = _G["all"]
    t0 = time.time()
    out = {"kind": kind, "name": name, "status": "ok", "message": "", "obligations": [], "sha": "", "paths": 0,
           "loops": [], "assumed": [], "notes": [], "file": "", "lineno": 0}
    try:
        if kind == "lemma":
            from .lemmas import run_lemma
            r = run_lemma(name, sch, contracts, specfuncs, lemmas, config)
        else:
            r = verify_function(name, sch, contracts, specfuncs, config)
        out.update(status=r.status, message=r.message, sha=r.sha, paths=r.paths, loops=[list(x) for x in r.loops],
                   assumed=list(r.assumed), notes=list(r.notes), file=r.file, lineno=r.lineno)
        raw = list(getattr(r, "raw", []))
        keys = [_vc_key(ob) for ob in raw]
        uniq = {}
        for i, k in enumerate(keys):
            uniq.setdefault(k, i)
        todo = sorted(uniq.values())
        global _RAW
        _RAW = (raw, timeout_ms)
        inner = int(os.environ.get("VERIF_INNER_PROCS", "1"))
        if len(todo) > 24 and inner > 1:
            import multiprocessing as mp2
            with mp2.get_context("fork").Pool(inner) as pool:
                solved = pool.map(_solve_idx, todo, chunksize=1)
        else:
            solved = [_solve_idx(i) for i in todo]
        cache = {keys[i]: sres for i, sres in zip(todo, solved)}
        for i, ob in enumerate(raw):
            st, be, dt, mtxt = cache[keys[i]]
            if uniq[keys[i]] != i:
                dt = 0.0
            out["obligations"].append({"name": ob.name, "kind": ob.kind, "status": st, "backend": be, "time_s": round(dt, 4),
                                       "where": ob.where, "text": ob.meta.get("text", ""), "model": mtxt, "vc": keys[i][:12],
                                       "has_sums": (st == "refuted" and "bigsum<" in ob.goal.sexpr()),
                                       "smt": (ob.goal.sexpr()[:600] if len(out["obligations"]) < 2 else None)})
    except Exception as e:
        out["status"] = "crash"
        out["message"] = f"{type(e).__name__}: {e}\n{traceback.format_exc()}"
    out["time_s"] = round(time.time() - t0, 3)
    # bounded native stand-in / replay (CPython, real code): never counted as proved
    out["native"] = None
    if kind == "function" and os.environ.get("VERIF_NO_NATIVE") != "1":
        sch, contracts, specfuncs, lemmas, config, plan = _G["all"]
        c = contracts.get(name)
        if c is not None and c.flags.get("native", True):
            from .replay import run_native
            tier = os.environ.get("VERIF_TIER_EFFECTIVE", "quick")
            n, budget = (400, 120) if tier == "thorough" else (80, 25)
            bad = out["status"] != "ok" or any(o["status"] != "proved" for o in out["obligations"])
            if bad:
                n, budget = max(n, 300), max(budget, 60)
            out["native"] = run_native(name, n=n, seed=int(os.environ.get("VERIF_SEED", "0") or 0), budget_s=budget)
    return out


_RAW = None


def _solve_idx(i):
    from .verify import solve_obligation
    raw, timeout_ms = _RAW
    ob = raw[i]
    st, be, dt, m = solve_obligation(ob, timeout_ms=timeout_ms)
    mtxt = model_text(m, ob) if st == "refuted" else None
    return st, be, dt, mtxt


def model_text(m, ob):
    if m is None:
        return "(model not available from the CLI back end)"
    try:
        lines = []
        for d in m.decls():
            n = d.name()
            if "!" in n and not n.startswith(("self", "p:")) and d.arity() == 0 and n.count("!") > 1:
                continue
            v = m[d]
            s = str(v)
            if len(s) > 300:
                s = s[:300] + "..."
            lines.append(f"{n} = {s}")
        lines.sort()
        return "\n".join(lines[:80])
    except Exception as e:
        return f"(model unreadable: {e})"


def load_json(path, default):
    if os.path.exists(path):
        with open(path) as f:
            return json.load(f)
    return default


def run_property(pid, tier="quick", seed=0, update_ledger=False, verbose=False):
    t0 = time.time()
    sch, contracts, specfuncs, lemmas, config, plan = load_all()
    if pid not in plan:
        print(f"UNDECIDED property={pid}: no plan")
        return 3
    p = plan[pid]
    jobs = [("function", q, p.get("timeout_ms", 10000)) for q in p.get("functions", [])]
    jobs += [("lemma", q, p.get("timeout_ms", 10000)) for q in p.get("lemmas", [])]
    jobs += [("native", q, 0) for q in p.get("native_only", [])]
    if tier == "thorough":
        jobs += [("function", q, 30000) for q in p.get("thorough_functions", [])]
    os.environ["VERIF_TIER_EFFECTIVE"] = tier
    nproc = min(16, max(1, len(jobs)))
    os.environ["VERIF_INNER_PROCS"] = str(max(1, min(8, 16 // max(1, min(len(jobs), 4)))))
    if len(jobs) > 1:
        from concurrent.futures import ProcessPoolExecutor
        with ProcessPoolExecutor(max_workers=nproc, initializer=_init) as pool:
            results = list(pool.map(_work, jobs))
    else:
        _init()
        results = [_work(j) for j in jobs]
    # bounded / native stand-ins
    bounded_results = []
    for b in p.get("bounded", []):
        from .bounded import run_bounded
        bounded_results.append(run_bounded(b, tier, seed))

    ledger_path = os.path.join(ROOT, "ledger", f"{pid}.json")
    ledger = load_json(ledger_path, None)
    known = [k for k in load_json(os.path.join(ROOT, "known_findings.json"), {"findings": []})["findings"]
             if k.get("property") == pid]
    known_ob = KnownIndex([k for k in known if k.get("status") == "known"])

    exitcode = 0
    natives = {}
    lines = []
    violations = []
    undecided = []
    crashed = []
    n_obl = n_dis = 0
    by_backend = {}
    solver_time = 0.0
    expected_refuted = []
    samples = []
    funcs = []
    assumed = set()
    names_now = {}
    for r in results:
        fn = r["name"]
        funcs.append({"name": fn, "kind": r["kind"], "source_sha256_16": r["sha"], "file": r["file"], "line": r["lineno"],
                      "paths": r["paths"], "loop_rules": r["loops"], "status": r["status"], "time_s": r["time_s"],
                      "obligations": len(r["obligations"])})
        for a in r["assumed"]:
            assumed.add(a)
        nat = r.get("native")
        cf = p.get("clause_filter", {}).get(fn)
        if nat is not None and cf is not None and nat.get("violations"):
            # this property only claims some clauses of the function's contract
            keep = [v for v in nat["violations"] if any(v["clause"].split("/", 1)[-1].startswith(pre) or v["clause"].startswith(pre) for pre in cf)]
            nat = dict(nat, violations=keep, status=("violation" if keep else "ok") if nat.get("status") == "violation" else nat.get("status"))
        if nat is not None:
            natives[fn] = nat
            bounded_results.append({"name": fn, "kind": "bounded-native", "status": nat.get("status"), "cases": nat.get("cases", 0),
                                    "skipped_by_requires": nat.get("skipped_by_requires", 0),
                                    "bound": "random small inputs (<= 400 cases, small value pools), real code under CPython"})
        if r["status"] == "native-only":
            if nat is None or nat.get("status") in ("error",):
                undecided.append(f"{fn}: native check failed to run: {(nat or {}).get('message', '')[:300]}")
            elif nat.get("status") == "violation":
                for v in nat["violations"]:
                    key = (fn, v["clause"])
                    if key in known_ob:
                        expected_refuted.append({"function": fn, "obligation": v["clause"], "finding": known_ob.get(key)["id"]})
                        continue
                    violations.append((fn, v["clause"], {"model": None, "where": "", "text": v.get("text"), "bounded": True, "native": v}))
            continue
        if r["status"] == "crash":
            crashed.append(f"{fn}: {r['message'][:1500]}")
            continue
        if r["status"] == "unsupported":
            if nat is not None and nat.get("status") == "violation":
                for v in nat["violations"][:1]:
                    if (fn, v["clause"]) in known_ob or (fn, "frame/p:" + v["clause"][6:]) in known_ob:
                        expected_refuted.append({"function": fn, "obligation": v["clause"], "finding": (known_ob.get((fn, v["clause"])) or known_ob.get((fn, "frame/p:" + v["clause"][6:])) or {}).get("id")})
                        continue
                    violations.append((fn, v["clause"], {"model": None, "where": r["file"], "text": v.get("text"), "bounded": True,
                                                        "native": v}))
            undecided.append(f"{fn}: unsupported: {r['message'][:300]}")
            continue
        if not r["obligations"]:
            undecided.append(f"{fn}: zero obligations generated (vacuity guard)")
        names_now[fn] = sorted({o["name"] for o in r["obligations"]})
        refuted_names = {}
        for o in r["obligations"]:
            key = (fn, o["name"])
            if key in known_ob:
                # expected-refuted half of a known finding
                if o["status"] == "refuted":
                    expected_refuted.append({"function": fn, "obligation": o["name"], "finding": known_ob.get(key)["id"]})
                continue
            n_obl += 1
            solver_time += o["time_s"]
            if o["status"] == "proved":
                n_dis += 1
                by_backend[o["backend"]] = by_backend.get(o["backend"], 0) + 1
                if len(samples) < 4 and o.get("smt"):
                    samples.append({"function": fn, "obligation": o["name"], "goal_smt": o["smt"], "backend": o["backend"]})
            elif o["status"] == "refuted":
                refuted_names.setdefault(o["name"], o)
            else:
                undecided.append(f"{fn}/{o['name']}: solver unknown/timeout")
        if nat is not None and nat.get("status") == "violation" and not refuted_names:
            # the bounded native run found a failing input although every obligation was discharged
            for v in nat["violations"]:
                key = (fn, v["clause"])
                key2 = (fn, "frame/p:" + v["clause"][6:]) if v["clause"].startswith("frame/") else key
                if key in known_ob or key2 in known_ob:
                    k = known_ob.get(key) or known_ob.get(key2)
                    expected_refuted.append({"function": fn, "obligation": v["clause"], "finding": k["id"]})
                    continue
                violations.append((fn, v["clause"], {"model": None, "where": r["file"], "text": v.get("text"), "bounded": True, "native": v}))
        for nm, o in refuted_names.items():
            lnames = ledger.get("functions", {}).get(fn, []) if ledger is not None else []
            in_ledger = nm in lnames
            if not in_ledger and nm.startswith("family/"):
                # family obligations are renamed when the emitted model changes shape: match by family
                base = nm.split("#")[0]
                for suf in ("/guard", "/body", "/missing", "/unexpected"):
                    if base.endswith(suf):
                        base = base[: -len(suf)]
                in_ledger = any(l == base or l.startswith(base + "#") or l.startswith(base + "/") for l in lnames) \
                    or (nm.endswith("/unexpected") and any(l.startswith("family/") for l in lnames))
            if not in_ledger and not update_ledger:
                undecided.append(f"{fn}/{nm}: refuted, but the obligation is not in the committed ledger (contract/code shape changed)")
                continue
            violations.append((fn, nm, o))
    for k in known_ob.entries:
        hits = sorted({e["obligation"] for e in expected_refuted if e.get("finding") == k["id"]})
        if hits:
            lines.append(f"KNOWN-FINDING: property={pid} {k['what']}" + (f" [clauses: {', '.join(hits)}]" if "obligation_regex" in k else ""))
        else:
            bounded_only = k["function"] in p.get("native_only", [])
            if bounded_only:
                # a finding of a bounded (sampled) contract run: listed, but this run's sample did not contain a failing input
                lines.append(f"KNOWN-FINDING: property={pid} {k['what']} [listed; not re-observed in this run's sample of generated inputs]")
            else:
                lines.append(f"NOTE: known finding {k['id']} did not reproduce in this run ({k['function']}/{k.get('obligation') or k.get('obligation_regex')})")
    # vacuity guard against the ledger
    if ledger is not None and not update_ledger:
        for fn, names in ledger.get("functions", {}).items():
            cur = names_now.get(fn)
            if cur is None:
                if not any(fn in u for u in undecided) and not any(fn in c for c in crashed):
                    undecided.append(f"{fn}: in the ledger but not run")
                continue
            def fam_base(n):
                b = n.split("#")[0]
                for suf in ("/guard", "/body", "/missing", "/unexpected"):
                    if b.endswith(suf):
                        b = b[: -len(suf)]
                return b
            cur_bases = {fam_base(n) for n in cur if n.startswith("family/")}
            missing = [n for n in names if n not in cur and not (n.startswith("family/") and fam_base(n) in cur_bases)]
            if missing:
                undecided.append(f"{fn}: obligations missing relative to the ledger: {missing[:6]}")
    for b in bounded_results:
        if b.get("kind") == "bounded-native":
            continue  # handled per function above (known findings, replay inputs)
        if b["status"] == "violation":
            violations.append((b["name"], "bounded", {"model": json.dumps(b.get("witness"))[:3000], "where": b.get("where", ""), "text": b.get("what", ""), "bounded": True}))
        elif b["status"] != "ok":
            undecided.append(f"bounded {b['name']}: {b.get('message','')[:300]}")

    # theory file behind the sum-congruence prover (rules E / Z): quick = hash of the checked file, thorough = re-check with lean
    theory = None
    p = dict(p)
    p.setdefault("theory", "lean/BigSum.lean")      # the sum prover (rules E / Z / P) may fire in any check
    if p.get("theory"):
        theory = check_theory(os.path.join(ROOT, p["theory"]), tier)
        if theory["status"] != "ok":
            crashed.append(f"theory file {p['theory']}: {theory['message']}")

    # thorough tier: engine self-test - one-line breaks of this property's functions on a scratch copy must fail an obligation
    selftest = None
    if tier == "thorough" and os.environ.get("VERIF_NO_SELFTEST") != "1":
        selftest = run_selftest(p.get("functions", []))
        if selftest and selftest.get("survived"):
            crashed.append(f"engine self-test: {selftest['survived']} mutant(s) survived: {selftest.get('lines')}")
        # ... and the unit test of the one-point sum rule P (must prove a pinned index, must not fire on a non-unique guard)
        import subprocess
        try:
            rp = subprocess.run(["python3-vt", os.path.join(ROOT, "tools", "test_bigsum.py")], capture_output=True, text=True, timeout=300, cwd=ROOT)
            if rp.returncode != 0:
                crashed.append("sum-prover unit test (tools/test_bigsum.py) failed: " + rp.stdout[-300:])
            elif selftest is not None:
                selftest["sum_rule_P_unit_test"] = "ok"
        except (OSError, subprocess.TimeoutExpired) as e:
            crashed.append(f"sum-prover unit test did not run: {e}")

    os.makedirs(os.path.join(ROOT, "replays"), exist_ok=True)
    for i, (fn, nm, o) in enumerate(violations):
        rp = os.path.join(ROOT, "replays", f"{pid}_{i}.json")
        replay = {"property": pid, "function": fn, "obligation": nm, "where": o.get("where"), "clause": o.get("text"),
                  "solver_output": o.get("model"), "replayed": False}
        if o.get("has_sums"):
            replay["caveat"] = ("the verification condition contains finite sums, which the solvers treat as uninterpreted "
                                "functions with congruence only: the obligation was discharged on the unchanged tree and is not "
                                "discharged now, but a solver model that relies on particular sum values need not correspond "
                                "to an execution")
        suffix = " no-failing-input-found"
        try:
            from .replay import try_replay
            if o.get("native") is not None:
                rr = {"replayed": True, "reproduced": True, "failing_input": o["native"].get("input"), "native_detail": o["native"].get("detail"),
                      "native_clause": o["native"].get("clause")}
            else:
                rr = try_replay(pid, fn, nm, o, natives.get(fn))
            if rr is not None:
                replay.update(rr)
                if rr.get("replayed") and rr.get("reproduced"):
                    suffix = ""
                elif rr.get("replayed") and rr.get("reproduced") is False:  # (never produced by the bounded search)
                    undecided.append(f"{fn}/{nm}: counter-model is not reproduced by the real code (engine imprecision)")
                    with open(rp, "w") as f:
                        json.dump(replay, f, indent=1)
                    continue
        except ImportError:
            pass
        except Exception as e:
            replay["replay_error"] = f"{type(e).__name__}: {e}"
        if o.get("bounded"):
            suffix = ""
        with open(rp, "w") as f:
            json.dump(replay, f, indent=1)
        lines.append(f"VIOLATION property={pid} replay={rp}{suffix}")
        exitcode = 1
    if exitcode == 0 and crashed:
        exitcode = 3
    if exitcode == 0 and undecided:
        exitcode = 2
    for u in undecided:
        lines.append(f"UNDECIDED property={pid} {u}")
    for c in crashed:
        lines.append(f"CHECKER-ERROR property={pid} {c}")

    if update_ledger:
        os.makedirs(os.path.join(ROOT, "ledger"), exist_ok=True)
        with open(ledger_path, "w") as f:
            json.dump({"property": pid, "functions": names_now}, f, indent=1, sort_keys=True)

    wall = time.time() - t0
    n_bounded = sum(b.get("cases", 0) for b in bounded_results)
    all_unbounded = n_obl > 0 and n_dis == n_obl and not undecided and not crashed
    level = p.get("level", "proof")
    if level == "proof" and not (all_unbounded and not p.get("not_decided")):
        level = "other" if not all_unbounded else level
    trusted = ["z3 5.1 (python API); cvc5 1.0.3 and z3 4.8.12 CLIs as fallbacks", "pyvc VC generator (this repository: /verif/pyvc)",
               "Python semantics as encoded (DESIGN.md 2.3): int = mathematical integers, float = mathematical reals (no rounding, no overflow, no NaN)",
               "heap model (DESIGN.md 2.4): tree-shaped - objects reachable from different parameters (or different cells of one container) are distinct unless a contract says `shares`; results of contract/external calls are fresh objects",
               "termination is not verified; exceptions other than those raised explicitly or declared by callee contracts (MemoryError, RecursionError, KeyboardInterrupt) are not modelled",
               "finite sums: uninterpreted bigsum(lambda) with congruence (E), all-zero (Z) and one-point (P) rules (lean/BigSum.lean: bigsum_congr, bigsum_zero, bigsum_single, checked by Lean 4 + Mathlib); collections are finite",
               "foreach summaries: loop bodies are executed once for a symbolic element; order independence is an obligation (foreach-side#k/*), iteration order of sets/dicts is otherwise unspecified"]
    assumptions = list(p.get("assumptions", [])) + [f"assumed/external contract: {a}" for a in sorted(assumed)]
    explanation = (f"{n_dis}/{n_obl} obligations discharged by a deductive VC check (unbounded, all inputs) over "
                   f"{len([f for f in funcs if f['kind']=='function'])} functions re-parsed from {os.environ.get('VERIF_REPO','/repo')}; "
                   f"{len([f for f in funcs if f['kind']=='lemma'])} lemmas; bounded stand-ins: {len(bounded_results)} "
                   f"({n_bounded} cases, never counted as proved). Not decided: {'; '.join(p.get('not_decided', [])) or 'nothing further'}.")
    ev = {
        "property_id": pid, "tier": tier, "seed": seed, "level": level,
        "coverage": {
            "obligations": n_obl, "discharged": n_dis,
            "checker_cmd": f"./check {pid} --tier {tier}",
            "trusted_base": trusted, "by_backend": by_backend, "solver_time_s": round(solver_time, 3),
            "functions_under_contract": funcs, "bounded": bounded_results,
            "expected_refuted_known_findings": expected_refuted,
            "dropped_by_extraction": __import__("pyvc.front", fromlist=["DROPPED"]).DROPPED,
            "samples": samples or [{"note": "no discharged obligation to show"}],
            "explanation": explanation, "undecided": undecided, "not_decided": p.get("not_decided", []),
            "evaluations": max(1, n_obl + n_bounded),
            "distinct_nontrivial": max(2, len({o for f in names_now.values() for o in f}) + sum(1 for b in bounded_results if b.get("cases", 0) > 0)),
            "rule": "one evaluation = one generated obligation or one natively executed contract case; distinct = distinct obligation names + functions exercised natively",
            "native_cases": n_bounded,
            "theory_file": theory,
            "slow_obligations": sorted([{"function": r["name"], "obligation": o["name"], "time_s": o["time_s"], "backend": o["backend"]}
                                        for r in results for o in r.get("obligations", []) if o.get("time_s", 0) > 5.0],
                                       key=lambda x: -x["time_s"])[:25],
            "engine_selftest": selftest,
        },
        "assumptions": assumptions, "wall_s": round(wall, 2), "violations": sum(1 for l in lines if l.startswith("VIOLATION")),
    }
    evdir = os.environ.get("VERIF_EVIDENCE_DIR") or os.path.join(ROOT, "evidence")
    os.makedirs(evdir, exist_ok=True)
    with open(os.path.join(evdir, f"{pid}.json"), "w") as f:
        json.dump(ev, f, indent=1)
    print(f"[{pid}] tier={tier} functions={len(funcs)} obligations={n_obl} discharged={n_dis} "
          f"undecided={len(undecided)} violations={ev['violations']} wall={wall:.1f}s")
    if verbose:
        for r in results:
            print(f"  {r['name']}: {r['status']} {r['message'][:200]} obligations={len(r['obligations'])} t={r['time_s']}s")
            for o in r["obligations"]:
                if o["status"] != "proved":
                    print(f"     {o['status']:8s} {o['name']} {o['where']} {o['text'][:100]}")
    for l in lines:
        print(l)
    return exitcode
