"""Lemmas: contracts without code. `@lemma("L-name") def _(x, y): types(...); requires(...); ensures(...)`.

A lemma connects the clause of a property statement with the constraint families a builder contract
pins down (e.g. "z <= x, z <= y, z >= x + y - 1 over binaries  ==>  z == x*y").  It is discharged like a
function with an empty body: the parameters are symbolic values of the declared types, `requires` are the
hypotheses, every `ensures` is one obligation."""
import ast
import time
import traceback

from . import front
from .vals import Unsupported, NeedSplit
from .symex import Ctx
from .verify import Engine, Result, _verify


class _Mod:
    def __init__(self, path, text):
        self.path, self.text, self.name = path, text, "lemmas"
        self.tree = ast.parse(text)
        self.imports, self.globals = {}, {}


def run_lemma(name, schema, contracts, specfuncs, lemmas, config=None):
    t0 = time.time()
    res = Result(name)
    lem = lemmas[name]
    ctx = Ctx(schema, contracts, specfuncs, dict(config or {}))
    ex = Engine(ctx)
    params = ", ".join(a.arg for a in lem.node.args.args)
    src = f"def lemma({params}):\n    return None\n"
    fnode = ast.parse(src).body[0]
    fi = front.FuncInfo(name, _Mod(getattr(lem, "path", "contracts"), src), fnode)
    res.sha, res.lineno, res.file = "lemma", getattr(lem.node, "lineno", 0), getattr(lem, "path", "contracts")
    try:
        _verify(ex, ctx, fi, lem, res)
        if not getattr(res, "raw", None):
            res.status, res.message = "unsupported", "lemma generated no obligation"
    except Unsupported as e:
        res.status, res.message = "unsupported", str(e)
    except NeedSplit as e:
        res.status, res.message = "unsupported", f"unhandled case split on {e.cond}"
    except Exception as e:
        res.status, res.message = "crash", f"{type(e).__name__}: {e}\n{traceback.format_exc()}"
    res.paths, res.loops, res.assumed, res.notes = ctx.paths, ctx.loops, ctx.assumed, ctx.notes
    res.time_s = time.time() - t0
    return res
