"""Type descriptors for symbolic values and their z3 sorts."""
import ast
import z3


class Ty:
    def __repr__(self):
        return self.show()

    def __eq__(self, o):
        return type(self) is type(o) and self.show() == o.show()

    def __hash__(self):
        return hash(self.show())

    def is_scalar(self):
        return False


class TInt(Ty):
    def show(self):
        return "int"

    def sort(self):
        return z3.IntSort()

    def is_scalar(self):
        return True


class TReal(Ty):
    def show(self):
        return "float"

    def sort(self):
        return z3.RealSort()

    def is_scalar(self):
        return True


class TBool(Ty):
    def show(self):
        return "bool"

    def sort(self):
        return z3.BoolSort()

    def is_scalar(self):
        return True


class TStr(Ty):
    def show(self):
        return "str"

    def sort(self):
        return z3.StringSort()

    def is_scalar(self):
        return True


class TLin(Ty):
    """LP variable / linear expression: represented by its value under an arbitrary assignment."""

    def show(self):
        return "LinExpr"

    def sort(self):
        return z3.RealSort()

    def is_scalar(self):
        return True


class TLinVar(Ty):
    """LP variable object (identity in the uninterpreted sort LPVar, value lp_val(v))."""

    def show(self):
        return "LinVar"

    def sort(self):
        return z3.DeclareSort("LPVar")

    def is_scalar(self):
        return True


class TNone(Ty):
    def show(self):
        return "None"


class TAny(Ty):
    """A value the verified code only passes around (never inspects)."""

    def __init__(self, name="Any"):
        self.name = name

    def show(self):
        return f"Opaque[{self.name}]"

    def sort(self):
        return z3.DeclareSort("Opq_" + self.name)

    def is_scalar(self):
        return True


_TUPLE_SORTS = {}


class TTuple(Ty):
    def __init__(self, items):
        self.items = list(items)

    def show(self):
        return "Tuple[" + ", ".join(i.show() for i in self.items) + "]"

    def is_scalar(self):
        return all(i.is_scalar() for i in self.items)

    def sort(self):
        key = self.show()
        if key not in _TUPLE_SORTS:
            sorts = [t.sort() for t in self.items]  # nested tuple sorts first (they take their own names)
            name = "T" + str(len(_TUPLE_SORTS))
            dt = z3.Datatype(name)
            dt.declare("mk" + name, *[(f"f{name}_{i}", so) for i, so in enumerate(sorts)])
            _TUPLE_SORTS[key] = dt.create()
        return _TUPLE_SORTS[key]


class TRec(Ty):
    """Immutable value record (NamedTuple): Mutation, GRange."""

    def __init__(self, cls, fields):
        self.cls = cls
        self.fields = list(fields)  # [(name, Ty)]

    def show(self):
        return self.cls

    def is_scalar(self):
        return True

    def as_tuple(self):
        return TTuple([t for _, t in self.fields])

    def sort(self):
        return self.as_tuple().sort()


class TList(Ty):
    def __init__(self, elem):
        self.elem = elem

    def show(self):
        return f"List[{self.elem.show()}]"


class TDict(Ty):
    def __init__(self, k, v, default=None):
        self.k, self.v, self.default = k, v, default

    def show(self):
        d = f", default={self.default}" if self.default else ""
        return f"Dict[{self.k.show()}, {self.v.show()}{d}]"


class TSet(Ty):
    def __init__(self, k):
        self.k = k

    def show(self):
        return f"Set[{self.k.show()}]"


class TOpt(Ty):
    def __init__(self, inner):
        self.inner = inner

    def show(self):
        return f"Optional[{self.inner.show()}]"


class TUnion(Ty):
    def __init__(self, alts):
        self.alts = list(alts)

    def show(self):
        return "Union[" + ", ".join(a.show() for a in self.alts) + "]"


class TObj(Ty):
    """Mutable heap object described by the schema."""

    def __init__(self, cls):
        self.cls = cls

    def show(self):
        return "Obj:" + self.cls


class TFunc(Ty):
    """Callable parameter, modelled as a pure function of its arguments."""

    def __init__(self, args, ret):
        self.args, self.ret = args, ret

    def show(self):
        return "Callable[[" + ", ".join(a.show() for a in self.args) + "], " + self.ret.show() + "]"


class Schema:
    """Class table parsed from contracts/schema.py (a dict literal)."""

    def __init__(self, classes):
        self.classes = classes
        self._cache = {}

    def kind(self, cls):
        return self.classes[cls].get("kind", "obj")

    def field_ty(self, cls, f):
        spec = self.classes[cls]["fields"].get(f)
        if spec is None:
            for b in self.classes[cls].get("bases", []):
                t = self.field_ty(b, f)
                if t is not None:
                    return t
            return None
        return self.parse(spec)

    def fields(self, cls):
        return list(self.classes[cls]["fields"].keys())

    def qualname(self, cls):
        return self.classes[cls].get("qualname")

    def cls_of_qualname(self, q):
        for c, d in self.classes.items():
            if d.get("qualname") == q:
                return c
        return None

    def parse(self, s):
        if isinstance(s, Ty):
            return s
        if s in self._cache:
            return self._cache[s]
        t = self._parse_node(ast.parse(s, mode="eval").body)
        self._cache[s] = t
        return t

    def _parse_node(self, n):
        if isinstance(n, ast.Constant):
            if n.value is None:
                return TNone()
            if isinstance(n.value, str):
                return self.parse(n.value)
        if isinstance(n, ast.Name):
            nm = n.id
            if nm == "int":
                return TInt()
            if nm in ("float", "Number"):
                return TReal()
            if nm == "bool":
                return TBool()
            if nm == "str":
                return TStr()
            if nm == "None":
                return TNone()
            if nm in ("Any", "object"):
                return TAny()
            if nm == "LinExpr":
                return TLin()
            if nm == "LinVar":
                return TLinVar()
            if nm in self.classes:
                d = self.classes[nm]
                if d.get("kind") == "rec":
                    return TRec(nm, [(f, self.parse(t)) for f, t in d["fields"].items()])
                if d.get("kind") == "opaque":
                    return TAny(nm)
                if d.get("kind") == "alias":
                    return self.parse(d["type"])
                return TObj(nm)
            raise ValueError(f"unknown type name {nm}")
        if isinstance(n, ast.Attribute):
            return self._parse_node(ast.Name(id=n.attr))
        if isinstance(n, ast.Subscript):
            base = n.value.id if isinstance(n.value, ast.Name) else n.value.attr
            args = n.slice.elts if isinstance(n.slice, ast.Tuple) else [n.slice]
            if base in ("List", "list", "Iterable", "Sequence"):
                return TList(self._parse_node(args[0]))
            if base in ("Dict", "dict"):
                return TDict(self._parse_node(args[0]), self._parse_node(args[1]))
            if base == "DefaultDict":
                dflt = args[2].value if len(args) > 2 else "list"
                return TDict(self._parse_node(args[0]), self._parse_node(args[1]), default=dflt)
            if base in ("Set", "set"):
                return TSet(self._parse_node(args[0]))
            if base in ("Tuple", "tuple"):
                return TTuple([self._parse_node(a) for a in args])
            if base == "Optional":
                return TOpt(self._parse_node(args[0]))
            if base == "Union":
                return TUnion([self._parse_node(a) for a in args])
            if base == "Opaque":
                return TAny(args[0].id if isinstance(args[0], ast.Name) else str(args[0].value))
            if base == "Callable":
                a = [self._parse_node(x) for x in args[0].elts]
                return TFunc(a, self._parse_node(args[1]))
        raise ValueError(f"cannot parse type {ast.dump(n)}")
