"""Expression and statement semantics on top of symex.Exec."""
import ast
import z3

from . import front
from .ty import (TInt, TReal, TBool, TStr, TNone, TAny, TTuple, TRec, TList, TDict, TSet, TOpt,
                 TUnion, TObj, TFunc, TLin)
from .vals import *  # noqa
from .symex import (Exec, State, Frame, Obligation, t_and, t_or, t_not, t_ite, to_real, SPEC_BUILTINS)


def _mentions(t, ids):
    if not ids:
        return False
    seen = set()
    stack = [t]
    while stack:
        x = stack.pop()
        i = x.get_id()
        if i in seen:
            continue
        seen.add(i)
        if i in ids:
            return True
        if z3.is_quantifier(x):
            stack.append(x.body())
        elif z3.is_app(x):
            stack.extend(x.children())
    return False


class VPoison(V):
    def __init__(self, why):
        self.why = why


class VDebug(V):
    """The process-wide debug store (aldy.common.json): writes are dropped, reads are opaque."""


class VAccum(V):
    """A pre-existing local that the loop body only accumulates into (+=)."""

    def __init__(self, name, base):
        self.name, self.base = name, base


class Effect:
    def __init__(self, kind, root, path, value, guard, binders=(), name=None, where=""):
        self.kind, self.root, self.path, self.value, self.guard = kind, root, tuple(path), value, guard
        self.binders = tuple(binders)
        self.name = name
        self.where = where


class RecFrame:
    def __init__(self, binders, pc_len):
        self.binders = list(binders)
        self.pc_len = pc_len
        self.fresh = set()
        self.effects = []
        self.reads = []

    def clone(self):
        r = RecFrame(self.binders, self.pc_len)
        r.before = getattr(self, "before", set())
        r.fresh = set(self.fresh)
        r.effects = list(self.effects)
        r.reads = list(self.reads)
        return r

    def log_write(self, ex, st, ref, new):
        g = t_and(*st.pc[self.pc_len:])
        # a write below a cell this iteration already assigned: fold it into that assignment
        for e in self.effects:
            if e.kind == "set" and e.root == ref.root and not e.binders and len(e.path) < len(ref.path) \
                    and ex.same_path(e.path, ref.path[: len(e.path)]):
                e2 = Effect("set", e.root, e.path, ex.resolve(st, VRef(e.root, e.path)), e.guard if g.eq(e.guard) else t_and(e.guard), (), where=e.where)
                if not g.eq(e.guard):
                    break  # written under a different condition: keep as a separate effect
                self.effects[self.effects.index(e)] = e2
                return
        val = new
        if isinstance(val, VRef) and val.root not in getattr(self, "before", ()):
            # objects created inside the iteration are recorded by value (including nested containers)
            val = ex.deep_inline(st, ex.resolve(st, val))
        self.effects.append(Effect("set", ref.root, ref.path, val, g))


NUM = (VInt, VReal, VBool)


class Interp(Exec):

    # ------------------------------------------------------------------ fresh symbols under binders

    def fresh(self, st, base, sort):
        bs = self.cur_binders(st)
        # state-local numbering: a statement that is restarted after a case split must
        # re-create the same symbols (the snapshot restores the counter)
        st.nfresh += 1
        n = f"s{st.nfresh}"
        if not bs:
            return z3.Const(f"{base}!{n}", sort)
        f = z3.Function(f"{base}!{n}", *[b.sort() for b in bs], sort)
        return f(*bs)

    def fresh_const(self, st, base, sort):
        """Fresh *constant* (used for binders, which must be quantifiable)."""
        st.nfresh += 1
        return z3.Const(f"{base}!s{st.nfresh}", sort)

    def cur_binders(self, st):
        out = []
        for b in st.ghost.get("__binders__", ()):
            out.append(b)
        return out

    def push_binders(self, st, bs):
        if not st.ghost.get("__binders__", ()):
            st.ghost["__binder_pc__"] = len(st.pc)
        st.ghost["__binders__"] = tuple(st.ghost.get("__binders__", ())) + tuple(bs)

    def pop_binders(self, st, n):
        cur = tuple(st.ghost.get("__binders__", ()))
        st.ghost["__binders__"] = cur[: len(cur) - n] if n else cur

    def fresh_of(self, st, ty, base):
        """Fresh abstract value of a type (result of a call, havoc)."""
        bs = tuple(self.cur_binders(st))
        st.nfresh += 1
        n = f"s{st.nfresh}"
        v = self.mk_abstract(ty, f"{base}!{n}", bs)
        return self.heapify(st, v)

    def heapify(self, st, v):
        """Heap objects of a fresh abstract value get their own roots (also inside a result tuple)."""
        if isinstance(v, H):
            return self.alloc(st, v)
        if isinstance(v, VTuple) and any(isinstance(i, H) for i in v.items):
            return VTuple([self.alloc(st, i) if isinstance(i, H) else i for i in v.items])
        return v

    # ------------------------------------------------------------------ names

    def lookup_name(self, st, name, node=None):
        v = st.frame.lookup(name)
        if v is not None:
            if isinstance(v, VPoison):
                raise Unsupported(f"read of loop-carried variable '{name}' ({v.why})")
            if isinstance(v, VAccum):
                raise Unsupported(f"accumulator '{name}' is read inside the loop that accumulates it (order dependent)")
            return self.force(st, v) if isinstance(v, VLazy) else v
        if st.frame.spec or True:
            if name in self.ctx.specfuncs and st.frame.spec:
                return self.specname(st, name)
        fi = self.frame_finfo(st)
        if fi is not None:
            m = fi.module
            if name in m.globals:
                g = m.globals[name]
                if isinstance(g, ast.FunctionDef):
                    return VFunc("global", qualname=f"{m.name}.{name}")
                if isinstance(g, ast.ClassDef):
                    return VClass(name)
                # module-level constant
                try:
                    c = ast.literal_eval(g)
                    return self.const(c)
                except Exception:
                    return VFunc("globalvar", qualname=f"{m.name}.{name}")
            if name in m.imports:
                q = m.imports[name]
                return self.imported(q)
        if name in self.ctx.specfuncs:
            return self.specname(st, name)
        if name in BUILTIN_NAMES or name in SPEC_BUILTINS or name in SPEC_FUNCS:
            return VFunc("builtin", name=name)
        if name in ("True", "False", "None"):
            return self.const({"True": True, "False": False, "None": None}[name])
        if name in self.schema.classes:
            return VClass(name)
        if name in BUILTIN_CLASSES or name in ENUMS:
            return VClass(name)
        raise Unsupported(f"unknown name {name}")

    def specname(self, st, name):
        x = self.ctx.specfuncs[name]
        if isinstance(x, tuple) and x[0] == "const":
            c = self.const(x[1])
            if isinstance(c, tuple) and c[0] == "list":
                return self.alloc(st, HList(c[1]))
            return c
        return VFunc("spec", name=name, node=x)

    def frame_finfo(self, st):
        f = st.frame
        while f is not None:
            if f.finfo is not None:
                return f.finfo
            f = f.parent
        return None

    def imported(self, q):
        if q == "aldy.common.json":
            return VDebug()
        if q in STD_FUNCS:
            return VFunc("std", name=STD_FUNCS[q])
        last = q.split(".")[-1]
        if last in self.schema.classes:
            return VClass(last)
        if last in BUILTIN_CLASSES:
            return VClass(last)
        fi = front.find_function(q)
        if fi is not None:
            return VFunc("global", qualname=q)
        # module-level constant of an aldy module?
        parts = q.rsplit(".", 1)
        if len(parts) == 2:
            try:
                m = front.load_module(parts[0])
                if parts[1] in m.globals and not isinstance(m.globals[parts[1]], (ast.FunctionDef, ast.ClassDef)):
                    try:
                        return self.const(ast.literal_eval(m.globals[parts[1]]))
                    except Exception:
                        return VFunc("globalvar", qualname=q)
                if parts[1] in m.globals and isinstance(m.globals[parts[1]], ast.ClassDef):
                    return VClass(parts[1])
            except FileNotFoundError:
                pass
        return VModule(q)

    def const(self, c):
        if c is None:
            return VNone()
        if isinstance(c, bool):
            return VBool(c)
        if isinstance(c, int):
            return VInt(c)
        if isinstance(c, float):
            return VReal(c)
        if isinstance(c, str):
            return VStr(c)
        if isinstance(c, tuple):
            return VTuple([self.const(x) for x in c])
        if isinstance(c, list):
            return ("list", [self.const(x) for x in c])
        raise Unsupported(f"constant {c!r}")

    # ------------------------------------------------------------------ expressions

    def ev(self, node, st):
        m = getattr(self, "ev_" + type(node).__name__, None)
        if m is None:
            raise Unsupported(f"expression {type(node).__name__} at {self.where(node, st)}")
        return m(node, st)

    def ev_Constant(self, node, st):
        if node.value is Ellipsis:
            return VNone()
        return self.const(node.value)

    def ev_Name(self, node, st):
        return self.lookup_name(st, node.id, node)

    def ev_Tuple(self, node, st):
        items = []
        for e in node.elts:
            if isinstance(e, ast.Starred):
                items.extend(self.concrete_items(st, self.ev(e.value, st)))
            else:
                items.append(self.ev(e, st))
        return VTuple(items)

    def ev_List(self, node, st):
        items = []
        for e in node.elts:
            if isinstance(e, ast.Starred):
                items.extend(self.concrete_items(st, self.ev(e.value, st)))
            else:
                items.append(self.ev(e, st))
        return self.alloc(st, HList(items))

    def ev_Set(self, node, st):
        return self.alloc(st, HPySet([self.ev(e, st) for e in node.elts]))

    def ev_Dict(self, node, st):
        items = []
        for k, v in zip(node.keys, node.values):
            if k is None:
                src = self.ev(v, st)
                h = self.resolve(st, src) if isinstance(src, VRef) else None
                if isinstance(h, HPyDict):
                    for kk, vv in h.items:
                        items = [(a, b) for a, b in items if not self.const_eq(a, kk)] + [(kk, vv)]
                    continue
                raise Unsupported("** of abstract dict in dict display")
            kv = self.ev(k, st)
            vv = self.ev(v, st)
            items = [(a, b) for a, b in items if not self.const_eq(a, kv)] + [(kv, vv)]
        return self.alloc(st, HPyDict(items))

    def ev_JoinedStr(self, node, st):
        parts = []
        template, holes = "", []
        for p in node.values:
            if isinstance(p, ast.Constant):
                parts.append(z3.StringVal(p.value))
                template += p.value
            else:
                v = self.force(st, self.ev(p.value, st))
                holes.append(v)
                template += "{}"
                try:
                    parts.append(self.to_str(st, v, p.format_spec))
                except Unsupported:
                    parts.append(self.fresh(st, "str", z3.StringSort()))
        if not parts:
            return VStr("")
        return VStr(parts[0] if len(parts) == 1 else z3.Concat(*parts), template, holes)

    def to_str(self, st, v, fmt=None):
        v = self.force(st, v)
        if isinstance(v, VDyn):
            return self.dyn_apply(st, v, lambda x: self.to_str(st, x, fmt))
        if isinstance(v, VBool) and fmt is None:
            return t_ite(v.t, z3.StringVal("True"), z3.StringVal("False"))
        if fmt is not None:
            spec = "".join(x.value for x in fmt.values if isinstance(x, ast.Constant))
            return self.opaque_str(st, "fmt:" + spec, v)
        if isinstance(v, VStr):
            return v.t
        if isinstance(v, VInt):
            f = self.ctx.ufunc("str_of_int", z3.IntSort(), z3.StringSort())
            t = z3.simplify(v.t)
            if z3.is_int_value(t):
                return z3.StringVal(str(t.as_long()))
            return f(v.t)
        if isinstance(v, VRec) and v.cls == "Mutation":
            pos, op = v.items
            return z3.Concat(self.to_str(st, VInt(pos.t + 1)), z3.StringVal("."), op.t)
        return self.opaque_str(st, "str", v)

    def opaque_str(self, st, tag, v):
        try:
            ty = self.type_of(v)
            t = self.lower(v, ty)
            f = self.ctx.ufunc(f"{tag}<{ty.show()}>", t.sort(), z3.StringSort())
            return f(t)
        except Unsupported:
            return self.fresh(st, "str", z3.StringSort())

    def ev_IfExp(self, node, st):
        c = self.cond(st, node.test)
        cs = z3.simplify(c)
        if z3.is_true(cs) or any(p.eq(cs) for p in st.pc):
            return self.ev(node.body, st)
        ncs = z3.simplify(z3.Not(cs))
        if z3.is_false(cs) or any(p.eq(ncs) for p in st.pc):
            return self.ev(node.orelse, st)
        DEAD = VPoison("value of an infeasible branch")
        a = self.guarded(st, c, lambda: self.force(st, self.ev(node.body, st)), dead=DEAD)
        b = self.guarded(st, t_not(c), lambda: self.force(st, self.ev(node.orelse, st)), dead=DEAD)
        if a is DEAD:
            return b
        if b is DEAD:
            return a
        try:
            if isinstance(a, VRef) and isinstance(b, VRef) and not (a.root == b.root and a.path == b.path):
                h = self.v_ite(c, self.resolve(st, a), self.resolve(st, b))
                if isinstance(h, H):
                    st.aliases.append((a.root, a.path))
                    st.aliases.append((b.root, b.path))
                    return self.alloc(st, h)
            return self.v_ite(c, a, b)
        except NeedSplit:
            self.decide(st, cs)
            raise

    def force_shallow(self, st, v):
        return v

    def guarded(self, st, c, fn, dead=None):
        n = len(st.pc)
        st.pc.append(c)
        try:
            return fn()
        except NeedSplit as ns:
            del st.pc[n:]
            nsb = set(st.ghost.get("__nosplit__", ()))
            if ns.alts is None and ns.cond is not None and not _mentions(ns.cond, nsb):
                raise  # a case split on a condition that does not involve bound variables is always sound
            cs = z3.simplify(c)
            if z3.is_true(cs) or self.implied(st, cs):
                raise
            if _mentions(cs, nsb):
                raise Unsupported("case split needed below a bound variable")
            raise NeedSplit(cs)
        except Unsupported:
            # under an infeasible guard the value is irrelevant
            del st.pc[n:]
            if dead is not None and self.implied(st, z3.simplify(z3.Not(c))):
                return dead
            raise
        finally:
            del st.pc[n:]

    def cond(self, st, node):
        """Evaluate an expression in boolean context -> z3 Bool."""
        if isinstance(node, ast.BoolOp):
            acc = []
            n = len(st.pc)
            try:
                for e in node.values:
                    try:
                        c = self.cond(st, e)
                    except Unsupported:
                        g = t_and(*st.pc[n:])
                        del st.pc[n:]
                        if acc and self.implied(st, z3.simplify(z3.Not(g))):
                            break
                        raise
                    acc.append(c)
                    cs = z3.simplify(c)
                    if (z3.is_false(cs) and isinstance(node.op, ast.And)) or (z3.is_true(cs) and isinstance(node.op, ast.Or)):
                        break
                    st.pc.append(c if isinstance(node.op, ast.And) else t_not(c))
            finally:
                del st.pc[n:]
            return t_and(*acc) if isinstance(node.op, ast.And) else t_or(*acc)
        if isinstance(node, ast.UnaryOp) and isinstance(node.op, ast.Not):
            return t_not(self.cond(st, node.operand))
        return self.truth(st, self.force(st, self.ev(node, st)))

    def ev_BoolOp(self, node, st):
        # value semantics of and/or
        vals = node.values
        cur = self.force(st, self.ev(vals[0], st))
        for e in vals[1:]:
            tc = z3.simplify(self.truth(st, cur))
            take_next = tc if isinstance(node.op, ast.And) else t_not(tc)
            if z3.is_false(z3.simplify(take_next)):
                return cur
            if z3.is_true(z3.simplify(take_next)):
                cur = self.force(st, self.ev(e, st))
                continue
            nxt = self.guarded(st, take_next, lambda: self.force(st, self.ev(e, st)), dead=cur)
            if isinstance(cur, VBool) and isinstance(nxt, VBool):
                cur = VBool(t_and(cur.t, nxt.t) if isinstance(node.op, ast.And) else t_or(cur.t, nxt.t))
            else:
                try:
                    cur = self.v_ite(take_next, nxt, cur)
                except NeedSplit:
                    # shapes differ (e.g. None or list): collapse to truthiness when both sides are
                    # only usable as conditions, otherwise fork
                    raise NeedSplit(z3.simplify(tc))
        return cur

    def ev_UnaryOp(self, node, st):
        if isinstance(node.op, ast.Not):
            return VBool(t_not(self.cond(st, node.operand)))
        v = self.force(st, self.ev(node.operand, st))
        if isinstance(node.op, ast.USub):
            if isinstance(v, VInt):
                return VInt(-v.t)
            if isinstance(v, VReal):
                return VReal(-v.t)
            if isinstance(v, VLin):
                return VLin(-v.t)
            if isinstance(v, VBool):
                return VInt(-self.as_int(v))
        if isinstance(node.op, ast.UAdd):
            return v
        raise Unsupported(f"unary {type(node.op).__name__} on {v!r}")

    def ev_BinOp(self, node, st):
        a = self.force(st, self.ev(node.left, st))
        b = self.force(st, self.ev(node.right, st))
        return self.binop(st, node.op, a, b, node)

    def binop(self, st, op, a, b, node=None):
        if isinstance(a, VDyn):
            return self.dyn_apply(st, a, lambda x: self.binop(st, op, x, b, node))
        if isinstance(b, VDyn):
            return self.dyn_apply(st, b, lambda x: self.binop(st, op, a, x, node))
        if isinstance(a, VLin) or isinstance(b, VLin):
            return self.lin_binop(st, op, a, b, node)
        if isinstance(a, NUM) and isinstance(b, NUM):
            isint = isinstance(a, (VInt, VBool)) and isinstance(b, (VInt, VBool))
            ta = self.as_int(a) if isinstance(a, VBool) else a.t
            tb = self.as_int(b) if isinstance(b, VBool) else b.t
            if not isint:
                ta, tb = to_real(ta), to_real(tb)
            mk = VInt if isint else VReal
            if isinstance(op, ast.Add):
                return mk(ta + tb)
            if isinstance(op, ast.Sub):
                return mk(ta - tb)
            if isinstance(op, ast.Mult):
                return mk(ta * tb)
            if isinstance(op, ast.Div):
                self.oblige(st, "zerodiv", tb != 0, where=self.where(node, st))
                return VReal(to_real(ta) / to_real(tb))
            if isinstance(op, ast.FloorDiv) and isint:
                self.oblige(st, "zerodiv", tb != 0, where=self.where(node, st))
                # Python floor division; z3 div is floor for positive divisors
                return VInt(z3.If(tb > 0, ta / tb, -((-ta) / (-tb)) if False else z3.If(ta % tb == 0, ta / tb, ta / tb)))
            if isinstance(op, ast.Mod) and isint:
                self.oblige(st, "zerodiv", tb != 0, where=self.where(node, st))
                return VInt(z3.If(tb > 0, ta % tb, -((-ta) % (-tb))))
            if isinstance(op, ast.Pow):
                ok, e = pyconst(b)
                if ok and isinstance(e, int) and 0 <= e <= 4:
                    r = z3.IntVal(1) if isint else z3.RealVal(1)
                    for _ in range(e):
                        r = r * ta
                    return mk(r)
        if isinstance(a, VStr) and isinstance(b, VStr) and isinstance(op, ast.Add):
            return VStr(z3.Concat(a.t, b.t))
        if isinstance(a, VStr) and isinstance(b, VInt) and isinstance(op, ast.Mult):
            return VStr(self.str_repeat(a.t, b.t, st))
        if isinstance(a, (VTuple,)) and isinstance(b, VTuple) and isinstance(op, ast.Add):
            return VTuple(a.items + b.items)
        if isinstance(a, VRef) or isinstance(b, VRef):
            return self.container_binop(st, op, a, b, node)
        if isinstance(a, VFam) or isinstance(b, VFam):
            return self.container_binop(st, op, a, b, node)
        if isinstance(a, VStr) and isinstance(op, ast.Mod):
            return VStr(self.fresh(st, "fmt", z3.StringSort()))
        raise Unsupported(f"binary {type(op).__name__} on {a!r}, {b!r}")

    def str_repeat(self, s, n, st=None):
        """s * n as an uninterpreted function; for a literal s the facts of Python's str.__mul__ are recorded for this
        occurrence as axioms: the length, and for a one-character literal every character."""
        f = self.ctx.ufunc("str_repeat", z3.StringSort(), z3.IntSort(), z3.StringSort())
        s2 = z3.simplify(s)
        t = f(s2, n)
        if st is not None and z3.is_string_value(s2):
            key = ("str_repeat_ax", t.sexpr())
            if key not in st.ghost:
                st.ghost[key] = True
                ln = len(s2.as_string())
                st.axioms.append(z3.Length(t) == z3.If(n > 0, ln * n, 0))
                if ln == 1:
                    k = z3.Int("rx!k")
                    st.axioms.append(z3.ForAll([k], z3.Implies(z3.And(0 <= k, k < n), z3.SubString(t, k, 1) == s2)))
        return t

    def lin_binop(self, st, op, a, b, node):
        def t(x):
            if isinstance(x, VLin):
                return x.t
            if isinstance(x, NUM):
                return to_real(self.as_int(x) if isinstance(x, VBool) else x.t)
            raise Unsupported(f"linear expression combined with {x!r}")
        if isinstance(op, ast.Add):
            return VLin(t(a) + t(b))
        if isinstance(op, ast.Sub):
            return VLin(t(a) - t(b))
        if isinstance(op, ast.Mult):
            if isinstance(a, VLin) and isinstance(b, VLin):
                raise Unsupported("product of two linear expressions")
            return VLin(t(a) * t(b))
        if isinstance(op, ast.Div):
            if isinstance(b, VLin):
                raise Unsupported("division by a linear expression")
            self.oblige(st, "zerodiv", t(b) != 0, where=self.where(node, st))
            return VLin(t(a) / t(b))
        raise Unsupported("operator on linear expression")

    def ev_Compare(self, node, st):
        left = self.force(st, self.ev(node.left, st))
        acc = []
        n = len(st.pc)
        try:
            for op, rn in zip(node.ops, node.comparators):
                right = self.force(st, self.ev(rn, st))
                c = self.compare(st, op, left, right, node)
                acc.append(c)
                st.pc.append(c)
                left = right
        finally:
            del st.pc[n:]
        if len(acc) == 1 and isinstance(acc[0], V):
            return acc[0]
        return VBool(t_and(*acc)) if all(z3.is_bool(x) for x in acc) else acc[0]

    def compare(self, st, op, a, b, node=None):
        if isinstance(a, VDyn):
            return self.dyn_apply(st, a, lambda x: self.compare(st, op, x, b, node))
        if isinstance(b, VDyn) and not isinstance(op, (ast.In, ast.NotIn)):
            return self.dyn_apply(st, b, lambda x: self.compare(st, op, a, x, node))
        if isinstance(op, ast.Eq):
            return self.eq(st, a, b)
        if isinstance(op, ast.NotEq):
            return t_not(self.eq(st, a, b))
        if isinstance(op, ast.Is):
            if isinstance(b, VNone) or isinstance(a, VNone):
                return z3.BoolVal(isinstance(a, VNone) and isinstance(b, VNone))
            if isinstance(a, VRef) and isinstance(b, VRef):
                ca, cb = self.canon(st, a), self.canon(st, b)
                if ca.root != cb.root:
                    return z3.BoolVal(False)
                if ca.path == cb.path:
                    return z3.BoolVal(True)
            if isinstance(a, VBool) and isinstance(b, VBool):
                return a.t == b.t
            raise Unsupported("'is' on values other than None / references")
        if isinstance(op, ast.IsNot):
            return t_not(self.compare(st, ast.Is(), a, b, node))
        if isinstance(op, ast.In):
            return self.contains(st, b, a)
        if isinstance(op, ast.NotIn):
            return t_not(self.contains(st, b, a))
        # ordering
        if isinstance(a, (VLin,)) or isinstance(b, (VLin,)):
            def t(x):
                return x.t if isinstance(x, VLin) else to_real(self.as_int(x) if isinstance(x, VBool) else x.t)
            ta, tb = t(a), t(b)
            c = {ast.Lt: ta < tb, ast.LtE: ta <= tb, ast.Gt: ta > tb, ast.GtE: ta >= tb}[type(op)]
            if isinstance(op, (ast.Lt, ast.Gt)):
                raise Unsupported("strict inequality constraint")
            return VConstr(c, ta - tb if isinstance(op, ast.LtE) else tb - ta)
        if isinstance(a, NUM) and isinstance(b, NUM):
            ta = self.as_int(a) if isinstance(a, VBool) else a.t
            tb = self.as_int(b) if isinstance(b, VBool) else b.t
            if ta.sort() != tb.sort():
                ta, tb = to_real(ta), to_real(tb)
            return {ast.Lt: ta < tb, ast.LtE: ta <= tb, ast.Gt: ta > tb, ast.GtE: ta >= tb}[type(op)]
        if isinstance(a, VStr) and isinstance(b, VStr):
            lt = self.ctx.ufunc("str_lt", z3.StringSort(), z3.StringSort(), z3.BoolSort())
            if isinstance(op, ast.Lt):
                return lt(a.t, b.t)
            if isinstance(op, ast.Gt):
                return lt(b.t, a.t)
            if isinstance(op, ast.LtE):
                return t_or(lt(a.t, b.t), a.t == b.t)
            return t_or(lt(b.t, a.t), a.t == b.t)
        if isinstance(a, (VTuple, VRec)) and isinstance(b, (VTuple, VRec)):
            return self.lex_compare(st, op, list(a.items), list(b.items))
        raise Unsupported(f"ordering of {a!r} and {b!r}")

    def lex_compare(self, st, op, xs, ys):
        strict = isinstance(op, (ast.Lt, ast.Gt))
        less = ast.Lt() if isinstance(op, (ast.Lt, ast.LtE)) else ast.Gt()
        if not xs or not ys:
            if isinstance(op, ast.Lt):
                return z3.BoolVal(len(xs) < len(ys))
            if isinstance(op, ast.LtE):
                return z3.BoolVal(len(xs) <= len(ys))
            if isinstance(op, ast.Gt):
                return z3.BoolVal(len(xs) > len(ys))
            return z3.BoolVal(len(xs) >= len(ys))
        h = self.compare(st, less, xs[0], ys[0])
        e = self.eq(st, xs[0], ys[0])
        return t_or(h, t_and(e, self.lex_compare(st, op, xs[1:], ys[1:])))

    def contains(self, st, cont, x):
        cont = self.force(st, cont)
        x = self.force_key(st, x)
        if isinstance(x, VDyn):
            x = self.narrow(st, x)
        if isinstance(cont, VStr) and isinstance(x, VStr):
            return z3.Contains(cont.t, x.t)
        if isinstance(cont, VTuple):
            return t_or(*[self.eq(st, i, x) for i in cont.items])
        if isinstance(cont, VFunc) and cont.kind == "objdict":
            h = self.resolve(st, cont.recv)
            return t_or(*[self.eq(st, VStr(n), x) for n in self.schema.fields(h.cls)])
        if isinstance(cont, VFam):
            return self.exists(cont.binders, t_and(cont.guard, self.eq(st, cont.elem, x)))
        if isinstance(cont, (VRef, H)):
            h = self.resolve(st, cont) if isinstance(cont, VRef) else cont
            if isinstance(h, HObj) and isinstance(cont, VRef):
                return self.obj_contains(st, cont, h, x)
            if isinstance(h, (HList, HPySet)):
                return t_or(*[self.eq(st, i, x) for i in h.items])
            if isinstance(h, HPyDict):
                return t_or(*[self.eq(st, k, x) for k, _ in h.items])
            if isinstance(h, HDict):
                return subst(h.dom, [(h.binder, self.lower(x, h.kty))])
            if isinstance(h, HSet):
                return subst(h.mem, [(h.binder, self.lower(x, h.kty))])
            if isinstance(h, HSeq):
                return z3.Contains(h.t, z3.Unit(self.lower(x, h.elem_ty)))
            if isinstance(h, HListC):
                i = self.fresh(st, "i", z3.IntSort())
                return self.exists([i], t_and(0 <= i, i < h.length, self.vh_eq(st, subst(h.elem, [(h.binder, i)]), x)))
        raise Unsupported(f"'in' on {cont!r}")

    def obj_contains(self, st, ref, h, x):
        """`x in obj` for classes with __contains__ (by contract)."""
        q = self.schema.qualname(h.cls)
        return self.truth(st, self.call_method(st, ref, "__contains__", [x], {}, None))

    def ev_Attribute(self, node, st):
        obj = self.force(st, self.ev(node.value, st))
        return self.getattr(st, obj, node.attr, node)

    def getattr(self, st, obj, name, node=None):
        if isinstance(obj, VDebug):
            return VFunc("debugmethod", name=name)
        if isinstance(obj, VDyn) and any(isinstance(x, VRec) and name in x.names for _, x in obj.alts):
            return self.dyn_apply(st, obj, lambda x: self.getattr(st, x, name, node))
        if isinstance(obj, VRec):
            if name in obj.names:
                return obj.get(name)
            return VFunc("bound", recv=obj, name=name)
        if isinstance(obj, VRef):
            h = self.resolve(st, obj)
            if isinstance(h, HObj):
                if name == "__dict__":
                    return VFunc("objdict", recv=obj)
                has = name in h.fields or (h.cls in self.schema.classes and self.schema.field_ty(h.cls, name) is not None)
                if has:
                    return self.load(st, VRef(obj.root, obj.path + (("f", name),)))
                return VFunc("bound", recv=obj, name=name)
            return VFunc("bound", recv=obj, name=name)
        if isinstance(obj, (VStr, VTuple, VFam, VInt, VReal, VDyn, VLin)):
            return VFunc("bound", recv=obj, name=name)
        if isinstance(obj, VModule):
            return self.imported(obj.name + "." + name)
        if isinstance(obj, VClass):
            if obj.name in self.schema.classes:
                q = self.schema.qualname(obj.name)
                if q:
                    return VFunc("global", qualname=f"{q}.{name}", unbound=True)
            if obj.name in ENUMS and name in ENUMS[obj.name]:
                return VInt(ENUMS[obj.name][name])
            return VFunc("classattr", cls=obj.name, name=name)
        if isinstance(obj, VFunc) and obj.kind == "globalvar":
            return VFunc("globalvar", qualname=obj.qualname + "." + name)
        if isinstance(obj, VOpaque):
            return VFunc("opaqueattr", recv=obj, name=name)
        if isinstance(obj, VExc):
            return VFunc("bound", recv=obj, name=name)
        raise Unsupported(f"attribute {name} of {obj!r}")

    def ev_Subscript(self, node, st):
        obj = self.force(st, self.ev(node.value, st))
        if isinstance(node.slice, ast.Slice):
            return self.slice(st, obj, node.slice, node)
        idx = self.force_key(st, self.ev(node.slice, st))
        return self.getitem(st, obj, idx, node)

    def force_key(self, st, idx):
        """A subscript key: lazily typed components of a tuple key (Optional / Union locals) are resolved too."""
        idx = self.force(st, idx)
        if isinstance(idx, VTuple) and any(isinstance(i, VLazy) for i in idx.items):
            idx = VTuple([self.force(st, i) for i in idx.items])
        return idx

    def getitem(self, st, obj, idx, node=None):
        if isinstance(obj, VDebug):
            return VDebug()
        if isinstance(idx, VDyn):
            idx = self.narrow(st, idx)
        if isinstance(obj, (VTuple, VRec)):
            ok, i = pyconst(idx)
            if not ok:
                raise Unsupported("symbolic index into tuple")
            return obj.items[i]
        if isinstance(obj, VStr):
            i = self.as_int(idx)
            n = z3.Length(obj.t)
            self.oblige(st, "indexerror", z3.And(i < n, i >= -n), where=self.where(node, st))
            i2 = self.norm_index(st, i, n)
            return VStr(z3.SubString(obj.t, i2, 1))
        if isinstance(obj, VFunc) and obj.kind == "objdict":
            return self.objdict_get(st, obj.recv, idx, node)
        if isinstance(obj, VRef):
            h = self.resolve(st, obj)
            if isinstance(h, HObj):
                return self.call_method(st, obj, "__getitem__", [idx], {}, node)
            if isinstance(h, HDict):
                kt = self.lower(idx, h.kty)
                indom = subst(h.dom, [(h.binder, kt)])
                if h.default is None:
                    self.oblige(st, "keyerror", indom, where=self.where(node, st))
                    self.log_read(st, obj, idx)
                    return self.load(st, VRef(obj.root, obj.path + (("k", idx),)))
                # defaultdict: insert on miss
                ref = VRef(obj.root, obj.path + (("k", idx),))
                if h.default == "int":
                    # reading a missing key of a defaultdict(int) inserts a zero entry; that insertion is
                    # not modelled (it is unobservable through sums; len()/iteration would see it)
                    note = "defaultdict(int) zero-insertion on read is not modelled"
                    if note not in self.ctx.notes:
                        self.ctx.notes.append(note)
                    cur = subst(h.val, [(h.binder, kt)])
                    return self.v_ite(indom, cur, VInt(0))
                if not z3.is_true(z3.simplify(indom)) and not self.implied(st, indom):
                    cur = self.v_ite(indom, subst(h.val, [(h.binder, kt)]), self.default_h(h))
                    self.write(st, ref, cur if not isinstance(cur, H) else self.alloc(st, cur))
                return self.load(st, ref)
            if isinstance(h, HPyDict) and not pyconst(idx)[0] and h.items and h.default is None:
                # symbolic key into a concrete dict: if-then-else chain over the entries
                eqs = [self.eq(st, k, idx) for k, _ in h.items]
                self.oblige(st, "keyerror", t_or(*eqs), where=self.where(node, st))
                vals = [self.load(st, VRef(obj.root, obj.path + (("k", k),))) for k, _ in h.items]
                cur = vals[-1]
                for e, v in zip(reversed(eqs[:-1]), reversed(vals[:-1])):
                    cur = self.v_ite(e, v, cur)
                return cur
            if isinstance(h, HPyDict):
                for k, v in h.items:
                    if self.const_eq(k, idx):
                        return self.load(st, VRef(obj.root, obj.path + (("k", idx),)))
                if h.default is not None:
                    d = {"list": HList([]), "int": VInt(0), "dict": HPyDict([]), "set": HPySet([])}[h.default]
                    ref = VRef(obj.root, obj.path + (("k", idx),))
                    self.write(st, ref, d if isinstance(d, V) else self.alloc(st, d))
                    return self.load(st, ref)
                self.oblige(st, "keyerror", z3.BoolVal(False), where=self.where(node, st))
                raise Unsupported("concrete dict lookup of a missing key")
            if isinstance(h, HSeq):
                i = self.as_int(idx)
                n = z3.Length(h.t)
                self.oblige(st, "indexerror", z3.And(i < n, i >= -n), where=self.where(node, st))
                i2 = self.norm_index(st, i, n)
                return self.lift(h.t[i2], h.elem_ty)
            if isinstance(h, HList):
                ok, i = pyconst(idx)
                if not ok:
                    # symbolic index into a concrete list: chain of ite
                    it = self.as_int(idx)
                    n = len(h.items)
                    self.oblige(st, "indexerror", z3.And(it < n, it >= -n), where=self.where(node, st))
                    if n == 0:
                        raise Unsupported("index into empty list")
                    cur = h.items[-1]
                    for j in range(n - 2, -1, -1):
                        cur = self.v_ite(t_or(it == j, it == j - n), h.items[j], cur)
                    return cur
                if not -len(h.items) <= i < len(h.items):
                    self.oblige(st, "indexerror", z3.BoolVal(False), where=self.where(node, st))
                    raise Unsupported("constant index out of range")
                if i < 0:
                    i += len(h.items)
                return self.load(st, VRef(obj.root, obj.path + (("k", VInt(i)),)))
            if isinstance(h, HListC):
                i = self.as_int(idx)
                self.oblige(st, "indexerror", z3.And(i < h.length, i >= -h.length), where=self.where(node, st))
                i2 = self.norm_index(st, i, h.length)
                return self.load(st, VRef(obj.root, obj.path + (("k", VInt(i2)),)))
        if isinstance(obj, VFam):
            ok, i0 = pyconst(idx)
            if ok and i0 == 0:
                # first element of a comprehension-shaped list: some element (the first in iteration order)
                self.oblige(st, "indexerror", self.exists(obj.binders, obj.guard), where=self.where(node, st))
                wit = [self.fresh(st, "first", b.sort()) for b in obj.binders]
                pairs = list(zip(obj.binders, wit))
                st.pc.append(z3.substitute(obj.guard, *pairs))
                if obj.seqsrc is None:
                    note = f"element [0] of a list built from an unordered collection at {self.where(node, st)}: any element (order not modelled)"
                    if note not in self.ctx.notes:
                        self.ctx.notes.append(note)
                return subst(obj.elem, pairs)
            raise Unsupported("subscript of a comprehension value")
        raise Unsupported(f"subscript of {obj!r}")

    def norm_index(self, st, i, n):
        """Python index normalisation; indices known to be non-negative stay as they are."""
        si = z3.simplify(i)
        if z3.is_int_value(si):
            return si if si.as_long() >= 0 else z3.simplify(n + si)
        if self.implied(st, i >= 0):
            return i
        return z3.simplify(z3.If(i >= 0, i, n + i))

    def log_read(self, st, ref, idx):
        if st.rec:
            # the guard is materialised lazily (only reads of containers the loop writes are ever inspected)
            st.rec[-1].reads.append((ref, idx, tuple(st.pc[st.rec[-1].pc_len:])))

    def objdict_get(self, st, recv, idx, node):
        h = self.resolve(st, recv)
        ok, name = pyconst(idx)
        if ok:
            return self.getattr(st, recv, name, node)
        # symbolic attribute name: multiway split over the schema's field names
        names = self.schema.fields(h.cls)
        self.oblige(st, "keyerror", t_or(*[idx.t == n for n in names]), where=self.where(node, st))
        return self.getattr(st, recv, self.pick_name(st, idx, names), node)

    def pick_name(self, st, idx, names):
        for n in names:
            c = idx.t == z3.StringVal(n)
            if any(p.eq(c) for p in st.pc):
                return n
        cands = [n for n in names if not self.implied(st, idx.t != z3.StringVal(n))]
        if len(cands) == 1 and self.implied(st, idx.t == z3.StringVal(cands[0])):
            return cands[0]
        if not cands:
            raise Unsupported("attribute name outside the schema (infeasible path)")
        raise NeedSplit(None, alts=[idx.t == z3.StringVal(n) for n in cands])

    def slice(self, st, obj, sl, node):
        lo = self.force(st, self.ev(sl.lower, st)) if sl.lower is not None else None
        hi = self.force(st, self.ev(sl.upper, st)) if sl.upper is not None else None
        step = self.force(st, self.ev(sl.step, st)) if sl.step is not None else None
        if step is not None:
            ok, s = pyconst(step)
            if not ok or s not in (1, -1):
                raise Unsupported("slice step")
            if s == -1:
                if lo is None and hi is None and isinstance(obj, VStr):
                    f = self.ctx.ufunc("str_reverse", z3.StringSort(), z3.StringSort())
                    return VStr(f(obj.t))
                if lo is None and hi is None and isinstance(obj, VRef):
                    h = self.resolve(st, obj)
                    if isinstance(h, HList):
                        return self.alloc(st, HList(list(reversed(h.items))))
                raise Unsupported("reversed slice")

        def norm(seq_len, v, dflt):
            if v is None:
                return dflt
            t = self.as_int(v)
            return z3.If(t < 0, z3.If(seq_len + t < 0, 0, seq_len + t), z3.If(t > seq_len, seq_len, t))
        if isinstance(obj, VStr):
            n = z3.Length(obj.t)
            a, b = norm(n, lo, z3.IntVal(0)), norm(n, hi, n)
            return VStr(z3.simplify(z3.SubString(obj.t, a, z3.If(b - a < 0, 0, b - a))))
        if isinstance(obj, VTuple):
            ok1, a = pyconst(lo) if lo is not None else (True, None)
            ok2, b = pyconst(hi) if hi is not None else (True, None)
            if ok1 and ok2:
                return VTuple(obj.items[a:b])
        if isinstance(obj, VRef):
            h = self.resolve(st, obj)
            if isinstance(h, HSeq):
                n = z3.Length(h.t)
                a, b = norm(n, lo, z3.IntVal(0)), norm(n, hi, n)
                return self.alloc(st, HSeq(h.elem_ty, z3.simplify(z3.SubSeq(h.t, a, z3.If(b - a < 0, 0, b - a)))))
            if isinstance(h, HList):
                ok1, a = pyconst(lo) if lo is not None else (True, None)
                ok2, b = pyconst(hi) if hi is not None else (True, None)
                if ok1 and ok2:
                    return self.alloc(st, HList(h.items[a:b]))
            if isinstance(h, HObj):
                # obj[a:b] on a class with __getitem__: the method receives slice(a, b), modelled as the value record
                # "slice" (start, stop) of the schema; open-ended slices of objects are not modelled
                if "slice" in self.schema.classes and lo is not None and hi is not None and step is None:
                    return self.call_method(st, obj, "__getitem__", [VRec("slice", ("start", "stop"), (lo, hi))], {}, node)
                raise Unsupported("open-ended slice of an object")
        raise Unsupported(f"slice of {obj!r}")

    def ev_Lambda(self, node, st):
        return VFunc("ast", node=node, closure=st.frame, finfo=self.frame_finfo(st), name="<lambda>")

    def ev_Starred(self, node, st):
        raise Unsupported("starred expression")

    def ev_NamedExpr(self, node, st):
        v = self.ev(node.value, st)
        st.frame.env[node.target.id] = v
        return v

    # comprehension / calls / statements live in interp2 (mixed in)


STD_FUNCS = {
    "copy.copy": "copy", "copy.deepcopy": "deepcopy", "functools.partial": "partial",
    "natsort.natsorted": "natsorted", "math.ceil": "ceil", "math.floor": "floor", "statistics.mean": "mean",
    "collections.defaultdict": "defaultdict", "collections.Counter": "Counter",
    "re.split": "re.split", "re.match": "re.match", "os.path.exists": "os.path.exists",
    "os.path.isfile": "os.path.isfile", "os.path.splitext": "os.path.splitext", "os.path.basename": "os.path.basename",
    "os.path.abspath": "os.path.abspath", "time.time": "time.time", "datetime.datetime.now": "now",
}

BUILTIN_NAMES = {
    "len", "sum", "any", "all", "min", "max", "abs", "float", "int", "str", "bool", "isinstance", "hasattr",
    "sorted", "list", "set", "tuple", "dict", "range", "enumerate", "zip", "next", "iter", "type", "round",
    "print", "getattr", "map", "filter", "reversed", "open", "id", "repr", "ValueError", "TypeError",
    "KeyError", "IndexError", "StopIteration", "AttributeError", "Exception", "AssertionError", "OSError",
    "ZeroDivisionError", "frozenset",
}

BUILTIN_CLASSES = {
    "int", "float", "str", "bool", "list", "dict", "set", "tuple", "ValueError", "TypeError", "KeyError",
    "IndexError", "StopIteration", "AttributeError", "Exception", "AssertionError", "OSError",
    "ZeroDivisionError", "AldyException", "NoSolutionsError", "defaultdict", "Counter", "NoneType", "object",
}

SPEC_FUNCS = {"all_yields", "lp_solution", "newvar", "newvar_at", "emits", "emitted", "lp_binary", "lp_integer", "lp_lb", "lp_ub", "lp_name",
              "call_result", "call_arg", "lp_inf", "lp_families", "lp_isvar", "family", "lp_objective", "lp_setobjective", "forall", "exists", "implies", "iff", "old", "fresh", "bigsum", "result", "ite", "is_none",
              "abstract", "seq_filter", "domain", "count", "typed", "sameobj", "opaque", "the"}

ENUMS = {"CNConfigType": {"DEFAULT": 0, "LEFT_FUSION": 1, "RIGHT_FUSION": 2, "DELETION": 3, "CUSTOM": 4}}
