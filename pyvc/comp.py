"""Iteration sources, comprehensions, aggregate builtins (sum/any/all/len/min/max)."""
import ast
import z3

from .ty import (TInt, TReal, TBool, TStr, TNone, TAny, TTuple, TRec, TList, TDict, TSet, TOpt,
                 TUnion, TObj, TFunc, TLin)
from .vals import *  # noqa
from .symex import t_and, t_or, t_not, t_ite, to_real
from .interp import Interp, NUM


def mentions(t, ids):
    """does term t contain a sub-term whose z3 id is in ids?"""
    if not ids:
        return False
    seen = set()
    stack = [t]
    while stack:
        x = stack.pop()
        i = x.get_id()
        if i in seen:
            continue
        seen.add(i)
        if i in ids:
            return True
        if z3.is_quantifier(x):
            stack.append(x.body())
        elif z3.is_app(x):
            stack.extend(x.children())
    return False


class Source:
    """How to iterate something: either concrete items or binders + guard + element."""

    def __init__(self, items=None, binders=None, guard=None, elem=None, seqsrc=None, ordered=True):
        self.items = items  # list of V (concrete)
        self.binders, self.guard, self.elem = binders, guard, elem
        self.seqsrc = seqsrc
        self.ordered = ordered

    @property
    def concrete(self):
        return self.items is not None


class CompMixin(Interp):

    def concrete_items(self, st, v):
        s = self.source(st, v)
        if not s.concrete:
            raise Unsupported("concrete iterable required")
        return s.items

    def source(self, st, v, mode="elems"):
        """mode: elems | items | keys | values (for dicts)."""
        v = self.force(st, v)
        if isinstance(v, VTuple):
            return Source(items=list(v.items))
        if type(v).__name__ == "VRec":
            return Source(items=list(v.items))      # a NamedTuple iterates over its fields in declaration order
        if isinstance(v, VStr):
            ok, s = pyconst(v)
            if ok:
                return Source(items=[VStr(c) for c in s])
            i = self.fresh_const(st, "ci", z3.IntSort())
            return Source(binders=[i], guard=z3.And(0 <= i, i < z3.Length(v.t)), elem=VStr(z3.SubString(v.t, i, 1)))
        if isinstance(v, VFam):
            if v.kind == "set" and not self.elem_is_binder(v):
                ety = self.type_of(v.elem)
                y = self.fresh_const(st, "y", ety.sort())
                yl = self.lift(y, ety)
                g = self.exists(v.binders, t_and(v.guard, self.eq(st, v.elem, yl)))
                return Source(binders=[y], guard=g, elem=yl, ordered=False)
            return Source(binders=list(v.binders), guard=v.guard, elem=v.elem, seqsrc=v.seqsrc, ordered=v.kind != "set")
        if isinstance(v, VRange):
            ok1, a = pyconst(VInt(v.lo))
            ok2, b = pyconst(VInt(v.hi))
            if ok1 and ok2 and b - a <= 64:
                return Source(items=[VInt(i) for i in range(a, b, v.step)])
            if v.step != 1:
                i = self.fresh_const(st, "i", z3.IntSort())
                return Source(binders=[i], guard=z3.And(v.lo <= i, i < v.hi, (i - v.lo) % v.step == 0), elem=VInt(i))
            i = self.fresh_const(st, "i", z3.IntSort())
            return Source(binders=[i], guard=z3.And(v.lo <= i, i < v.hi), elem=VInt(i))
        if isinstance(v, VFunc) and v.kind == "dictview":
            return self.source(st, v.recv, v.mode)
        if isinstance(v, VFunc) and v.kind == "enumerate":
            s = self.source(st, v.recv)
            if s.concrete:
                return Source(items=[VTuple([VInt(i + v.start), x]) for i, x in enumerate(s.items)])
            if s.seqsrc is not None or getattr(s, "indexed", False):
                idx = s.binders[0]
                r = Source(binders=s.binders, guard=s.guard, elem=VTuple([VInt(idx + v.start), s.elem]), seqsrc=None)
                r.indexed = True
                return r
            # unordered source: the index is some injective numbering (unspecified)
            f = self.ctx.ufunc("enum_index" + "".join("," + str(b.sort()) for b in s.binders), *[b.sort() for b in s.binders], z3.IntSort())
            return Source(binders=s.binders, guard=s.guard, elem=VTuple([VInt(f(*s.binders)), s.elem]), ordered=False)
        if isinstance(v, VFunc) and v.kind == "zip":
            ss = [self.source(st, a) for a in v.args]
            if all(s.concrete for s in ss):
                return Source(items=[VTuple(list(t)) for t in zip(*[s.items for s in ss])])
            raise Unsupported("zip over abstract collections")
        if isinstance(v, VFunc) and v.kind == "objdict":
            h = self.resolve(st, v.recv)
            names = self.schema.fields(h.cls)
            if mode == "items":
                return Source(items=[VTuple([VStr(n), self.getattr(st, v.recv, n)]) for n in names])
            return Source(items=[VStr(n) for n in names])
        if isinstance(v, VRef):
            h = self.resolve(st, v)
            if isinstance(h, (HList, HPySet)):
                items = []
                for i, x in enumerate(h.items):
                    items.append(self.load(st, VRef(v.root, v.path + (("k", VInt(i)),))) if isinstance(h, HList) else x)
                return Source(items=items)
            if isinstance(h, HPyDict):
                if mode == "items":
                    return Source(items=[VTuple([k, self.load(st, VRef(v.root, v.path + (("k", k),)))]) for k, _ in h.items])
                if mode == "values":
                    return Source(items=[self.load(st, VRef(v.root, v.path + (("k", k),))) for k, _ in h.items])
                return Source(items=[k for k, _ in h.items])
            if isinstance(h, HBag):
                ren = [(b, self.fresh_const(st, "b", b.sort())) for b in h.binders]
                return Source(binders=[r for _, r in ren], guard=z3.substitute(h.guard, *ren) if ren else h.guard,
                              elem=subst(h.elem, ren), ordered=False)
            if isinstance(h, HSeq):
                i = self.fresh_const(st, "i", z3.IntSort())
                s = Source(binders=[i], guard=z3.And(0 <= i, i < z3.Length(h.t)), elem=self.lift(h.t[i], h.elem_ty), seqsrc=(h.t, i))
                s.indexed = True
                s.length = z3.Length(h.t)
                return s
            if isinstance(h, HListC):
                i = self.fresh_const(st, "i", z3.IntSort())
                s = Source(binders=[i], guard=z3.And(0 <= i, i < h.length),
                           elem=self.load(st, VRef(v.root, v.path + (("k", VInt(i)),))))
                s.indexed = True
                s.length = h.length
                return s
            if isinstance(h, HDict):
                bs, kt, kv = self.key_binders(st, h.kty)
                g = subst(h.dom, [(h.binder, kt)])
                if mode in ("elems", "keys"):
                    return Source(binders=bs, guard=g, elem=kv, ordered=False)
                val = self.guarded(st, g, lambda: self.load(st, VRef(v.root, v.path + (("k", kv),))))
                if mode == "values":
                    return Source(binders=bs, guard=g, elem=val, ordered=False)
                return Source(binders=bs, guard=g, elem=VTuple([kv, val]), ordered=False)
            if isinstance(h, HSet):
                bs, kt, kv = self.key_binders(st, h.kty)
                return Source(binders=bs, guard=subst(h.mem, [(h.binder, kt)]), elem=kv, ordered=False)
            if isinstance(h, HObj):
                it = self.call_method(st, v, "__iter__", [], {}, None)
                return self.source(st, it)
        raise Unsupported(f"iteration over {v!r}")

    def key_binders(self, st, kty):
        """Fresh binders for a key type: one per component for tuple / record keys (so that the
        components can be recovered from written keys). Returns (binders, key term, key value)."""
        if isinstance(kty, (TTuple, TRec)):
            tys = kty.items if isinstance(kty, TTuple) else [t for _, t in kty.fields]
            if all(isinstance(t, (TInt, TReal, TBool, TStr, TAny)) for t in tys):
                bs = [self.fresh_const(st, "k", t.sort()) for t in tys]
                vals = [self.lift(b, t) for b, t in zip(bs, tys)]
                kv = VTuple(vals) if isinstance(kty, TTuple) else VRec(kty.cls, [f for f, _ in kty.fields], vals)
                return bs, self.lower(kv, kty), kv
        b = self.fresh_const(st, "k", kty.sort())
        return [b], b, self.lift(b, kty)

    def elem_is_binder(self, fam):
        if len(fam.binders) != 1:
            return False
        try:
            ty = self.type_of(fam.elem)
            t = self.lower(fam.elem, ty)
            return z3.simplify(t).eq(fam.binders[0])
        except Unsupported:
            return False

    # ------------------------------------------------------------------ comprehensions

    def comp_env(self, st):
        """New scope for comprehension variables."""
        from .symex import Frame
        f = Frame(None, {}, st.frame, st.frame.spec)
        st.frames.append(f)
        return f

    def ev_comp(self, st, gens, body_fn, kind):
        """Evaluate comprehension generators. Returns either ('concrete', [results]) or
        ('fam', binders, guard, result, seqsrc)."""
        self.comp_env(st)
        npc = len(st.pc)
        nb = 0
        try:
            return self._comp(st, list(gens), body_fn, [], z3.BoolVal(True), True, None, kind)
        finally:
            st.frames.pop()
            del st.pc[npc:]

    def _comp(self, st, gens, body_fn, binders, guard, all_concrete, seqsrc, kind):
        if not gens:
            info = getattr(self, "_idx_stack", [None])[-1]
            return [("one", tuple(binders), guard, body_fn(), seqsrc, info)]
        g = gens[0]
        itv = self.ev(g.iter, st)
        if isinstance(itv, VParts):
            # iteration over the concatenation of several comprehension pieces: one piece of the result per piece
            out = []
            for f in itv.fams:
                out += self._comp_src(st, self.source(st, f), gens, body_fn, binders, guard, all_concrete, seqsrc, kind)
            return out
        return self._comp_src(st, self.source(st, itv), gens, body_fn, binders, guard, all_concrete, seqsrc, kind)

    def _comp_src(self, st, src, gens, body_fn, binders, guard, all_concrete, seqsrc, kind):
        g = gens[0]
        out = []
        if src.concrete:
            for item in src.items:
                n = len(st.pc)
                self.bind_target(st, g.target, item)
                conds = []
                skip = False
                for c in g.ifs:
                    ct = z3.simplify(self.cond(st, c))
                    if z3.is_false(ct):
                        skip = True
                        break
                    conds.append(ct)
                    st.pc.append(ct)
                if not skip:
                    out += self._comp(st, gens[1:], body_fn, binders, t_and(guard, *conds), all_concrete, seqsrc, kind)
                del st.pc[n:]
            return out
        n = len(st.pc)
        if not hasattr(self, "_idx_stack"):
            self._idx_stack = [None]
        if getattr(src, "indexed", False) and not binders and len(gens) == 1 and not g.ifs and getattr(src, "length", None) is not None:
            self._idx_stack.append((src.binders[0], t_and(guard, src.guard), src.length))
        else:
            self._idx_stack.append(None)
        self.push_binders(st, src.binders)
        ns_saved = st.ghost.get("__nosplit__", ())
        st.ghost["__nosplit__"] = tuple(ns_saved) + tuple(b.get_id() for b in src.binders)
        try:
            st.pc.append(src.guard)
            self.bind_target(st, g.target, src.elem)
            conds = []
            for c in g.ifs:
                ct = self.cond(st, c)
                conds.append(ct)
                st.pc.append(ct)
            ss = src.seqsrc if (seqsrc is None and not binders) else None
            return self._comp(st, gens[1:], body_fn, binders + list(src.binders), t_and(guard, src.guard, *conds), False, ss, kind)
        finally:
            self._idx_stack.pop()
            self.pop_binders(st, len(src.binders))
            st.ghost["__nosplit__"] = ns_saved
            del st.pc[n:]

    def comp_result(self, st, parts, kind):
        """Combine the pieces produced by _comp into a value."""
        if all(not p[1] for p in parts) and all(z3.is_true(z3.simplify(p[2])) for p in parts):
            vals = [p[3] for p in parts]
            return "concrete", vals
        if len(parts) == 1:
            _, binders, guard, val, seqsrc, info = parts[0]
            f = VFam(kind, binders, guard, val, seqsrc)
            f.idxinfo = info
            return "fam", f
        fs = []
        for _, binders, guard, val, seqsrc, info in parts:
            fs.append(VFam(kind, binders, guard, val, None))
        return "fam", VParts(fs)

    def ev_ListComp(self, node, st):
        parts = self.ev_comp(st, node.generators, lambda: self.ev(node.elt, st), "list")
        k, r = self.comp_result(st, parts, "list")
        if k == "concrete":
            return self.alloc(st, HList(r))
        # a comprehension over one indexed source without filter is an index-keyed list
        idx = getattr(r, "idxinfo", None)
        if idx is not None and len(r.binders) == 1 and r.binders[0].eq(idx[0]) and r.guard.eq(idx[1]):
            elem = r.elem
            if isinstance(elem, VRef):
                elem = self.resolve(st, elem)
            return self.alloc(st, HListC(idx[2], idx[0], elem))
        return r

    def ev_GeneratorExp(self, node, st):
        parts = self.ev_comp(st, node.generators, lambda: self.ev(node.elt, st), "gen")
        k, r = self.comp_result(st, parts, "gen")
        if k == "concrete":
            return VTuple(r)
        return r

    def ev_SetComp(self, node, st):
        parts = self.ev_comp(st, node.generators, lambda: self.ev(node.elt, st), "set")
        k, r = self.comp_result(st, parts, "set")
        if k == "concrete":
            return self.alloc(st, HPySet(self.dedup(st, r)))
        return self.fam_to_set(st, r)

    def dedup(self, st, items):
        out = []
        for x in items:
            if not any(self.try_const_eq(x, y) for y in out):
                out.append(x)
        return out

    def try_const_eq(self, a, b):
        try:
            return self.const_eq(a, b)
        except Unsupported:
            raise Unsupported("set of symbolic elements with undecidable equality")

    def fam_to_set(self, st, fam):
        """{elem for binders if guard} as an abstract set when the element type is encodable."""
        ety = self.type_of(fam.elem)
        et = self.lower(fam.elem, ety)
        y = z3.Const(f"sk!{next(self.ctx.counter)}", et.sort())
        if len(fam.binders) == 1 and z3.simplify(et).eq(fam.binders[0]):
            mem = z3.substitute(fam.guard, (fam.binders[0], y))
        else:
            mem = self.exists(fam.binders, t_and(fam.guard, et == y))
        return self.alloc(st, HSet(ety, y, mem))

    def ev_DictComp(self, node, st):
        parts = self.ev_comp(st, node.generators, lambda: (self.ev(node.key, st), self.ev(node.value, st)), "dict")
        k, r = self.comp_result(st, parts, "dict")
        if k == "concrete":
            items = []
            for kk, vv in r:
                items = [(a, b) for a, b in items if not self.try_const_eq(a, kk)] + [(kk, vv)]
            return self.alloc(st, HPyDict(items))
        fam = r
        key, val = fam.elem
        return self.alloc(st, self.dict_from_family(st, fam.binders, fam.guard, key, val))

    def invert_key(self, st, binders, key, kty, partial=False):
        """Express binders as functions of the key value x. Returns (x, pairs, residual) where pairs
        substitute the determined binders and residual is 'key(inv(x)) == x'. With partial=True a
        fourth component lists the binders the key does not determine (else None is returned)."""
        kt = self.lower(key, kty)
        x = z3.Const(f"kx!{next(self.ctx.counter)}", kt.sort())
        found = {}

        def walk(term, acc):
            term_s = z3.simplify(term)
            for b in binders:
                if term_s.eq(b) and b.get_id() not in found:
                    found[b.get_id()] = (b, acc)
                    return
            if z3.is_add(term_s) and term_s.num_args() == 2 and term_s.sort() == z3.IntSort():
                # binder + constant
                a0, a1 = term_s.arg(0), term_s.arg(1)
                ids = {b.get_id() for b in binders}
                for x0, c0 in ((a0, a1), (a1, a0)):
                    if z3.is_int_value(c0) or not mentions(c0, ids):      # binder + loop-constant offset (`start + i`)
                        for b in binders:
                            if x0.eq(b) and b.get_id() not in found:
                                found[b.get_id()] = (b, acc - c0)
                                return
            if z3.is_app(term_s) and term_s.decl().kind() == z3.Z3_OP_DT_CONSTRUCTOR:
                srt = term_s.sort()
                for i in range(term_s.num_args()):
                    walk(term_s.arg(i), srt.accessor(0, i)(acc))
        walk(kt, x)
        und = [b for b in binders if b.get_id() not in found]
        if und and not partial:
            return None
        pairs = list(found.values())
        resid = z3.simplify((z3.substitute(kt, *pairs) if pairs else kt) == x)
        if partial:
            return x, pairs, resid, und
        return x, pairs, resid

    def choose(self, st, x, und, body):
        """Skolem choice for binders the key does not determine: returns substitution pairs und -> choice(x)
        and records  (exists und. body) => body[choice]  as an axiom."""
        pairs = []
        for i, u in enumerate(und):
            f = z3.Function(f"choice!{next(self.ctx.counter)}", x.sort(), u.sort())
            pairs.append((u, f(x)))
        ex = self.exists(und, body)
        st.axioms.append(z3.ForAll([x], z3.Implies(ex, z3.substitute(body, *pairs))))
        return pairs, ex

    def dict_from_family(self, st, binders, guard, key, val):
        kty = self.type_of(key)
        x, pairs, resid, und = self.invert_key(st, binders, key, kty, partial=True)
        body = t_and(z3.substitute(guard, *pairs) if pairs else guard, resid)
        if isinstance(val, VRef):
            # a container built per element (e.g. the inner dict of a nested dict comprehension) is stored by value; the
            # comprehension variables inside it must be rewritten to the key like everything else
            h = self.resolve(st, val)
            st.aliases.append((val.root, val.path))
            val = h
        v2 = subst(val, pairs)
        if und:
            cp, dom = self.choose(st, x, und, body)
            v2 = subst(v2, cp)
            self.ctx.notes.append("dict comprehension whose key does not determine all comprehension variables: "
                                  "last-writer semantics abstracted by a choice function")
        else:
            dom = z3.simplify(body)
        return HDict(kty, x, dom, v2, None, None)

    # ------------------------------------------------------------------ aggregates

    def bigsum(self, st, binders, guard, term):
        """Sum of term over binders satisfying guard; term is a z3 Int or Real."""
        zero = z3.IntVal(0) if term.sort() == z3.IntSort() else z3.RealVal(0)
        body = z3.If(guard, term, zero)
        for b in reversed(list(binders)):
            f = self.ctx.ufunc(f"bigsum<{b.sort()},{term.sort()}>", z3.ArraySort(b.sort(), term.sort()), term.sort())
            body = f(z3.Lambda([b], body))
        return body

    def agg_sum(self, st, v, start=None):
        if isinstance(v, VParts):
            r = start if start is not None else VInt(0)
            for f in v.fams:
                r = self.binop(st, ast.Add(), r, self.agg_sum(st, f))
            return r
        if not isinstance(v, VFam):
            s0 = self.source(st, v)
            if not s0.concrete:
                v = VFam("gen", s0.binders, s0.guard, s0.elem)
        if isinstance(v, VFam):
            e = v.elem
            if isinstance(e, VLin):
                r = VLin(self.bigsum(st, v.binders, v.guard, e.t))
            elif isinstance(e, VInt) or isinstance(e, VBool):
                r = VInt(self.bigsum(st, v.binders, v.guard, self.as_int(e)))
            elif isinstance(e, VReal):
                r = VReal(self.bigsum(st, v.binders, v.guard, e.t))
            else:
                raise Unsupported(f"sum of {e!r}")
        else:
            items = self.concrete_items(st, v)
            r = VInt(0)
            for i in items:
                r = self.binop(st, ast.Add(), r, self.force(st, i))
        if start is not None:
            r = self.binop(st, ast.Add(), start, r)
        return r

    def agg_len(self, st, v):
        v = self.force(st, v)
        if type(v).__name__ == "VDebug":
            n = self.fresh(st, "dbglen", z3.IntSort())
            return VInt(n)
        if isinstance(v, VDyn):
            return self.dyn_apply(st, v, lambda x: self.agg_len(st, x))
        if isinstance(v, VStr):
            return VInt(z3.Length(v.t))
        if isinstance(v, (VTuple, VRec)):
            return VInt(len(v.items))
        if isinstance(v, VFam):
            if v.kind == "set" and not self.elem_is_binder(v):
                s = self.source(st, v)
                return VInt(self.bigsum(st, s.binders, s.guard, z3.IntVal(1)))
            return VInt(self.bigsum(st, v.binders, v.guard, z3.IntVal(1)))
        if isinstance(v, VRef):
            h = self.resolve(st, v)
            if isinstance(h, HSeq):
                return VInt(z3.Length(h.t))
            if isinstance(h, (HList, HPyDict, HPySet)):
                return VInt(len(h.items))
            if isinstance(h, HBag):
                return VInt(self.bigsum(st, h.binders, h.guard, z3.IntVal(1)))
            if isinstance(h, HListC):
                # a list length is never negative (the symbolic length of an abstract list carries no such fact by itself)
                fact = h.length >= 0
                if not z3.is_true(z3.simplify(fact)) and not any(fact.eq(a) for a in st.pc):
                    st.pc.append(fact)
                return VInt(h.length)
            if isinstance(h, HDict):
                c = self.bigsum(st, [h.binder], h.dom, z3.IntVal(1))
                return VInt(c)
            if isinstance(h, HSet):
                return VInt(self.bigsum(st, [h.binder], h.mem, z3.IntVal(1)))
            if isinstance(h, HObj):
                return self.call_method(st, v, "__len__", [], {}, None)
        raise Unsupported(f"len of {v!r}")

    def agg_any(self, st, v, is_all=False):
        if isinstance(v, VParts):
            ts = [self.agg_any(st, f, is_all).t for f in v.fams]
            return VBool(t_and(*ts) if is_all else t_or(*ts))
        if not isinstance(v, VFam):
            s0 = self.source(st, v)
            if not s0.concrete:
                v = VFam("gen", s0.binders, s0.guard, s0.elem)
        if isinstance(v, VFam):
            e = self.truth(st, v.elem)
            if is_all:
                return VBool(self.forall(v.binders, z3.Implies(v.guard, e)))
            return VBool(self.exists(v.binders, t_and(v.guard, e)))
        items = self.concrete_items(st, v)
        ts = [self.truth(st, self.force(st, i)) for i in items]
        return VBool(t_and(*ts) if is_all else t_or(*ts))

    def agg_minmax(self, st, args, kw, is_max, node):
        if len(args) > 1:
            cur = self.force(st, args[0])
            for a in args[1:]:
                a = self.force(st, a)
                c = self.compare(st, ast.Gt() if is_max else ast.Lt(), a, cur)
                cur = self.v_ite(c, a, cur)
            return cur
        v = self.force(st, args[0])
        key = kw.get("key")
        if isinstance(v, VFam) or (isinstance(v, VRef) and not self.source(st, v).concrete):
            s = self.source(st, v)
            if key is not None:
                # some element whose key is extremal (Python returns the FIRST such element; any one of them is a sound
                # over-approximation): a witness instance of the binders
                ke = self.force(st, self.call_value(st, key, [s.elem], {}, node))
                if not isinstance(ke, NUM):
                    raise Unsupported("min/max with a non-numeric key over abstract collection")
                kt = self.as_int(ke) if isinstance(ke, VBool) else ke.t
                self.oblige(st, "valueerror-empty", self.exists(s.binders, s.guard), where=self.where(node, st))
                wit = [(b, self.fresh(st, "argm", b.sort())) for b in s.binders]
                kw_ = z3.substitute(kt, *wit)
                st.pc.append(z3.substitute(s.guard, *wit))
                st.pc.append(self.forall(s.binders, z3.Implies(s.guard, (kt <= kw_) if is_max else (kt >= kw_))))
                return subst(s.elem, wit)
            e = s.elem
            if not isinstance(e, NUM):
                raise Unsupported("min/max over non-numeric abstract collection")
            et = self.as_int(e) if isinstance(e, VBool) else e.t
            self.oblige(st, "valueerror-empty", self.exists(s.binders, s.guard), where=self.where(node, st))
            m = self.fresh(st, "max" if is_max else "min", et.sort())
            bound = (et <= m) if is_max else (et >= m)
            st.pc.append(self.forall(s.binders, z3.Implies(s.guard, bound)))
            st.pc.append(self.exists(s.binders, t_and(s.guard, et == m)))
            return VInt(m) if et.sort() == z3.IntSort() else VReal(m)
        items = self.concrete_items(st, v)
        if not items:
            if "default" in kw:
                return kw["default"]
            self.oblige(st, "valueerror-empty", z3.BoolVal(False), where=self.where(node, st))
            raise Unsupported("min/max of empty sequence")
        cur = self.force(st, items[0])
        kcur = self.call_value(st, key, [cur], {}, node) if key is not None else cur
        for a in items[1:]:
            a = self.force(st, a)
            ka = self.call_value(st, key, [a], {}, node) if key is not None else a
            c = self.compare(st, ast.Gt() if is_max else ast.Lt(), ka, kcur)
            cur = self.v_ite(c, a, cur)
            kcur = self.v_ite(c, ka, kcur)
        return cur


class VParts(V):
    """Several comprehension pieces (a concrete generator with symbolic filters): only aggregates consume it."""

    def __init__(self, fams):
        self.fams = list(fams)

    def map_terms(self, fn):
        return VParts([f.map_terms(fn) for f in self.fams])


class VRange(V):
    def __init__(self, lo, hi, step=1):
        self.lo, self.hi, self.step = lo, hi, step

    def map_terms(self, fn):
        return VRange(fn(self.lo), fn(self.hi), self.step)
