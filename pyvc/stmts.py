"""Statements, loops (concrete unrolling, rule F summaries, rule I invariants)."""
import ast
import z3

from . import front
from .ty import (TInt, TReal, TBool, TStr, TNone, TAny, TTuple, TRec, TList, TDict, TSet, TOpt,
                 TUnion, TObj, TFunc, TLin)
from .vals import *  # noqa
from .symex import t_and, t_or, t_not, t_ite, to_real, Frame, State
from .interp import NUM, VPoison, VAccum, Effect, RecFrame
from .calls import PathDone, is_log_call, EXC_CLASSES, EXC_PARENTS
from .contract import ContractMixin


def mentions(t, ids):
    if not ids:
        return False
    seen = set()
    stack = [t]
    while stack:
        x = stack.pop()
        i = x.get_id()
        if i in seen:
            continue
        seen.add(i)
        if i in ids:
            return True
        if z3.is_quantifier(x):
            stack.append(x.body())
        elif z3.is_app(x):
            stack.extend(x.children())
    return False


class StmtMixin(ContractMixin):

    # ------------------------------------------------------------------ block / statement drivers

    def decide(self, st, c):
        c2 = z3.simplify(c)
        if z3.is_true(c2):
            return True
        if z3.is_false(c2):
            return False
        nc = z3.simplify(z3.Not(c2))
        for p_ in st.pc:  # syntactic hits first (no solver call)
            if p_.eq(c2):
                return True
            if p_.eq(nc):
                return False
        if self.implied(st, c2):
            return True
        if self.implied(st, nc):
            return False
        ns = st.ghost.get("__nosplit__", ())
        if ns and mentions(c2, set(ns)):
            raise Unsupported("case split on a condition that depends on a bound variable of a comprehension/quantifier")
        raise NeedSplit(c2)

    def exec_block(self, stmts, states):
        for s in stmts:
            nxt = []
            for st in states:
                if st.status != "run":
                    nxt.append(st)
                else:
                    nxt.extend(self.exec_stmt(s, st))
            states = nxt
        return states

    def exec_stmt(self, stmt, st):
        if not st.ghost.get("__multi__", True):
            try:
                r = self._exec(stmt, st)
            except PathDone:
                return [st]
            return r
        work = [st]
        out = []
        budget = self.ctx.config.get("max_splits_per_stmt", 4096)
        while work:
            s = work.pop()
            snap = s.clone()
            nob = len(self.ctx.obls)
            try:
                res = self._exec(stmt, s)
                out.extend(res)
            except PathDone:
                out.append(s)
            except NeedSplit as ns:
                del self.ctx.obls[nob:]
                budget -= 1
                if budget <= 0:
                    raise Unsupported(f"path explosion at {self.where(stmt, st)}")
                if ns.alts is not None:
                    for c in reversed(ns.alts):
                        a = snap.clone()
                        a.pc.append(c)
                        work.append(a)
                    continue
                a = snap.clone()
                a.pc.append(ns.cond)
                b = snap
                b.pc.append(z3.simplify(z3.Not(ns.cond)))
                work.append(b)
                work.append(a)
        self.ctx.paths += max(0, len(out) - 1)
        return out

    def _exec(self, stmt, st):
        m = getattr(self, "st_" + type(stmt).__name__, None)
        if m is None:
            raise Unsupported(f"statement {type(stmt).__name__} at {self.where(stmt, st)}")
        r = m(stmt, st)
        out = [st] if r is None else r
        for x in out:
            if x.ghost.get("__cut_pending__") and x.status == "run" and not x.rec:
                x.ghost["__cut_pending__"] = False
                x.status = "cut"
        return out

    # ------------------------------------------------------------------ simple statements

    def st_Pass(self, s, st):
        return None

    def st_Expr(self, s, st):
        if isinstance(s.value, ast.Constant):
            return None  # docstring
        fi = self.frame_finfo(st)
        if is_log_call(s.value, fi.module if fi is not None else None):
            return None
        if isinstance(s.value, (ast.Yield, ast.YieldFrom)):
            return self.st_yield(s.value, st)
        self.ev(s.value, st)
        return None

    def st_yield(self, node, st):
        """Generators: the sequence of yields is ghost state (concrete yields in order, plus the
        abstract yield lists of nested generator calls)."""
        ys = list(st.ghost.get("__yields__", ()))
        if isinstance(node, ast.Yield):
            v = self.ev(node.value, st) if node.value is not None else VNone()
            ys.append(("one", v))
        else:
            v = self.ev(node.value, st)
            ys.append(("from", v))
        st.ghost["__yields__"] = tuple(ys)
        return None

    def st_Import(self, s, st):
        for a in s.names:
            st.frame.env[a.asname or a.name.split(".")[0]] = VModule(a.name)

    def st_ImportFrom(self, s, st):
        fi = self.frame_finfo(st)
        base = s.module or ""
        if s.level and fi is not None:
            pkg = fi.module.name.rsplit(".", 1)[0]
            base = pkg + ("." + base if base else "")
        for a in s.names:
            st.frame.env[a.asname or a.name] = self.imported(base + "." + a.name)

    def st_FunctionDef(self, s, st):
        fi = self.frame_finfo(st)
        q = (fi.qualname + "." + s.name) if fi is not None else s.name
        nfi = front.FuncInfo(q, fi.module, s, fi.cls, fi) if fi is not None else None
        st.frame.env[s.name] = VFunc("ast", node=s, closure=st.frame, finfo=nfi, name=q)

    def st_Return(self, s, st):
        v = self.ev(s.value, st) if s.value is not None else VNone()
        st.status, st.value = "return", v

    def st_Break(self, s, st):
        st.status = "break"

    def st_Continue(self, s, st):
        st.status = "continue"

    def st_Raise(self, s, st):
        if s.exc is None:
            cur = st.ghost.get("__handling__")
            if cur is None:
                raise Unsupported("bare raise outside an except block")
            self.do_raise(st, cur)
            return
        v = self.ev(s.exc, st)
        if isinstance(v, VClass):
            v = VExc(v.name, ())
        if not isinstance(v, VExc):
            raise Unsupported(f"raise of {v!r}")
        self.do_raise(st, v)

    def do_raise(self, st, exc):
        st.status, st.value = "raise", exc

    def st_Assert(self, s, st):
        fi = self.frame_finfo(st)
        c = self.cond(st, s.test)
        if st.frame.spec:
            st.pc.append(c)
            return None
        self.oblige(st, "assert", c, kind="safety", where=self.where(s, st))
        st.pc.append(c)

    def st_Delete(self, s, st):
        for t in s.targets:
            if isinstance(t, ast.Name):
                st.frame.env.pop(t.id, None)
            elif isinstance(t, ast.Subscript):
                obj = self.force(st, self.ev(t.value, st))
                key = self.force_key(st, self.ev(t.slice, st))
                self.del_item(st, obj, key, t)
            else:
                raise Unsupported("del target")

    def del_item(self, st, obj, key, node):
        h = self.resolve(st, obj)
        if isinstance(h, HDict):
            kt = self.lower(key, h.kty)
            self.oblige(st, "keyerror", subst(h.dom, [(h.binder, kt)]), where=self.where(node, st))
            newh = HDict(h.kty, h.binder, t_and(h.dom, h.binder != kt), h.val, h.default, h.vty)
            if st.rec and isinstance(obj, VRef):
                ref = self.canon(st, obj)
                if ref.root not in st.rec[-1].fresh and ref.root in getattr(st.rec[-1], "before", ()):
                    # inside a summarised loop: a keyed deletion is its own effect kind (the iteration sees its own
                    # deletion; other iterations' deletions are applied by the summary)
                    fr = st.rec[-1]
                    g = t_and(*st.pc[fr.pc_len:])
                    fr.effects.append(Effect("del", ref.root, ref.path + (("k", key),), None, g, where=self.where(node, st)))
                    self.check_alias_hazard(st, ref)
                    st.ghost["__epoch__"] = st.ghost.get("__epoch__", 0) + 1
                    st.heap[ref.root] = self.upd(st, st.heap[ref.root], list(ref.path), newh)
                    return
            self.write_h(st, obj, newh)
            return
        if isinstance(h, HPyDict):
            items = [(k, v) for k, v in h.items if not self.const_eq(k, key)]
            if len(items) == len(h.items):
                self.oblige(st, "keyerror", z3.BoolVal(False), where=self.where(node, st))
            self.write_h(st, obj, HPyDict(items, h.default))
            return
        if isinstance(h, HList):
            ok, i = pyconst(key)
            if ok:
                items = list(h.items)
                del items[i]
                self.write_h(st, obj, HList(items))
                return
        raise Unsupported(f"del on {type(h).__name__}")

    def st_Assign(self, s, st):
        v = self.ev(s.value, st)
        if isinstance(v, VDyn):
            v = self.narrow(st, v)
        for t in s.targets:
            self.bind_target(st, t, v, s)

    def st_AnnAssign(self, s, st):
        if s.value is not None:
            self.bind_target(st, s.target, self.ev(s.value, st), s)

    def bind_target(self, st, t, v, stmt=None):
        if isinstance(t, ast.Name):
            fr = st.frame
            if isinstance(v, H):
                v = self.alloc(st, v)
            fr.env[t.id] = v
            return
        if isinstance(t, (ast.Tuple, ast.List)):
            v = self.force(st, v)
            if isinstance(v, (VTuple, VRec)):
                items = list(v.items)
            else:
                items = self.concrete_items(st, v)
            star = [i for i, e in enumerate(t.elts) if isinstance(e, ast.Starred)]
            if star:
                k = star[0]
                after = len(t.elts) - k - 1
                mid = items[k: len(items) - after]
                for e, x in zip(t.elts[:k], items[:k]):
                    self.bind_target(st, e, x, stmt)
                self.bind_target(st, t.elts[k].value, self.alloc(st, HList(mid)), stmt)
                for e, x in zip(t.elts[k + 1:], items[len(items) - after:]):
                    self.bind_target(st, e, x, stmt)
                return
            if len(items) != len(t.elts):
                self.oblige(st, "unpack", z3.BoolVal(False), where=self.where(t, st))
                raise Unsupported("unpack arity mismatch")
            for e, x in zip(t.elts, items):
                self.bind_target(st, e, x, stmt)
            return
        if isinstance(t, ast.Attribute):
            obj = self.force(st, self.ev(t.value, st))
            if not isinstance(obj, VRef):
                raise Unsupported("attribute assignment on a value")
            self.write(st, VRef(obj.root, obj.path + (("f", t.attr),)), self.force(st, v) if isinstance(v, VLazy) else v)
            return
        if isinstance(t, ast.Subscript):
            obj = self.force(st, self.ev(t.value, st))
            if type(obj).__name__ == "VDebug":
                return  # write into the debug store: dropped by the extraction
            if isinstance(t.slice, ast.Slice):
                raise Unsupported("slice assignment")
            key = self.force_key(st, self.ev(t.slice, st))
            if isinstance(obj, VFunc) and obj.kind == "objdict":
                ok, name = pyconst(key)
                if not ok:
                    h = self.resolve(st, obj.recv)
                    name = self.pick_name(st, key, self.schema.fields(h.cls))
                self.write(st, VRef(obj.recv.root, obj.recv.path + (("f", name),)), v)
                return
            if not isinstance(obj, VRef):
                raise Unsupported("subscript assignment on a value")
            h = self.resolve(st, obj)
            if isinstance(h, (HSeq, HList, HListC)):
                self.check_index(st, h, key, t)
            self.write(st, VRef(obj.root, obj.path + (("k", key),)), v)
            return
        raise Unsupported(f"assignment target {type(t).__name__}")

    def check_index(self, st, h, key, node):
        i = self.as_int(key)
        n = z3.Length(h.t) if isinstance(h, HSeq) else (z3.IntVal(len(h.items)) if isinstance(h, HList) else h.length)
        self.oblige(st, "indexerror", z3.And(i < n, i >= -n), where=self.where(node, st))

    def st_AugAssign(self, s, st):
        t = s.target
        rhs = self.force(st, self.ev(s.value, st))
        if isinstance(t, ast.Name):
            cur = st.frame.lookup(t.id)
            if isinstance(cur, VAccum):
                self.log_local_add(st, t.id, s.op, rhs, s)
                return
            cur = self.lookup_name(st, t.id)
        else:
            cur = self.force(st, self.ev(ast.copy_location(self.as_load(t), t), st))
        # in-place container operators
        if isinstance(cur, VRef):
            h = self.resolve(st, cur)
            if isinstance(s.op, ast.Add) and isinstance(h, (HList, HSeq)):
                self.list_method(st, cur, h, "extend", [rhs], {}, s)
                return
            if isinstance(s.op, (ast.BitOr, ast.Sub, ast.BitAnd)) and isinstance(h, (HSet, HPySet)):
                new = self.container_binop(st, s.op, cur, rhs, s)
                self.write_h(st, cur, self.resolve(st, new))
                return
            raise Unsupported("augmented assignment on container")
        if isinstance(cur, VFam) and isinstance(s.op, ast.Add):
            raise Unsupported("+= on comprehension value")
        new = self.binop(st, s.op, cur, rhs, s)
        if isinstance(t, ast.Subscript) and st.rec and isinstance(s.op, (ast.Add, ast.Sub)):
            # accumulation into an outer container cell: log as 'add'
            obj = self.force(st, self.ev(t.value, st))
            key = self.force_key(st, self.ev(t.slice, st))
            if isinstance(obj, VRef) and obj.root not in st.rec[-1].fresh:
                ref = self.canon_prefix(st, VRef(obj.root, obj.path + (("k", key),)))
                delta = rhs if isinstance(s.op, ast.Add) else self.binop(st, ast.Sub(), VInt(0), rhs)
                if not self.has_local_set(st, ref):
                    g = t_and(*st.pc[st.rec[-1].pc_len:])
                    st.rec[-1].effects.append(Effect("add", ref.root, ref.path, delta, g, where=self.where(s, st)))
                    # drop the keyerror read from the 'reads' log: accumulation is not a read
                    if st.rec[-1].reads and st.rec[-1].reads[-1][0].root == obj.root:
                        st.rec[-1].reads.pop()
                    # keep the local view consistent
                    rec = st.rec
                    st.rec = []
                    try:
                        self.write(st, ref, new)
                    finally:
                        st.rec = rec
                    return
        self.bind_target(st, t, new, s)

    def has_local_set(self, st, ref):
        for e in st.rec[-1].effects:
            if e.kind == "set" and e.root == ref.root and len(e.path) <= len(ref.path) and self.same_path(e.path, ref.path[: len(e.path)]):
                return True
        return False

    def same_path(self, p, q):
        if len(p) != len(q):
            return False
        for (k1, x1), (k2, x2) in zip(p, q):
            if k1 != k2:
                return False
            if k1 == "f":
                if x1 != x2:
                    return False
            else:
                try:
                    ty = self.type_of(x1)
                    if not z3.simplify(self.lower(x1, ty)).eq(z3.simplify(self.lower(x2, ty))):
                        return False
                except Unsupported:
                    return False
        return True

    def log_local_add(self, st, name, op, rhs, s):
        if isinstance(op, ast.BitOr):
            # set accumulation  acc |= delta : the union over all iterations (order independent)
            hs = rhs if isinstance(rhs, HSet) else self.as_hset(st, rhs, None)
            g = t_and(*st.pc[st.rec[-1].pc_len:])
            st.rec[-1].effects.append(Effect("unionlocal", None, (), hs, g, name=name, where=self.where(s, st)))
            return
        if isinstance(op, ast.Add) and isinstance(rhs, VFam) and rhs.kind in ("list", "gen"):
            # list accumulation  acc += [e for ...] : all elements of all iterations (as a bag: the order across iterations
            # is not modelled, only aggregates / membership can consume the result)
            g = t_and(*st.pc[st.rec[-1].pc_len:])
            st.rec[-1].effects.append(Effect("extendlocal", None, (), rhs, g, name=name, where=self.where(s, st)))
            return
        if not isinstance(op, (ast.Add, ast.Sub)):
            raise Unsupported("accumulator updated with an operator other than +=/-=/|=")
        delta = rhs if isinstance(op, ast.Add) else self.binop(st, ast.Sub(), VInt(0), rhs)
        g = t_and(*st.pc[st.rec[-1].pc_len:])
        st.rec[-1].effects.append(Effect("addlocal", None, (), delta, g, name=name, where=self.where(s, st)))

    def as_load(self, t):
        import copy
        n = copy.copy(t)
        n.ctx = ast.Load()
        return n

    # ------------------------------------------------------------------ control flow

    def st_If(self, s, st):
        c = self.cond(st, s.test)
        ns = st.ghost.get("__nosplit__", ())
        c2 = z3.simplify(c)
        if ns and not z3.is_true(c2) and not z3.is_false(c2) and mentions(c2, set(ns)) \
                and not self.implied(st, c2) and not self.implied(st, z3.simplify(z3.Not(c2))):
            return self.if_merge(s, st, c2)
        if self.decide(st, c):
            return self.exec_block(s.body, [st])
        return self.exec_block(s.orelse, [st])

    def if_merge(self, s, st, c):
        """Both branches are executed and merged with ite (needed below comprehension binders,
        where a case split is impossible). Branches must be side-effect free on the heap."""
        a, b = st.clone(), st.clone()
        a.pc.append(c)
        b.pc.append(z3.simplify(z3.Not(c)))
        multi = st.ghost.get("__multi__", True)
        for x in (a, b):
            x.ghost["__multi__"] = False
        ra = self.exec_block(s.body, [a])
        rb = self.exec_block(s.orelse, [b])
        a, b = ra[0], rb[0]
        st.nfresh = max(st.nfresh, a.nfresh, b.nfresh)
        for x in (a, b):
            for r, h in x.heap.items():
                if r in st.heap and st.heap[r] is not h:
                    raise Unsupported("heap update inside a branch that must be merged (condition depends on a bound variable)")
        if a.status != b.status or a.status not in ("run", "return"):
            # one branch returns, the other falls through: continue the fall-through with the rest of the block
            raise Unsupported("branches with different control flow below a bound variable")
        if a.status == "return":
            st.status = "return"
            st.value = self.merge_values(st, c, a.value, b.value)
        ea, eb = a.frame.env, b.frame.env
        for k in set(ea) | set(eb):
            va, vb = ea.get(k), eb.get(k)
            if va is vb:
                continue
            if va is None or vb is None:
                continue
            st.frame.env[k] = self.merge_values(st, c, va, vb)
        for r, h in a.heap.items():
            if r not in st.heap:
                st.heap[r] = h
        for r, h in b.heap.items():
            if r not in st.heap:
                st.heap[r] = h
        st.ghost["__multi__"] = multi
        return [st]

    def merge_values(self, st, c, va, vb):
        va, vb = self.force_nosplit(st, va), self.force_nosplit(st, vb)
        try:
            if isinstance(va, VRef) and isinstance(vb, VRef) and not (va.root == vb.root and va.path == vb.path):
                h = self.v_ite(c, self.resolve(st, va), self.resolve(st, vb))
                st.aliases.append((va.root, va.path))
                st.aliases.append((vb.root, vb.path))
                return self.alloc(st, h)
            return self.v_ite(c, va, vb)
        except NeedSplit:
            raise Unsupported("cannot merge branch results below a bound variable")

    def force_nosplit(self, st, v):
        return v

    def st_With(self, s, st):
        for it in s.items:
            ce = it.context_expr
            name = None
            if isinstance(ce, ast.Call) and isinstance(ce.func, ast.Name):
                name = ce.func.id
            if name == "Timing":
                continue
            v = self.ev(ce, st)
            if it.optional_vars is not None:
                self.bind_target(st, it.optional_vars, v, s)
        return self.exec_block(s.body, [st])

    def st_Try(self, s, st):
        if s.finalbody:
            raise Unsupported("try/finally")
        outs = self.exec_block(s.body, [st])
        res = []
        for o in outs:
            if o.status == "raise":
                handled = False
                for h in s.handlers:
                    if self.handler_matches(h, o.value):
                        o.status = "run"
                        exc = o.value
                        o.value = None
                        if h.name:
                            o.frame.env[h.name] = exc
                        saved = o.ghost.get("__handling__")
                        o.ghost["__handling__"] = exc
                        outs2 = self.exec_block(h.body, [o])
                        for o2 in outs2:
                            o2.ghost["__handling__"] = saved
                        res.extend(outs2)
                        handled = True
                        break
                if not handled:
                    res.append(o)
            elif o.status == "run" and s.orelse:
                res.extend(self.exec_block(s.orelse, [o]))
            else:
                res.append(o)
        return res

    def handler_matches(self, h, exc):
        if h.type is None:
            return True
        names = [e.id if isinstance(e, ast.Name) else e.attr for e in (h.type.elts if isinstance(h.type, ast.Tuple) else [h.type])]
        c = exc.cls
        while c is not None:
            if c in names or "Exception" in names:
                return True
            c = EXC_PARENTS.get(c)
        return False

    def st_While(self, s, st):
        inv = self.loop_invariants(st, s)
        if inv is not None:
            return self.loop_invariant_rule(s, st, inv, None)
        # bounded unrolling of loops with decidable guards
        out = []
        states = [st]
        for _ in range(self.ctx.config.get("max_unroll", 64)):
            nxt = []
            for x in states:
                if x.status != "run":
                    out.append(x)
                    continue
                for y in self.exec_guard(s.test, x):
                    nxt.append(y)
            states = []
            for (y, taken) in nxt:
                if not taken:
                    out.extend(self.exec_block(s.orelse, [y]) if s.orelse else [y])
                    continue
                for z in self.exec_block(s.body, [y]):
                    if z.status == "break":
                        z.status = "run"
                        out.append(z)
                    elif z.status == "continue":
                        z.status = "run"
                        states.append(z)
                    else:
                        (states if z.status == "run" else out).append(z)
            if not states:
                return out
        raise Unsupported(f"while loop without invariant exceeds unroll bound at {self.where(s, st)}")

    def exec_guard(self, test, st):
        """Evaluate a loop guard with forking. Returns [(state, bool)]."""
        work, out = [st], []
        while work:
            x = work.pop()
            snap = x.clone()
            try:
                c = self.cond(x, test)
                out.append((x, self.decide(x, c)))
            except NeedSplit as ns:
                if not x.ghost.get("__multi__", True):
                    raise
                a = snap.clone()
                a.pc.append(ns.cond)
                snap.pc.append(z3.simplify(z3.Not(ns.cond)))
                work += [snap, a]
        return out

    def loop_ordinal(self, st, node):
        fi = self.frame_finfo(st)
        if fi is None:
            return -1
        k = 0
        for n in ast.walk(fi.node):
            if isinstance(n, (ast.For, ast.While)):
                if n is node:
                    return k
                k += 1
        return -1

    def loop_invariants(self, st, node):
        """Invariants attached by the contract of the function under verification."""
        table = st.ghost.get("__invariants__")
        if not table:
            return None
        fi = self.frame_finfo(st)
        if fi is None or fi.qualname != st.ghost.get("__verifying__"):
            return None
        k = self.loop_ordinal(st, node)
        return table.get(k)

    def st_For(self, s, st):
        inv = self.loop_invariants(st, s)
        itv = self.ev(s.iter, st)
        src = self.source(st, itv)
        if inv is not None:
            return self.loop_invariant_rule(s, st, inv, src)
        if src.concrete:
            return self.for_concrete(s, st, src.items)
        return self.for_foreach(s, st, src)

    def for_concrete(self, s, st, items):
        states = [st]
        out = []
        for item in items:
            nxt = []
            for x in states:
                self.bind_target(x, s.target, item, s)
                for z in self.exec_block(s.body, [x]):
                    if z.status == "break":
                        z.status = "run"
                        out.append(z)
                    elif z.status == "continue":
                        z.status = "run"
                        nxt.append(z)
                    elif z.status == "run":
                        nxt.append(z)
                    else:
                        out.append(z)
            states = nxt
        if s.orelse:
            states = self.exec_block(s.orelse, states)
        return out + states

    # ------------------------------------------------------------------ rule F

    def assigned_names(self, stmts):
        plain, aug = set(), set()
        for n in stmts:
            for x in ast.walk(n):
                if isinstance(x, ast.Assign):
                    for t in x.targets:
                        for y in ast.walk(t):
                            if isinstance(y, ast.Name) and isinstance(y.ctx, ast.Store):
                                plain.add(y.id)
                elif isinstance(x, (ast.For, ast.comprehension)):
                    for y in ast.walk(x.target):
                        if isinstance(y, ast.Name):
                            plain.add(y.id)
                elif isinstance(x, ast.AugAssign) and isinstance(x.target, ast.Name):
                    aug.add(x.target.id)
                elif isinstance(x, ast.AnnAssign) and isinstance(x.target, ast.Name):
                    plain.add(x.target.id)
                elif isinstance(x, ast.With):
                    for it in x.items:
                        if it.optional_vars is not None:
                            for y in ast.walk(it.optional_vars):
                                if isinstance(y, ast.Name):
                                    plain.add(y.id)
                elif isinstance(x, (ast.FunctionDef,)):
                    plain.add(x.name)
        return plain, aug

    def for_foreach(self, s, st, src):
        if s.orelse:
            raise Unsupported("for/else over an abstract collection")
        k = self.loop_ordinal(st, s)
        fi = self.frame_finfo(st)
        self.ctx.loops.append((fi.qualname if fi else "?", k, "F"))
        pre = st  # summary is applied to this state afterwards
        body_st = st.clone()
        frame = RecFrame(src.binders, len(body_st.pc))
        frame.before = set(body_st.heap.keys())
        body_st.rec.append(frame)
        self.push_binders(body_st, src.binders)
        body_st.fresh_roots = set()
        body_st.pc.append(src.guard)
        plain, aug = self.assigned_names(s.body)
        tnames = {y.id for y in ast.walk(s.target) if isinstance(y, ast.Name)}
        env = body_st.frame.env
        accum = set()
        for n in aug - plain - tnames:
            cur = body_st.frame.lookup(n)
            if cur is not None and not isinstance(cur, (VPoison,)):
                env[n] = VAccum(n, cur)
                accum.add(n)
        for n in plain - tnames:
            if body_st.frame.lookup(n) is not None:
                env[n] = VPoison("assigned in the loop body before being read in this iteration")
        self.bind_target(body_st, s.target, src.elem, s)
        multi = body_st.ghost.get("__multi__", True)
        body_st.ghost["__multi__"] = True
        rec_depth = len(body_st.rec)
        # roots allocated inside the body are iteration-local
        before_roots = set(body_st.heap.keys())
        ends = self.exec_block(s.body, [body_st])
        # symbols created inside the body must not be re-used afterwards (capture in summaries)
        st.nfresh = max([st.nfresh] + [e.nfresh for e in ends])
        for e in ends:
            for ax in e.ghost.get("__loop_axioms__", ()):
                if not any(ax.eq(a) for a in st.axioms):
                    st.axioms.append(ax)     # closed facts about per-iteration callee results (see apply_contract)
        effects, seen = [], set()
        raises = []
        for e in ends:
            fr = e.rec[rec_depth - 1]
            local_roots = set(e.heap.keys()) - before_roots
            pcond = t_and(*e.pc[fr.pc_len:])
            if e.status in ("break", "return"):
                raise Unsupported(f"{e.status} inside a loop over an abstract collection at {self.where(s, st)}")
            if e.status == "raise":
                raises.append((e.value, pcond))
            for ef in fr.effects:
                if id(ef) not in seen:
                    seen.add(id(ef))
                    if ef.root is not None and ef.root in local_roots:
                        continue
                    effects.append((ef, e))
            for (ref, idx, g) in fr.reads:
                pass
        # side condition: reads of containers written by other iterations
        self.foreach_side_conditions(st, s, src, ends, rec_depth, effects, before_roots)
        # raise fork
        if raises:
            cond = z3.simplify(t_or(*[self.exists(src.binders, g) for _, g in raises]))
            classes = {v.cls for v, _ in raises}
            if len(classes) > 1:
                raise Unsupported("several exception classes raised from one summarised loop")
            extra = []
            if multi and not self.implied(st, cond) and not self.implied(st, z3.simplify(z3.Not(cond))):
                rs = st.clone()
                rs.pc.append(cond)
                self.do_raise(rs, raises[0][0])
                extra = [rs]
                st.pc.append(z3.simplify(z3.Not(cond)))
            elif self.decide(st, cond):
                self.do_raise(st, raises[0][0])
                return [st]
            else:
                st.pc.append(z3.simplify(z3.Not(cond)))
        # apply the summary to the pre-state
        try:
            self.apply_effects(st, [ef for ef, _ in effects], src.binders, s)
        except NeedSplit as ns:
            raise Unsupported(f"effects of the loop at {self.where(s, st)} cannot be merged into a summary (case split on {str(ns.cond)[:120]})")
        # variables assigned in the body are not available afterwards
        for n in (plain | tnames):
            if n in st.frame.env or st.frame.lookup(n) is not None:
                st.frame.env[n] = VPoison("value after a summarised loop depends on iteration order")
            else:
                st.frame.env[n] = VPoison("value after a summarised loop depends on iteration order")
        return extra + [st] if raises else [st]

    def foreach_side_conditions(self, st, s, src, ends, rec_depth, effects, before_roots):
        written = {}
        for ef, _ in effects:
            if ef.root is not None and ef.kind in ("set", "add", "del"):
                written.setdefault(ef.root, []).append(ef)
        k = self.loop_ordinal(st, s)
        for e in ends:
            fr = e.rec[rec_depth - 1]
            for (ref, idx, g) in fr.reads:
                cref = ref
                if cref.root not in written:
                    continue
                if isinstance(g, tuple):
                    g = t_and(*g)
                if idx is None:
                    for ef in written[cref.root]:
                        if ef.kind == "set" and self.same_path(ef.path, cref.path) and not ef.binders:
                            ren = [(b, z3.Const(f"{b}!o{next(self.ctx.counter)}", b.sort())) for b in src.binders]
                            goal = z3.Implies(t_and(g, src.guard, z3.substitute(src.guard, *ren), z3.substitute(ef.guard, *ren)),
                                              t_and(*[b == r for b, r in ren]))
                            self.ctx.obls.append(self.mk_obl(st, f"foreach-side#{k}/read-own-cell", self.forall([r for _, r in ren] + list(src.binders), goal), "foreach", self.where(s, st)))
                    continue
                for ef in written[cref.root]:
                    if ef.kind not in ("set", "add", "del"):
                        continue
                    # the read cell must not be a cell another iteration writes
                    rp = cref.path + (("k", idx),)
                    if len(ef.path) < len(rp) and not self.same_path(ef.path, rp[: len(ef.path)]):
                        pass
                    if self.same_path(ef.path[: len(rp)], rp[: len(ef.path)]):
                        continue  # reads back a cell this iteration wrote itself
                    # rename binders of the writing iteration
                    ren = [(b, z3.Const(f"{b}!o{next(self.ctx.counter)}", b.sort())) for b in list(src.binders) + list(ef.binders)]
                    wkeys = [subst(x, ren) for kk, x in ef.path if kk == "k"]
                    rkeys = [x for kk, x in rp if kk == "k"]
                    if len(wkeys) == 0:
                        raise Unsupported("loop replaces a container that it also reads")
                    diffs = []
                    for a, b in zip(wkeys, rkeys):
                        diffs.append(t_not(self.eq(st, a, b)))
                    goal = z3.Implies(t_and(z3.substitute(src.guard, *ren), z3.substitute(ef.guard, *ren), g, src.guard), t_or(*diffs))
                    self.ctx.obls.append(self.mk_obl(st, f"foreach-side#{k}/read-write", self.forall([r for _, r in ren] + list(src.binders), goal), "foreach", self.where(s, st)))

    def apply_effects(self, st, effects, loop_binders, s):
        """Apply summarised effects of a foreach loop to the state (possibly itself recording)."""
        k = self.loop_ordinal(st, s)
        groups = []
        rest_effects = []
        for ef in effects:
            if ef.kind == "set" and ef.root is not None and not ef.binders and not any(
                    kk == "k" and self.key_mentions(x, list(loop_binders)) for kk, x in ef.path):
                for grp in groups:
                    if grp[0].root == ef.root and self.same_path(grp[0].path, ef.path):
                        grp.append(ef)
                        break
                else:
                    groups.append([ef])
            else:
                rest_effects.append(ef)
        # several guarded appends to one list (different paths of the body): one bag with merged elements
        merged, appends = [], {}
        for ef in rest_effects:
            if ef.kind == "append" and not ef.binders:
                key = None
                for kk in appends:
                    if kk[0] == ef.root and self.same_path(kk[1], ef.path):
                        key = kk
                        break
                if key is None:
                    key = (ef.root, ef.path)
                    appends[key] = []
                appends[key].append(ef)
            else:
                merged.append(ef)
        for key, efs in appends.items():
            if len(efs) == 1:
                merged.append(efs[0])
                continue
            val = self.force(st, efs[-1].value)
            for e in reversed(efs[:-1]):
                val = self.v_ite(e.guard, self.force(st, e.value), val)
            merged.append(Effect("append", key[0], key[1], val, t_or(*[e.guard for e in efs]), (), where=efs[0].where))
        # emissions of one source statement reached along different paths of the body: one family
        merged2, emits = [], {}
        for ef in merged:
            if ef.kind == "emit":
                key = (ef.name, ef.where, tuple(b.get_id() for b in ef.binders))
                emits.setdefault(key, []).append(ef)
            else:
                merged2.append(ef)
        for key, efs in emits.items():
            if len(efs) == 1:
                merged2.append(efs[0])
                continue
            term = efs[-1].value
            for e in reversed(efs[:-1]):
                term = z3.If(e.guard, e.value, term)
            merged2.append(Effect("emit", None, (), term, t_or(*[e.guard for e in efs]), efs[0].binders, name=efs[0].name, where=efs[0].where))
        rest_effects = merged2
        for grp in groups:
            self.apply_const_cell_sets(st, grp, list(loop_binders), k, s)
        for ef in rest_effects:
            binders = list(ef.binders) + list(loop_binders)
            if ef.kind == "addlocal":
                cur = st.frame.lookup(ef.name)
                if isinstance(cur, VAccum):
                    # nested accumulation: forward to the enclosing recording frame
                    d = self.sum_value(st, binders, ef.guard, ef.value)
                    self.log_local_add(st, ef.name, ast.Add(), d, s)
                    continue
                d = self.sum_value(st, binders, ef.guard, ef.value)
                st.frame_set(ef.name, self.binop(st, ast.Add(), cur, d)) if hasattr(st, "frame_set") else self.set_existing(st, ef.name, self.binop(st, ast.Add(), cur, d))
                continue
            if ef.kind == "extendlocal":
                fam = ef.value
                allb = list(fam.binders) + list(binders)
                allg = t_and(ef.guard, fam.guard)
                cur = st.frame.lookup(ef.name)
                if isinstance(cur, VAccum):
                    self.log_local_add(st, ef.name, ast.Add(), VFam("list", allb, allg, fam.elem), s)
                    continue
                hcur = self.resolve(st, cur) if isinstance(cur, VRef) else None
                if not (isinstance(hcur, HList) and not hcur.items):
                    raise Unsupported("summarised list accumulation into a non-empty list")
                self.write_h(st, cur, HBag(allb, allg, fam.elem))
                continue
            if ef.kind == "unionlocal":
                hs = ef.value
                mem = self.exists(list(binders), t_and(ef.guard, hs.mem)) if binders else t_and(ef.guard, hs.mem)
                u = HSet(hs.kty, hs.binder, z3.simplify(mem))
                cur = st.frame.lookup(ef.name)
                if isinstance(cur, VAccum):
                    self.log_local_add(st, ef.name, ast.BitOr(), u, s)   # nested loop: forward to the enclosing summary
                    continue
                base = self.as_hset(st, cur, u)
                u2 = subst(u, [(u.binder, base.binder)])
                new = HSet(base.kty, base.binder, t_or(base.mem, u2.mem))
                if isinstance(cur, VRef):
                    self.write_h(st, cur, new)
                else:
                    self.set_existing(st, ef.name, self.alloc(st, new))
                continue
            if ef.kind == "emit":
                self.emit_family(st, ef, binders)
                continue
            if ef.kind in ("set", "add"):
                self.apply_cell_effect(st, ef, binders, k, s)
                continue
            if ef.kind == "append":
                if ef.path and ef.path[-1][0] == "k" and binders and self.key_mentions(ef.path[-1][1], binders) \
                        and not (st.rec and ef.root in getattr(st.rec[-1], "before", ()) and ef.root not in st.rec[-1].fresh):
                    self.apply_keyed_append(st, ef, binders, k, s)
                else:
                    self.apply_append(st, ef, binders, s)
                continue
            if ef.kind == "del":
                self.apply_del(st, ef, binders, k, s)
                continue
            raise Unsupported(f"effect {ef.kind}")

    def apply_del(self, st, ef, binders, k, s):
        """Summary of `del d[key(b)]` under guard(b): the keys some iteration deletes leave the domain. Python raises
        KeyError when two iterations delete the same key: obligation del-unique-key."""
        if st.rec and ef.root in getattr(st.rec[-1], "before", ()) and ef.root not in st.rec[-1].fresh:
            outer_g = t_and(*st.pc[st.rec[-1].pc_len:])
            st.rec[-1].effects.append(Effect("del", ef.root, ef.path, None, t_and(outer_g, ef.guard), binders, where=ef.where))
            return
        cref = VRef(ef.root, ef.path[:-1])
        cur = self.resolve(st, cref)
        if isinstance(cur, HPyDict):
            cur = self.abstract_dict(st, cur, ef.path[-1][1], None)
        if not isinstance(cur, HDict):
            raise Unsupported(f"summarised deletion from {type(cur).__name__}")
        if any(kk == "k" and self.key_mentions(x, list(binders)) for kk, x in ef.path[:-1]):
            raise Unsupported("summarised deletion below a loop-dependent key")
        key = self.lower(ef.path[-1][1], cur.kty)
        ren = [(b, z3.Const(f"{b}!d{next(self.ctx.counter)}", b.sort())) for b in binders]
        g2, key2 = z3.substitute(ef.guard, *ren) if ren else ef.guard, z3.substitute(key, *ren) if ren else key
        if ren:
            goal = z3.Implies(t_and(ef.guard, g2, key == key2), t_and(*[b == r for b, r in ren]))
            self.ctx.obls.append(self.mk_obl(st, f"foreach-side#{k}/del-unique-key", self.forall(list(binders) + [r for _, r in ren], goal), "foreach", self.where(s, st)))
        hit = self.exists(list(binders), t_and(ef.guard, key == cur.binder)) if binders else t_and(ef.guard, key == cur.binder)
        st.heap[ef.root] = self.upd(st, st.heap[ef.root], list(cref.path), HDict(cur.kty, cur.binder, z3.simplify(t_and(cur.dom, z3.Not(hit))), cur.val, cur.default, cur.vty))

    def apply_const_cell_sets(self, st, grp, binders, k, s):
        """Several guarded writes of one loop-constant cell: sound when at most one iteration writes."""
        root = grp[0].root
        if root not in st.heap:
            return
        g = t_or(*[e.guard for e in grp])
        ren = [(b, z3.Const(f"{b}!u{next(self.ctx.counter)}", b.sort())) for b in binders]
        uniq = z3.Implies(t_and(g, z3.substitute(g, *ren)), t_and(*[b == r for b, r in ren]))
        self.ctx.obls.append(self.mk_obl(st, f"foreach-side#{k}/unique-writer", self.forall(list(binders) + [r for _, r in ren], uniq), "foreach", self.where(s, st)))
        wit = [(b, self.fresh(st, "wit", b.sort())) for b in binders]
        ex = self.exists(binders, g)
        st.pc.append(z3.Implies(ex, z3.substitute(g, *wit)))
        ref = VRef(root, grp[0].path)
        old = self.resolve(st, ref) if self.path_exists(st, ref) else None
        val = None
        for e in reversed(grp):
            v = self.force(st, e.value)
            if isinstance(v, VRef):
                raise Unsupported("loop stores a container reference into a loop-constant cell")
            v = subst(v, wit)
            val = v if val is None else self.v_ite(z3.substitute(e.guard, *wit), v, val)
        if old is not None and not isinstance(old, H):
            old = self.force(st, old) if isinstance(old, VLazy) else old
            new = self.v_ite(ex, val, old)
        elif old is None:
            raise Unsupported("loop creates a new loop-constant cell")
        else:
            raise Unsupported("loop overwrites a container held in a loop-constant cell")
        self.write(st, ref, new)

    def path_exists(self, st, ref):
        try:
            self.resolve(st, ref)
            return True
        except Unsupported:
            return False

    def apply_append(self, st, ef, binders, s):
        if st.rec and ef.root in getattr(st.rec[-1], "before", ()) and ef.root not in st.rec[-1].fresh:
            outer_g = t_and(*st.pc[st.rec[-1].pc_len:])
            st.rec[-1].effects.append(Effect("append", ef.root, ef.path, ef.value, t_and(outer_g, ef.guard), binders, where=ef.where))
            return
        ref = VRef(ef.root, ef.path)
        h = self.resolve(st, ref)
        if isinstance(h, HList) and not h.items:
            new = HBag(binders, ef.guard, ef.value)
        elif isinstance(h, HBag):
            raise Unsupported("several summarised loops append to the same list")
        else:
            raise Unsupported("summarised append to a non-empty list")
        self.write_h(st, ref, new)

    def apply_keyed_append(self, st, ef, binders, k, s):
        """`table[key(b)].append(v(b))` inside a summarised loop where the key determines the iteration (key inversion
        leaves no binder undetermined, so every cell has at most one writer): the cell of key y becomes
        old(y) ++ [v(b(y))] - a keyed `set` of the extended list. With several possible writers per cell the order of
        the appended elements would matter: refused."""
        path = list(ef.path)
        cont = self.resolve(st, VRef(ef.root, tuple(path[:-1])))
        if not isinstance(cont, HDict) or cont.val is None:
            raise Unsupported("summarised append into a keyed cell of this container kind")
        x = path[-1][1]
        xx, pairs, resid, und = self.invert_key(st, binders, x, cont.kty, partial=True)
        kt = self.lower(x, cont.kty)
        if und:
            # the key is not syntactically invertible (e.g. `start + i`): side obligation - no two iterations append
            # to the same cell (then the set-summary below, which picks the unique writer as witness, is exact)
            ren = [(b, z3.Const(f"{b}!a{next(self.ctx.counter)}", b.sort())) for b in binders]
            goal = z3.Implies(t_and(ef.guard, z3.substitute(ef.guard, *ren), kt == z3.substitute(kt, *ren)), t_and(*[b == r for b, r in ren]))
            self.ctx.obls.append(self.mk_obl(st, f"foreach-side#{k}/unique-appender", self.forall(list(binders) + [r for _, r in ren], goal), "foreach", self.where(s, st)))
        if not isinstance(cont.val, HSeq) or cont.default != "list":
            raise Unsupported("summarised append into a keyed cell that is not a defaultdict(list) of value sequences")
        if isinstance(self.force(st, ef.value), VRef):
            raise Unsupported("summarised append of a container reference")
        self.apply_cell_effect(st, Effect("append", ef.root, ef.path, ef.value, ef.guard, ef.binders, where=ef.where), binders, k, s)

    def set_existing(self, st, name, v):
        f = st.frame
        while f is not None:
            if name in f.env:
                f.env[name] = v
                return
            f = f.parent
        st.frame.env[name] = v

    def sum_value(self, st, binders, guard, v):
        v = self.force(st, v)
        if isinstance(v, VLin):
            return VLin(self.bigsum(st, binders, guard, v.t))
        if isinstance(v, (VInt, VBool)):
            return VInt(self.bigsum(st, binders, guard, self.as_int(v)))
        if isinstance(v, VReal):
            return VReal(self.bigsum(st, binders, guard, v.t))
        raise Unsupported(f"accumulation of {v!r}")

    def apply_cell_effect(self, st, ef, binders, k, s):
        root = ef.root
        if root not in st.heap:
            return  # iteration-local object
        # split the path into the static prefix (fields) and keyed suffix
        path = list(ef.path)
        # in an enclosing recording frame: re-log
        if st.rec and root not in st.rec[-1].fresh:
            ref = VRef(root, tuple(path))
            if self.has_local_set_prefix(st, ref):
                pass  # falls through: apply to the local view and re-log as set of that prefix below
            else:
                outer_g = t_and(*st.pc[st.rec[-1].pc_len:])
                st.rec[-1].effects.append(Effect(ef.kind, root, ef.path, ef.value, t_and(outer_g, ef.guard), binders, where=ef.where))
        st.heap[root] = self.apply_to_h(st, st.heap[root], path, ef, binders, k, s)
        if st.rec and root not in st.rec[-1].fresh:
            ref = VRef(root, tuple(path))
            pref = self.local_set_prefix(st, ref)
            if pref is not None:
                cur = self.resolve(st, VRef(root, pref.path))
                g = t_and(*st.pc[st.rec[-1].pc_len:])
                st.rec[-1].effects.append(Effect("set", root, pref.path, cur, g, where=ef.where))

    def has_local_set_prefix(self, st, ref):
        return self.local_set_prefix(st, ref) is not None

    def local_set_prefix(self, st, ref):
        for e in st.rec[-1].effects:
            if e.kind == "set" and e.root == ref.root and not e.binders and len(e.path) <= len(ref.path) \
                    and self.same_path(e.path, ref.path[: len(e.path)]):
                return e
        return None

    def apply_to_h(self, st, cur, path, ef, binders, k, s):
        if not path:
            raise Unsupported("loop replaces a whole container")
        (kind, x), rest = path[0], path[1:]
        if kind == "f":
            if not isinstance(cur, HObj):
                raise Unsupported("effect path")
            child = self.field_value(st, cur, x)
            if isinstance(child, VRef):
                st.heap[child.root] = self.apply_to_h(st, self.resolve(st, child), rest, ef, binders, k, s) if not child.path else st.heap[child.root]
                if child.path:
                    raise Unsupported("effect through reference with path")
                return cur
            if not rest:
                raise Unsupported("loop assigns an attribute of a loop-external object (order dependent)")
            return cur.with_field(x, self.apply_to_h(st, child, rest, ef, binders, k, s))
        # keyed step
        mentions_binder = self.key_mentions(x, binders)
        if not mentions_binder:
            # constant cell w.r.t. the loop: descend
            if isinstance(cur, HDict):
                kt = self.lower(x, cur.kty)
                child = subst(cur.val, [(cur.binder, kt)])
                if not rest:
                    raise_or = self.family_update_const(st, cur, kt, ef, binders, k, s)
                    return raise_or
                newchild = self.apply_to_h(st, child, rest, ef, binders, k, s)
                return HDict(cur.kty, cur.binder, cur.dom, self.v_ite(cur.binder == kt, newchild, cur.val), cur.default, cur.vty)
            if isinstance(cur, HPyDict):
                items = list(cur.items)
                for i, (kk, vv) in enumerate(items):
                    if self.const_eq(kk, x):
                        if not rest:
                            items[i] = (kk, self.const_cell_update(st, vv, ef, binders))
                        else:
                            items[i] = (kk, self.apply_to_h(st, vv, rest, ef, binders, k, s))
                        return HPyDict(items, cur.default)
            if isinstance(cur, HListC):
                it = self.as_int(x)
                child = subst(cur.elem, [(cur.binder, it)])
                if not rest:
                    newchild = self.const_cell_update(st, child, ef, binders)
                else:
                    newchild = self.apply_to_h(st, child, rest, ef, binders, k, s)
                return HListC(cur.length, cur.binder, self.v_ite(cur.binder == it, newchild, cur.elem), cur.elem_ty)
            raise Unsupported("effect on a loop-constant cell of this container kind")
        if isinstance(cur, HPyDict):
            if cur.items:
                cur = self.abstract_dict(st, cur, x, ef.value)
            else:
                kty = self.type_of(x)
                b = z3.Const(f"dk!{next(self.ctx.counter)}", kty.sort())
                v0 = ef.value if not rest else None
                if v0 is None:
                    raise Unsupported("nested effect into an empty concrete dict")
                v0 = self.force(st, v0)
                if isinstance(v0, VRef):
                    v0 = self.resolve(st, v0)
                cur = HDict(kty, b, z3.BoolVal(False), v0, cur.default, None)
        as_list = None
        if isinstance(cur, HListC):
            as_list = cur
            cur = HDict(TInt(), cur.binder, z3.And(0 <= cur.binder, cur.binder < cur.length), cur.elem, None, cur.elem_ty)
        if not isinstance(cur, HDict):
            raise Unsupported(f"summarised write into {type(cur).__name__}")
        xx, pairs, resid, und = self.invert_key(st, binders, x, cur.kty, partial=True)
        y = cur.binder

        def inst(t):
            t = z3.substitute(t, *pairs) if pairs else t
            return z3.substitute(t, (xx, y))
        if rest:
            # nested cell: peel the binders this key determines and descend into the value template
            sub = Effect(ef.kind, ef.root, rest, subst(subst(self.force_v(st, ef.value), pairs), [(xx, y)]), inst(t_and(ef.guard, resid)), (), where=ef.where)
            sub_path = [(kk, subst(subst(xv, pairs), [(xx, y)]) if isinstance(xv, V) else xv) for kk, xv in rest]
            child = cur.val
            if cur.default is not None:
                child = self.v_ite(cur.dom, cur.val, self.default_h(cur))
            newchild = self.apply_to_h(st, child, sub_path, sub, list(und), k, s)
            res = HDict(cur.kty, cur.binder, cur.dom, newchild, cur.default, cur.vty)
            if as_list is not None:
                return HListC(as_list.length, as_list.binder, newchild, as_list.elem_ty)
            return res
        if ef.kind == "add":
            d = self.force(st, ef.value)
            g1 = inst(t_and(ef.guard, resid))
            dv = subst(subst(d, pairs), [(xx, y)])
            if und:
                contrib = self.sum_value(st, und, g1, dv)
            else:
                contrib = self.v_scale(st, g1, dv)
            oldv = cur.val
            if cur.default == "int":
                oldv = self.v_ite(cur.dom, cur.val, VInt(0))
                newdom = t_or(cur.dom, self.exists(und, g1))
            else:
                newdom = cur.dom
            if as_list is not None:
                return HListC(as_list.length, as_list.binder, self.binop(st, ast.Add(), oldv, contrib), as_list.elem_ty)
            return HDict(cur.kty, cur.binder, newdom, self.binop(st, ast.Add(), oldv, contrib), cur.default, cur.vty)
        if ef.kind == "append":
            # keyed append with at most one writer per cell (side obligation unique-appender / invertible key):
            # cell y becomes old(y) ++ [v(writer of y)]; a missing cell of a defaultdict(list) starts empty
            if not isinstance(cur.val, HSeq) or cur.default != "list":
                raise Unsupported("summarised append into a keyed cell that is not a defaultdict(list) of value sequences")
            g1 = inst(t_and(ef.guard, resid))
            v = subst(subst(self.force(st, ef.value), pairs), [(xx, y)])
            if und:
                cp, hit = self.choose(st, y, und, g1)
                v = subst(v, cp)
            else:
                hit = z3.simplify(g1)
            oldt = z3.If(cur.dom, cur.val.t, z3.Empty(cur.val.t.sort()))
            newt = z3.If(hit, z3.Concat(oldt, z3.Unit(self.lower(v, cur.val.elem_ty))), cur.val.t)
            return HDict(cur.kty, cur.binder, z3.simplify(t_or(cur.dom, hit)), HSeq(cur.val.elem_ty, newt), cur.default, cur.vty)
        # set
        body = inst(t_and(ef.guard, resid))

        val = self.force(st, ef.value)
        if isinstance(val, VRef):
            val = self.resolve(st, val)
        nv = subst(subst(val, pairs), [(xx, y)])
        if und:
            # several iterations may write the same cell: they must agree on the value (checked),
            # the summary picks a witness
            ren = [(u, z3.Const(f"{u}!w{next(self.ctx.counter)}", u.sort())) for u in und]
            ids = {u.get_id() for u in und}
            hits = []

            def probe(t):
                if mentions(t, ids):
                    hits.append(t)
                return t
            nv.map_terms(probe)
            if not hits:
                same = z3.BoolVal(True)  # the written value does not depend on the undetermined variables
            else:
                try:
                    same = self.vh_eq(st, nv, subst(nv, ren))
                except Unsupported:
                    same = z3.BoolVal(False)
            goal = z3.Implies(t_and(body, z3.substitute(body, *ren)), same)
            self.ctx.obls.append(self.mk_obl(st, f"foreach-side#{k}/same-cell-same-value", self.forall([y] + list(und) + [r for _, r in ren], goal), "foreach", self.where(s, st)))
            cp, hit = self.choose(st, y, und, body)
            nv = subst(nv, cp)
        else:
            hit = z3.simplify(body)
        newval = nv if cur.val is None else self.v_ite(hit, nv, cur.val)
        if as_list is not None:
            return HListC(as_list.length, as_list.binder, newval, as_list.elem_ty)
        return HDict(cur.kty, cur.binder, z3.simplify(t_or(cur.dom, hit)), newval, cur.default, cur.vty)

    def force_v(self, st, v):
        v = self.force(st, v)
        if isinstance(v, VRef):
            return self.resolve(st, v)
        return v

    def v_scale(self, st, g, v):
        if isinstance(v, VLin):
            return VLin(z3.If(g, v.t, z3.RealVal(0)))
        if isinstance(v, (VInt, VBool)):
            return VInt(z3.If(g, self.as_int(v), z3.IntVal(0)))
        if isinstance(v, VReal):
            return VReal(z3.If(g, v.t, z3.RealVal(0)))
        raise Unsupported("accumulated value")

    def family_update_const(self, st, cur, kt, ef, binders, k, s):
        if ef.kind != "add":
            raise Unsupported("loop overwrites a loop-constant cell (last iteration wins)")
        d = self.sum_value(st, binders, ef.guard, self.force(st, ef.value))
        old = subst(cur.val, [(cur.binder, kt)])
        return HDict(cur.kty, cur.binder, cur.dom, self.v_ite(cur.binder == kt, self.binop(st, ast.Add(), old, d), cur.val), cur.default, cur.vty)

    def const_cell_update(self, st, old, ef, binders):
        if ef.kind != "add":
            raise Unsupported("loop overwrites a loop-constant cell (last iteration wins)")
        return self.binop(st, ast.Add(), old, self.sum_value(st, binders, ef.guard, self.force(st, ef.value)))

    def key_mentions(self, x, binders):
        ids = {b.get_id() for b in binders}
        try:
            t = self.lower(x, self.type_of(x))
        except Unsupported:
            return True
        return mentions(t, ids)

    def emit_family(self, st, ef, binders):
        if not st.rec:
            fams = list(st.ghost.get("__families__", ()))
            fams.append((ef.name, tuple(binders), ef.guard, ef.value, ef.where))
            st.ghost["__families__"] = tuple(fams)
        if st.rec:
            outer_g = t_and(*st.pc[st.rec[-1].pc_len:])
            st.rec[-1].effects.append(Effect("emit", None, (), ef.value, t_and(outer_g, ef.guard), binders, name=ef.name, where=ef.where))

    # ------------------------------------------------------------------ rule I (filled in by loops.py)

    def loop_invariant_rule(self, s, st, inv, src):
        raise Unsupported("invariant rule not available")
