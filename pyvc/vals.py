"""Symbolic values (immutable) and heap descriptors."""
import z3
from .ty import (TInt, TReal, TBool, TStr, TNone, TAny, TTuple, TRec, TList, TDict, TSet, TOpt,
                 TUnion, TObj, TFunc, Ty)


class Unsupported(Exception):
    """Statement / expression form outside the supported subset (check exits 2)."""


class NeedSplit(Exception):
    def __init__(self, cond, alts=None):
        self.cond = cond
        self.alts = alts  # multiway: list of mutually exclusive, exhaustive conditions


# --------------------------------------------------------------------------- values

class V:
    def map_terms(self, fn):
        return self


class VInt(V):
    def __init__(self, t):
        self.t = z3.IntVal(t) if isinstance(t, int) else t

    def map_terms(self, fn):
        return VInt(fn(self.t))

    def __repr__(self):
        return f"VInt({self.t})"


class VReal(V):
    def __init__(self, t):
        if isinstance(t, (int, float)):
            t = z3.RealVal(repr(t) if isinstance(t, float) else t)
        self.t = t

    def map_terms(self, fn):
        return VReal(fn(self.t))

    def __repr__(self):
        return f"VReal({self.t})"


class VBool(V):
    def __init__(self, t):
        self.t = z3.BoolVal(t) if isinstance(t, bool) else t

    def map_terms(self, fn):
        return VBool(fn(self.t))

    def __repr__(self):
        return f"VBool({self.t})"


class VStr(V):
    def __init__(self, t, template=None, holes=()):
        self.t = z3.StringVal(t) if isinstance(t, str) else t
        self.template, self.holes = template, tuple(holes)  # f-string shape (used to identify LP variables)

    def map_terms(self, fn):
        return VStr(fn(self.t), self.template, [h.map_terms(fn) for h in self.holes])

    def __repr__(self):
        return f"VStr({self.t})"


class VNone(V):
    def __repr__(self):
        return "VNone"


class VOpaque(V):
    def __init__(self, t, name):
        self.t, self.name = t, name

    def map_terms(self, fn):
        return VOpaque(fn(self.t), self.name)


class VTuple(V):
    def __init__(self, items):
        self.items = tuple(items)

    def map_terms(self, fn):
        return VTuple([i.map_terms(fn) for i in self.items])

    def __repr__(self):
        return f"VTuple{self.items}"


class VRec(V):
    """NamedTuple value (Mutation, GRange)."""

    def __init__(self, cls, names, items):
        self.cls, self.names, self.items = cls, tuple(names), tuple(items)

    def map_terms(self, fn):
        return VRec(self.cls, self.names, [i.map_terms(fn) for i in self.items])

    def get(self, name):
        return self.items[self.names.index(name)]

    def __repr__(self):
        return f"{self.cls}{self.items}"


class VRef(V):
    """Reference to a (part of a) heap object: root id + access path."""

    def __init__(self, root, path=()):
        self.root, self.path = root, tuple(path)

    def map_terms(self, fn):
        return VRef(self.root, tuple((k, x.map_terms(fn) if isinstance(x, V) else x) for k, x in self.path))

    def __repr__(self):
        return f"VRef({self.root}{''.join('.'+str(x) if k=='f' else '['+str(x)+']' for k,x in self.path)})"


class VLazy(V):
    """Optional / Union typed abstract value; resolved by a case split on first use."""

    def __init__(self, ty, name, binders):
        self.ty, self.name, self.binders = ty, name, tuple(binders)

    def map_terms(self, fn):
        return VLazy(self.ty, self.name, [fn(b) for b in self.binders])


class VDyn(V):
    """Dynamically typed value: tag selects one of the alternatives."""

    def __init__(self, tag, alts, name=""):
        self.tag, self.alts, self.name = tag, tuple(alts), name  # alts: (Ty, V)

    def map_terms(self, fn):
        return VDyn(fn(self.tag), [(t, v.map_terms(fn)) for t, v in self.alts], self.name)


class VFunc(V):
    """kind: 'ast' (node + closure), 'abstract' (pure uninterpreted), 'builtin', 'bound' (method)."""

    def __init__(self, kind, **kw):
        self.kind = kind
        self.__dict__.update(kw)


class VClass(V):
    def __init__(self, name):
        self.name = name

    def __repr__(self):
        return f"VClass({self.name})"


class VModule(V):
    def __init__(self, name):
        self.name = name


class VLin(V):
    """Linear expression over LP variables, represented by its value under an arbitrary
    assignment sigma (a z3 Real term)."""

    def __init__(self, t, var=None):
        self.t = t
        self.var = var  # LPVar-sorted term when this is a bare variable

    def map_terms(self, fn):
        v = self.var
        if v is not None:
            v = (v[0], tuple(fn(k) for k in v[1]), v[2])
        return VLin(fn(self.t), v)

    def __repr__(self):
        return f"VLin({self.t})"


class VConstr(V):
    """Linear constraint: t is its truth under the assignment; diff <= 0 is its normal form."""

    def __init__(self, t, diff=None):
        self.t = t
        self.diff = diff

    def map_terms(self, fn):
        return VConstr(fn(self.t), fn(self.diff) if self.diff is not None else None)


class VFam(V):
    """Comprehension-shaped collection: for binders b with guard g, element e.
    kind: 'list' | 'set' | 'gen' ; ordered=False means order is unspecified."""

    def __init__(self, kind, binders, guard, elem, seqsrc=None):
        self.kind, self.binders, self.guard, self.elem = kind, tuple(binders), guard, elem
        self.seqsrc = seqsrc  # (seq term, index binder) when produced by filtering/mapping a sequence

    def map_terms(self, fn):
        return VFam(self.kind, self.binders, fn(self.guard), self.elem.map_terms(fn) if isinstance(self.elem, V) else self.elem,
                    None if self.seqsrc is None else (fn(self.seqsrc[0]), self.seqsrc[1]))


class VExc(V):
    def __init__(self, cls, args=()):
        self.cls, self.args = cls, args


# --------------------------------------------------------------------------- heap descriptors

class H:
    def map_terms(self, fn):
        return self


def _m(x, fn):
    return x.map_terms(fn) if isinstance(x, (V, H)) else x


class HObj(H):
    def __init__(self, cls, fields=None, lazy=None):
        self.cls = cls
        self.fields = dict(fields or {})
        self.lazy = lazy  # (name, binders) for abstract objects whose fields materialise on demand

    def map_terms(self, fn):
        lz = None if self.lazy is None else (self.lazy[0], tuple(fn(b) for b in self.lazy[1]))
        return HObj(self.cls, {k: _m(v, fn) for k, v in self.fields.items()}, lz)

    def with_field(self, f, v):
        d = dict(self.fields)
        d[f] = v
        return HObj(self.cls, d, self.lazy)


class HSeq(H):
    """List of z3-encodable elements as a z3 sequence."""

    def __init__(self, elem_ty, t):
        self.elem_ty, self.t = elem_ty, t

    def map_terms(self, fn):
        return HSeq(self.elem_ty, fn(self.t))


class HList(H):
    """Concrete-length list of arbitrary values."""

    def __init__(self, items):
        self.items = tuple(items)

    def map_terms(self, fn):
        return HList([_m(i, fn) for i in self.items])


class HListC(H):
    """Comprehension-shaped list: length + element template over an index binder."""

    def __init__(self, length, binder, elem, elem_ty=None):
        self.length, self.binder, self.elem, self.elem_ty = length, binder, elem, elem_ty

    def map_terms(self, fn):
        return HListC(fn(self.length), self.binder, _m(self.elem, fn), self.elem_ty)


class HDict(H):
    """Comprehension-shaped dict: key binder, domain predicate, value template."""

    def __init__(self, kty, binder, dom, val, default=None, vty=None, ordered=None):
        self.kty, self.binder, self.dom, self.val = kty, binder, dom, val
        self.default, self.vty = default, vty

    def map_terms(self, fn):
        return HDict(self.kty, self.binder, fn(self.dom), _m(self.val, fn) if self.val is not None else None, self.default, self.vty)


class HPyDict(H):
    """Concrete dict: insertion-ordered (key, value) pairs with pairwise distinct constant keys."""

    def __init__(self, items, default=None):
        self.items = tuple(items)
        self.default = default

    def map_terms(self, fn):
        return HPyDict([(_m(k, fn), _m(v, fn)) for k, v in self.items], self.default)


class HBag(H):
    """Comprehension-shaped list whose order is unspecified (result of appends inside a summarised loop)."""

    def __init__(self, binders, guard, elem):
        self.binders, self.guard, self.elem = tuple(binders), guard, elem

    def map_terms(self, fn):
        return HBag(self.binders, fn(self.guard), _m(self.elem, fn))


class HSet(H):
    def __init__(self, kty, binder, mem):
        self.kty, self.binder, self.mem = kty, binder, mem

    def map_terms(self, fn):
        return HSet(self.kty, self.binder, fn(self.mem))


class HPySet(H):
    def __init__(self, items):
        self.items = tuple(items)

    def map_terms(self, fn):
        return HPySet([_m(i, fn) for i in self.items])


def subst(x, pairs):
    """Substitute z3 constants inside a V/H template."""
    if not pairs:
        return x
    pairs = [(a, b) for a, b in pairs if not a.eq(b)]
    if not pairs:
        return x

    def fn(t):
        return z3.substitute(t, *pairs)

    return x.map_terms(fn) if isinstance(x, (V, H)) else fn(x)


def is_lit(t):
    return z3.is_int_value(t) or z3.is_rational_value(t) or z3.is_true(t) or z3.is_false(t) or z3.is_string_value(t)


def pyconst(v):
    """Python constant of a literal symbolic value, or None marker (returns (ok, value))."""
    if isinstance(v, VNone):
        return True, None
    if isinstance(v, VInt):
        t = z3.simplify(v.t)
        if z3.is_int_value(t):
            return True, t.as_long()
    if isinstance(v, VReal):
        t = z3.simplify(v.t)
        if z3.is_rational_value(t):
            return True, float(t.numerator_as_long()) / float(t.denominator_as_long())
    if isinstance(v, VBool):
        t = z3.simplify(v.t)
        if z3.is_true(t):
            return True, True
        if z3.is_false(t):
            return True, False
    if isinstance(v, VStr):
        t = z3.simplify(v.t)
        if z3.is_string_value(t):
            return True, t.as_string()
    if isinstance(v, VTuple):
        xs = [pyconst(i) for i in v.items]
        if all(o for o, _ in xs):
            return True, tuple(x for _, x in xs)
    return False, None
