"""Front end: read the real source from the repository on every run."""
import ast
import hashlib
import os

REPO = os.environ.get("VERIF_REPO", "/repo")

_MOD_CACHE = {}


class Module:
    def __init__(self, name, path):
        self.name = name
        self.path = path
        with open(path) as f:
            self.text = f.read()
        self.tree = ast.parse(self.text, filename=path)
        self.imports = {}  # local name -> qualified name
        self.globals = {}  # name -> ast node (FunctionDef / ClassDef / Assign value)
        pkg = name.rsplit(".", 1)[0] if "." in name else name
        for node in self.tree.body:
            if isinstance(node, ast.ImportFrom):
                base = node.module or ""
                if node.level:
                    base = pkg + ("." + base if base else "")
                for a in node.names:
                    self.imports[a.asname or a.name] = base + "." + a.name
            elif isinstance(node, ast.Import):
                for a in node.names:
                    self.imports[a.asname or a.name.split(".")[0]] = a.name if a.asname else a.name.split(".")[0]
            elif isinstance(node, (ast.FunctionDef, ast.ClassDef)):
                self.globals[node.name] = node
            elif isinstance(node, ast.Assign):
                for t in node.targets:
                    if isinstance(t, ast.Name):
                        self.globals[t.id] = node.value
            elif isinstance(node, ast.AnnAssign) and isinstance(node.target, ast.Name) and node.value is not None:
                self.globals[node.target.id] = node.value


def load_module(modname):
    """modname like 'aldy.coverage'."""
    if modname not in _MOD_CACHE:
        path = os.path.join(REPO, *modname.split(".")) + ".py"
        if not os.path.exists(path):
            raise FileNotFoundError(path)
        _MOD_CACHE[modname] = Module(modname, path)
    return _MOD_CACHE[modname]


def clear_cache():
    _MOD_CACHE.clear()


class FuncInfo:
    def __init__(self, qualname, module, node, cls=None, outer=None):
        self.qualname = qualname
        self.module = module
        self.node = node
        self.cls = cls  # ClassDef or None
        self.outer = outer  # enclosing FuncInfo for nested defs

    @property
    def source(self):
        return ast.get_source_segment(self.module.text, self.node) or ""

    @property
    def sha(self):
        return hashlib.sha256(self.source.encode()).hexdigest()[:16]

    @property
    def lineno(self):
        return self.node.lineno


def _find_in_body(body, name):
    for n in body:
        if isinstance(n, (ast.FunctionDef, ast.ClassDef)) and n.name == name:
            return n
    return None


def _find_nested(fn, name):
    for n in ast.walk(fn):
        if n is not fn and isinstance(n, ast.FunctionDef) and n.name == name:
            return n
    return None


_SLICES = None


def slices():
    """SLICES of contracts/config.py: 'module.func@tag' -> {'first': ..., 'last': ..., 'params': [...]}"""
    global _SLICES
    if _SLICES is None:
        _SLICES = {}
        path = os.path.join(os.path.dirname(os.path.dirname(os.path.abspath(__file__))), "contracts", "config.py")
        try:
            for n in ast.parse(open(path).read()).body:
                if isinstance(n, ast.Assign) and n.targets[0].id == "SLICES":
                    _SLICES = ast.literal_eval(n.value)
        except (OSError, SyntaxError, ValueError):
            pass
    return _SLICES


def find_slice(qualname):
    """A contiguous run of top-level statements of a real function, extracted mechanically on every run: the
    statements from the one whose source starts with `first` to the one whose source starts with `last` (each must
    match exactly once). The names the slice reads become parameters (declared in `params`); everything before and
    after the slice is dropped - the slice is verified for ARBITRARY values of its free names."""
    spec = slices().get(qualname)
    base = find_function(qualname.split("@")[0])
    if spec is None or base is None:
        return None
    body = base.node.body
    for inside in ([spec["inside"]] if isinstance(spec.get("inside"), str) else spec.get("inside", [])):
        # descend into the body of the (unique) compound statement whose source starts with `inside`: the slice is a run
        # of statements of a loop / if body; the loop variables are free names of the slice like any other
        cands = []
        for b in body:
            cands.append(b)
            x = b
            while isinstance(x, ast.If) and len(x.orelse) == 1 and isinstance(x.orelse[0], ast.If):
                x = x.orelse[0]      # the branches of an if / elif chain are siblings
                cands.append(x)
            if isinstance(x, ast.If) and x.orelse and not (len(x.orelse) == 1 and isinstance(x.orelse[0], ast.If)):
                cands.extend(x.orelse)   # ... and so are the statements of its final else block
        outer = [b for b in cands if ast.unparse(b).startswith(inside) and hasattr(b, "body")]
        if len(outer) != 1:
            return None
        body = outer[0].body
    if spec.get("else_of"):
        # the slice lies in the final else block of the (unique) if / elif chain that starts with this prefix
        chain = [b for b in body if isinstance(b, ast.If) and ast.unparse(b).startswith(spec["else_of"])]
        if len(chain) != 1:
            return None
        x = chain[0]
        while len(x.orelse) == 1 and isinstance(x.orelse[0], ast.If):
            x = x.orelse[0]
        body = x.orelse
    srcs = [ast.unparse(b) for b in body]
    if spec.get("whole"):
        # the complete body of the innermost `inside` block (statements added to the block are part of the slice)
        if not body:
            return None
        i0, i1 = [0], [len(body) - 1]
    else:
        i0 = [i for i, t in enumerate(srcs) if t.startswith(spec["first"])]
        i1 = [i for i, t in enumerate(srcs) if t.startswith(spec["last"])]
    if len(i0) != 1 or len(i1) != 1 or i1[0] < i0[0]:
        return None
    stmts = list(body[i0[0]: i1[0] + 1])
    if spec.get("inside"):
        # one iteration of a loop body: `continue` ends the iteration, i.e. the slice (with the declared result)
        import copy as _copy

        class _Cont(ast.NodeTransformer):
            def visit_For(self, n):
                return n

            def visit_While(self, n):
                return n

            def visit_FunctionDef(self, n):
                return n

            def visit_Continue(self, n):
                r = ast.Return(value=ast.parse(spec["result"], mode="eval").body if spec.get("result") else None)
                return ast.copy_location(r, n)
        stmts = [ast.fix_missing_locations(_Cont().visit(_copy.deepcopy(x))) for x in stmts]
    if spec.get("result"):
        # the value of one local after the slice is the slice's result
        stmts.append(ast.Return(value=ast.parse(spec["result"], mode="eval").body))   # a name or a tuple of names
    fn = ast.FunctionDef(name=base.node.name, args=ast.arguments(posonlyargs=[], args=[ast.arg(arg=a) for a in spec["params"]], kwonlyargs=[],
                                                                 kw_defaults=[], defaults=[]),
                         body=list(stmts), decorator_list=[], returns=None, type_comment=None)
    real = body[i0[0]: i1[0] + 1]
    fn.lineno, fn.col_offset = real[0].lineno, 0
    fn.end_lineno, fn.end_col_offset = real[-1].end_lineno, real[-1].end_col_offset
    ast.fix_missing_locations(fn)
    fn.lineno, fn.end_lineno, fn.col_offset, fn.end_col_offset = real[0].lineno, real[-1].end_lineno, 0, real[-1].end_col_offset
    return FuncInfo(qualname, base.module, fn, None, None)


def find_function(qualname):
    """'aldy.coverage.Coverage.basic_filter', 'aldy.sam.Sample._parse_read.bin_quality', slice 'aldy.genotype.genotype@tag'."""
    if "@" in qualname:
        return find_slice(qualname)
    parts = qualname.split(".")
    # longest prefix that is a module file
    for i in range(len(parts) - 1, 0, -1):
        mod = ".".join(parts[:i])
        path = os.path.join(REPO, *parts[:i]) + ".py"
        if os.path.exists(path):
            m = load_module(mod)
            rest = parts[i:]
            node, cls, outer = None, None, None
            body = m.tree.body
            cur = None
            for j, nm in enumerate(rest):
                if cur is None or isinstance(cur, ast.ClassDef):
                    nxt = _find_in_body(body if cur is None else cur.body, nm)
                else:
                    nxt = _find_nested(cur, nm)
                if nxt is None:
                    return None
                if isinstance(cur, ast.ClassDef):
                    cls = cur
                if isinstance(cur, ast.FunctionDef):
                    outer = FuncInfo(".".join(parts[: i + j]), m, cur, cls)
                cur = nxt
            if isinstance(cur, ast.FunctionDef):
                return FuncInfo(qualname, m, cur, cls, outer)
            return None
    return None


def class_bases(modname, clsname):
    m = load_module(modname)
    c = m.globals.get(clsname)
    out = []
    if isinstance(c, ast.ClassDef):
        for b in c.bases:
            if isinstance(b, ast.Name):
                out.append(b.id)
    return out


def find_method(modname, clsname, meth):
    """Resolve a method through single inheritance inside one module."""
    seen = set()
    cur = clsname
    while cur and cur not in seen:
        seen.add(cur)
        fi = find_function(f"{modname}.{cur}.{meth}")
        if fi:
            return fi
        bs = class_bases(modname, cur)
        cur = bs[0] if bs else None
    return None


DROPPED = [
    "type annotations", "docstrings", "log.* calls (and f-strings that are only their arguments)",
    "Timing context managers (body kept)", "debug_info[...] writes into the process-wide debug store",
    "if debug: model.dump(...)",
    "slices (qualname@tag): all statements of the function before and after the slice (for a slice `inside` a loop body: the loop itself - one iteration for arbitrary values of the loop variables); free names of the slice are arbitrary parameters",
]
