"""Rule I (DESIGN.md 2.5): loop invariants for `while` loops over scalar locals.

Scope (everything else raises Unsupported, nothing is approximated):
  * `while` loops without `else`, selected by their ordinal k among the loops of the function under
    verification; the contract supplies `invariant(cond, ..., loop=k)`;
  * the body consists of assignments / augmented assignments to plain local names, `if` statements over such
    assignments and `pass`; the assigned locals hold scalars (int, float, bool, str) before the loop and after
    the body; the body does not change the heap (checked on the executed body) and leaves the loop only by
    falling through (no break / return / raise inside the body).

Obligations:  loop#k/init       the invariant holds on entry
              loop#k/preserved  from a state with havocked assigned locals that satisfies the invariant and the
                                guard, every path through the body re-establishes the invariant
(safety obligations of the guard and of the body are generated under the invariant as usual.)
After the loop: the assigned locals are arbitrary values satisfying the invariant and the negated guard.
Partial correctness: termination of the loop is not proved."""
import ast
import z3

from .ty import TInt, TReal, TBool, TStr
from .vals import *  # noqa
from .symex import Obligation
from .stmts import StmtMixin


def _assigned_names(stmts):
    """Names assigned in a loop body made of the supported statement forms; Unsupported otherwise."""
    names = []

    def visit(s):
        if isinstance(s, ast.Pass):
            return
        if isinstance(s, ast.Assign):
            for t in s.targets:
                if not isinstance(t, ast.Name):
                    raise Unsupported("invariant rule: loop body assigns to something other than a local name")
                names.append(t.id)
            return
        if isinstance(s, ast.AugAssign):
            if not isinstance(s.target, ast.Name):
                raise Unsupported("invariant rule: loop body assigns to something other than a local name")
            names.append(s.target.id)
            return
        if isinstance(s, ast.If):
            for x in s.body + s.orelse:
                visit(x)
            return
        raise Unsupported(f"invariant rule: statement {type(s).__name__} in a loop body")
    for s in stmts:
        visit(s)
    # no walrus / comprehension-scoped rebinding of the havocked names inside expressions
    for s in stmts:
        for n in ast.walk(s):
            if isinstance(n, ast.NamedExpr):
                raise Unsupported("invariant rule: assignment expression in a loop body")
    out = []
    for n in names:
        if n not in out:
            out.append(n)
    return out


class LoopMixin(StmtMixin):

    def _scalar_type(self, v):
        if isinstance(v, VBool):
            return TBool()
        if isinstance(v, VInt):
            return TInt()
        if isinstance(v, VReal):
            return TReal()
        if isinstance(v, VStr):
            return TStr()
        return None

    def _inv_conditions(self, st, inv):
        """[(text, z3 condition)] of the invariant clauses in the current state (locals visible by name)."""
        out = []
        for d in inv:
            env = dict(d.env)
            env.update(self.snapshot_env(st))
            for a in d.node.args:
                c = self.with_env(st, env, lambda a=a: self.cond(st, a))
                out.append((ast.unparse(a), c))
        return out

    def loop_invariant_rule(self, s, st, inv, src):
        if src is not None or not isinstance(s, ast.While):
            raise Unsupported("invariant rule: only `while` loops are supported")
        if s.orelse:
            raise Unsupported("invariant rule: while ... else")
        if st.rec:
            raise Unsupported("invariant rule inside a summarised (rule F) loop")
        k = self.loop_ordinal(st, s)
        where = self.where(s, st)
        names = _assigned_names(s.body)
        frame = st.frame
        for n in names:
            if n not in frame.env:
                raise Unsupported(f"invariant rule: '{n}' is assigned in the loop but not defined before it")
            if self._scalar_type(self.force(st, frame.env[n])) is None:
                raise Unsupported(f"invariant rule: loop-carried variable '{n}' is not a scalar")
        # 1. the invariant holds on entry
        for text, c in self._inv_conditions(st, inv):
            self.ctx.obls.append(Obligation(f"loop#{k}/init", "loop", st.hyps(), z3.simplify(c), where, {"text": text}))
        # 2. arbitrary iteration: havoc the assigned locals, assume the invariant
        types0 = {}
        for n in names:
            types0[n] = self._scalar_type(self.force(st, frame.env[n]))
            frame.env[n] = self.fresh_of(st, types0[n], f"loop{k}_{n}")
        for text, c in self._inv_conditions(st, inv):
            st.pc.append(z3.simplify(c))
        fi = self.frame_finfo(st)
        self.ctx.loops.append((fi.qualname if fi else "?", k, "I"))
        # 3. guard; the body re-establishes the invariant; the exit states go on
        out = []
        heap_in, events_in = dict(st.heap), len(st.events)
        for y, taken in self.exec_guard(s.test, st):
            if y.status != "run":
                raise Unsupported("invariant rule: the loop guard does not evaluate normally")
            if len(y.events) != events_in or any(y.heap.get(r) is not h for r, h in heap_in.items()):
                raise Unsupported("invariant rule: the loop guard has side effects")
            if not taken:
                out.append(y)
                continue
            heap0 = dict(y.heap)
            for z in self.exec_block(s.body, [y]):
                if z.status != "run":
                    raise Unsupported(f"invariant rule: the loop body is left by {z.status}")
                for r, h in heap0.items():
                    if z.heap.get(r) is not h:
                        raise Unsupported("invariant rule: the loop body changes the heap")
                if len(z.events) != events_in:
                    raise Unsupported("invariant rule: the loop body performs observable calls")
                for n in names:
                    if self._scalar_type(self.force(z, z.frame.env[n])) != types0[n]:
                        raise Unsupported(f"invariant rule: loop-carried variable '{n}' changes its type in the body")
                for text, c in self._inv_conditions(z, inv):
                    self.ctx.obls.append(Obligation(f"loop#{k}/preserved", "loop", z.hyps(), z3.simplify(c), where, {"text": text}))
        return out
