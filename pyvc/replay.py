"""Bridge to the native (CPython) contract checker in /verif/replay: replay of refuted obligations and
the bounded stand-in. Runs under /venv/bin/python against $VERIF_REPO."""
import json
import os
import subprocess
import sys

ROOT = os.path.dirname(os.path.dirname(os.path.abspath(__file__)))
NATIVE_PY = os.environ.get("VERIF_NATIVE_PYTHON", "/venv/bin/python")


def run_native(qualname, n=150, seed=0, budget_s=40, extra=()):
    """Run the native contract checker for one function. Returns the parsed JSON (or an error dict)."""
    cmd = [NATIVE_PY, os.path.join(ROOT, "replay", "native.py"), "--function", qualname, "--n", str(n),
           "--seed", str(seed), "--budget-s", str(budget_s)] + list(extra)
    env = dict(os.environ)
    env.setdefault("VERIF_REPO", "/repo")
    env["PYTHONHASHSEED"] = "0"
    try:
        p = subprocess.run(cmd, capture_output=True, text=True, timeout=budget_s * 4 + 120, env=env)
    except subprocess.TimeoutExpired:
        return {"function": qualname, "status": "error", "message": "native checker timed out", "cases": 0, "violations": []}
    out = p.stdout
    i = out.find("{")
    try:
        d = json.loads(out[i:])
    except Exception:
        return {"function": qualname, "status": "error", "message": (out[-1500:] + p.stderr[-1500:]), "cases": 0, "violations": []}
    return d


def clause_matches(native_clause, engine_name):
    """Clause naming: native 'frame/self' vs engine 'frame/p:self'; otherwise identical."""
    if native_clause == engine_name:
        return True
    if native_clause.startswith("frame/") and engine_name == "frame/p:" + native_clause[6:]:
        return True
    return False


def try_replay(pid, fn, obligation, o, native_result=None):
    """Replay a refuted obligation natively. Returns dict with replayed/reproduced."""
    if native_result is None:
        return None
    if native_result.get("status") == "violation":
        hits = [v for v in native_result.get("violations", []) if clause_matches(v.get("clause", ""), obligation)]
        anyv = native_result.get("violations", [])
        if hits:
            return {"replayed": True, "reproduced": True, "native_clause": hits[0]["clause"], "failing_input": hits[0].get("input"),
                    "native_detail": hits[0].get("detail"), "native_cases": native_result.get("cases")}
        if anyv:
            return {"replayed": True, "reproduced": True, "native_clause": anyv[0]["clause"], "failing_input": anyv[0].get("input"),
                    "native_detail": anyv[0].get("detail"), "native_cases": native_result.get("cases"),
                    "note": "the native run violates a different clause of the same contract"}
    if native_result.get("status") == "ok":
        return {"replayed": True, "reproduced": None, "native_cases": native_result.get("cases"),
                "note": "bounded native search found no failing input"}
    return {"replayed": False, "note": native_result.get("message", native_result.get("status"))}


def show_replay(path):
    with open(path) as f:
        d = json.load(f)
    print(json.dumps(d, indent=1)[:6000])
    fn = d.get("function")
    if fn and not d.get("bounded_only"):
        r = run_native(fn, n=300, seed=0)
        print("native re-run:", r.get("status"), "cases", r.get("cases"))
        for v in r.get("violations", [])[:3]:
            print("  ", v.get("clause"), v.get("detail"), (v.get("input") or "")[:500])
        return 1 if r.get("status") == "violation" else 0
    return 0
