# Result-level contracts for the three solver stages (aldy/cn.py, aldy/major.py, aldy/minor.py):
# properties C03 (gene structure), C02 (major star-alleles), C04 (minor refinement), the score-carry part
# of C10, C14 (candidate isolation, frames) and C15 (candidate filter).
#
# NATIVE ONLY: every contract here is marked symbolic=False and is executed by /verif/replay/native.py with
# the REAL CBC solver on tiny generated instances (hooks: /verif/replay/inputs_stages.py, factories:
# /verif/replay/factories_stages.py).  The contracts of cn.py / major.py describe the MODEL that the stage
# builds (symbolic); the contracts here are complementary: they look at what the stage RETURNS and compare it
# with an independent brute-force enumeration written from the property statements (spec functions below are
# ordinary Python, statements allowed).  `aldy.cn.solve_cn_model` and `aldy.major.solve_major_model` already
# have symbolic contracts under their plain names; ALL contracts of this file are therefore registered under the
# variant tag `#results` (the symbolic engine ignores variant-tagged keys, the native checker runs the real
# function named before the `#`):
#
#     /venv/bin/python /verif/replay/native.py --function 'aldy.cn.solve_cn_model#results' --n 100 --seed 0
#     ... 'aldy.major.solve_major_model#results'   'aldy.minor.solve_minor_model#results'
#         'aldy.minor.estimate_minor#results'      'aldy.major._filter_alleles#results'
#         'aldy.major.estimate_major#results'                         (--genes toy|multi|cyp2a6|gstm1)
#
# Shared vocabulary: support(), depth_at(), copies_at(), hq() (spec.py); observed_copies() (major.py);
# res_none(), res_effect(), res_definition(), res_carried(), res_deletion_allele() (solutions_accessors.py).
#
# KNOWN FINDINGS on the unchanged tree (clauses kept, each under its own label) are listed at the end of
# each section.

STG_TOL = 0.0001        # solver tolerance when two objective values are compared (absolute + relative)
STG_GAP_SLACK = 0.00001  # aldy/lpinterface.py: a solution is still within the gap up to this absolute slack
STE_TIE = 0.001         # bound of the minor model's tie-breaker (minor_add * 1e-6 * index per added variant)


def stg_close(a, b):
    return abs(a - b) <= STG_TOL * (1 + max(abs(a), abs(b)))


def stg_has_copies(gene, major, pos):
    """C04: 'an allele that has gene copies at that position': the structural configuration of the allele
    keeps the region of the position (in the gene copy the position belongs to)."""
    return (pos in gene._region_at
            and gene.cn_configs[gene.alleles[major].cn_config].cn[gene._region_at[pos][0]][gene._region_at[pos][1]] > 0)


def stg_key(m):
    return (m.pos, m.op)


# =========================================================================== C03: solve_cn_model (results)

def stc_admitted(gene, cn_configs, fusion_support, max_cn):
    """Configurations a structure may use: the candidates; with long-read fusion support values the weak
    fusions (support below 1 / (2 * maximum copy number)) are left out, the default and the whole-gene
    deletion configuration always stay."""
    dele = res_deletion_allele(gene)
    return sorted(c for c in cn_configs
                  if not fusion_support or c == "1" or c == dele
                  or (c in fusion_support and fusion_support[c] >= 1 / (2 * max_cn)))


def stc_explanations(gene, cn_configs, max_cn, fusion_support):
    """C03: every admissible explanation (pair, extras, pseudo) of the region depths:
    'exactly two complete haplotype configurations (a whole-gene deletion counts as one ...) plus optional
    extra gene copies, uses a fusion or deletion configuration at most twice, and never combines a double
    deletion with anything else'.
      pair    the two complete configurations (any admitted configuration, each at most twice)
      extras  how many pseudogene-free extra copies of each default-kind configuration (0 .. max_cn - 1)
      pseudo  free pseudogene copies (0 .. max_cn; only for a gene with a pseudogene and a deletion allele)"""
    import itertools
    names = stc_admitted(gene, cn_configs, fusion_support, max_cn)
    dele = res_deletion_allele(gene)
    defaults = [c for c in names if cn_configs[c].kind == CNConfigType.DEFAULT]
    extra_choices = [dict(zip(defaults, ks)) for ks in itertools.product(range(0, max(1, max_cn)), repeat=len(defaults))]
    pseudo_choices = list(range(0, max_cn + 1)) if len(gene.regions) > 1 and dele is not None else [0]
    out = []
    for pair in itertools.combinations_with_replacement(names, 2):
        for ex in extra_choices:
            for k in pseudo_choices:
                if dele is not None and pair == (dele, dele) and (sum(ex.values()) > 0 or k > 0):
                    continue        # a double deletion is never combined with anything else
                out.append((pair, ex, k))
    return out


def stc_fold(gene, expl):
    """The structure an explanation is reported as: its configurations; the whole-gene deletion and the free
    pseudogene copies are left implicit."""
    dele = res_deletion_allele(gene)
    c = Counter(x for x in expl[0] if x != dele)
    for x, k in expl[1].items():
        if k > 0:
            c[x] += k
    return tuple(sorted(c.elements()))


def stc_objective(gene, profile, cn_configs, region_coverage, expl):
    """C03 'the documented objective (normalised depth-fit error, gene-fit error and parsimony penalties)':
        cn_diff / |R| * sum_r w_r |e_r|  +  cn_fit / |R| * sum_r |g_r|  +  cn_parsimony * sum penalties
    over the copy-number regions R, where (d0, d1) are the observed gene / pseudogene depths of r,
        g_r = d0 - gene copies of r,   e_r = ((d0 - d1) - (gene copies - pseudogene copies)) / (max(d0, d1) + 1),
        w_r = cn_pce_penalty for the region 'pce', else 1,
    every used slot costs 7.5 / |R| (fusions: * (1 + cn_fusion_left / cn_fusion_right)).  The error terms are
    bounded by cn_max: an explanation that needs a larger error is not admissible (None)."""
    pair, extras, pseudo = expl
    dele = res_deletion_allele(gene)
    nreg = len(gene.unique_regions)
    two = len(gene.regions) > 1
    diff, fit = 0.0, 0.0
    for r in gene.unique_regions:
        if r not in region_coverage:
            continue
        d0, d1 = region_coverage[r]
        g0 = sum(cn_configs[c].cn[0][r] for c in pair) + sum(k * cn_configs[c].cn[0][r] for c, k in extras.items())
        g1 = 0
        if two:
            g1 = (sum(cn_configs[c].cn[1][r] for c in pair) + sum(k * (cn_configs[c].cn[1][r] - 1) for c, k in extras.items())
                  + (pseudo * cn_configs[dele].cn[1][r] if pseudo else 0))
        e = ((d0 - d1) - (g0 - g1)) / (max(d0, d1) + 1)
        g = d0 - g0
        if abs(e) > profile.cn_max + 1e-9 or abs(g) > profile.cn_max + 1e-9:
            return None
        diff += (profile.cn_pce_penalty if r == "pce" else 1) * abs(e)
        fit += abs(g)
    base = 0.75 * 10.0 / nreg
    pen = 0.0
    for c in pair:
        kind = gene.cn_configs[c].kind
        pen += base * (1 + (profile.cn_fusion_left if kind == CNConfigType.LEFT_FUSION else 0)
                       + (profile.cn_fusion_right if kind == CNConfigType.RIGHT_FUSION else 0))
    pen += base * (sum(extras.values()) + pseudo)
    return profile.cn_diff / nreg * diff + profile.cn_fit / nreg * fit + profile.cn_parsimony * pen


def stc_table(gene, profile, cn_configs, max_cn, region_coverage, fusion_support):
    """Brute force: [(reported structure, objective)] of every admissible explanation that respects the error bounds."""
    out = []
    for ex in stc_explanations(gene, cn_configs, max_cn, fusion_support):
        o = stc_objective(gene, profile, cn_configs, region_coverage, ex)
        if o is not None:
            out.append((stc_fold(gene, ex), o))
    return out


def stc_struct(s):
    return tuple(sorted(Counter(s.solution).elements()))


def stc_two_complete_ok(gene, cn_configs, result):
    """C03: 'every reported gene structure is made of exactly two complete haplotype configurations (a
    whole-gene deletion counts as one and is the only configuration that may be left implicit) plus optional
    extra gene copies': only default-kind configurations can be extra copies, so at most two copies are of
    another kind, and fewer than two named copies need a deletion configuration to fill the haplotypes."""
    dele = res_deletion_allele(gene)
    bad = []
    for s in result:
        names = [c for c in stc_struct(s) if c != dele]
        explicit_del = len(stc_struct(s)) - len(names)
        nondef = [c for c in names if c not in cn_configs or cn_configs[c].kind != CNConfigType.DEFAULT]
        if (any(c not in cn_configs for c in names) or len(nondef) + explicit_del > 2
                or (len(names) + explicit_del < 2 and dele is None)):
            bad.append(f"{dict(s.solution)}")
    return res_none(bad)


def stc_at_most_twice_ok(gene, cn_configs, result):
    """C03: 'uses a fusion or deletion configuration at most twice'."""
    return res_none([f"{dict(s.solution)}: {c} x{k}" for s in result for c, k in s.solution.items()
                     if k > 2 and (c not in cn_configs or cn_configs[c].kind != CNConfigType.DEFAULT)])


def stc_double_deletion_ok(gene, profile, cn_configs, region_coverage, result):
    """C03: 'never combines a double deletion with anything else': the empty structure is two whole-gene
    deletions and nothing else, so it needs a deletion configuration and its score is the objective of exactly
    that explanation (no extra copies, no free pseudogene copies hidden behind it)."""
    dele = res_deletion_allele(gene)
    bad = []
    for s in result:
        if len(stc_struct(s)) == 0:
            if dele is None or dele not in cn_configs:
                bad.append("empty structure for a gene without deletion configuration")
            else:
                o = stc_objective(gene, profile, cn_configs, region_coverage, ((dele, dele), {}, 0))
                if o is None or not stg_close(o, s.score):
                    bad.append(f"empty structure scored {s.score}, two deletions alone give {o}")
    return res_none(bad)


def stc_explainable_ok(table, result):
    """C03: every reported structure has an admissible explanation, and its 'score equals the documented
    objective ... of' one of them."""
    return res_none([f"{dict(s.solution)} score {s.score}: admissible explanations score "
                     f"{sorted(round(o, 5) for st, o in table if st == stc_struct(s))[:4]}"
                     for s in result if not any(st == stc_struct(s) and stg_close(o, s.score) for st, o in table)])


def stc_best_explanation_ok(table, result):
    """C03: 'Its score equals the documented objective ... of the BEST explanation of that structure'."""
    return res_none([f"{dict(s.solution)} score {s.score}, best explanation {min(o for st, o in table if st == stc_struct(s))}"
                     for s in result if any(st == stc_struct(s) for st, o in table)
                     and not stg_close(min(o for st, o in table if st == stc_struct(s)), s.score)])


def stc_within_gap_ok(profile, result):
    """C03: 'all reported ones lie within the gap' (up to the solver slack 1e-5)."""
    best = min([s.score for s in result], default=0.0)
    return res_none([f"{dict(s.solution)} score {s.score} > (1 + {profile.gap}) * {best}" for s in result
                     if s.score > (1 + profile.gap) * best + STG_GAP_SLACK + 1e-9])


def stc_no_repeat_ok(result):
    """C03: 'none is repeated'."""
    c = Counter(stc_struct(s) for s in result)
    return res_none([f"{k} x{v}" for k, v in c.items() if v > 1])


def stc_optimal_ok(table, result):
    """C03: 'no admissible structure scores lower than the best reported one' - and one is reported whenever
    an admissible structure exists."""
    if len(table) == 0:
        return res_none([f"no admissible structure, but {dict(s.solution)} is reported" for s in result])
    if len(result) == 0:
        return res_none([f"nothing reported, but {min(table, key=lambda t: t[1])} is admissible"])
    lo = min(o for _, o in table)
    best = min(s.score for s in result)
    return res_none([] if stg_close(lo, best) else [f"best reported {best}, best admissible {min(table, key=lambda t: t[1])}"])


def stc_contains(big, small):
    return not (Counter(small) - Counter(big))


def stc_complete_ok(profile, table, result):
    """C03: 'an admissible within-gap structure that is not reported always contains a reported structure that
    scores no worse' (structures strictly inside the gap, beyond the solver tolerance)."""
    if len(table) == 0 or len(result) == 0:
        return True
    ub = (1 + profile.gap) * min(o for _, o in table)
    reported = {stc_struct(s) for s in result}
    return res_none([f"{st} ({o})" for st, o in sorted(set(table))
                     if o < ub - STG_TOL * (1 + abs(ub)) and st not in reported
                     and not any(stc_contains(st, stc_struct(s)) and s.score <= o + STG_TOL * (1 + abs(o)) for s in result)])


@contract("aldy.cn.solve_cn_model#results", symbolic=False)
def _(gene, profile, cn_configs, max_cn, region_coverage, solver, debug, fusion_support):
    types(gene="Gene", profile="Profile", cn_configs="Dict[str, CNConfig]", max_cn="int",
          region_coverage="Dict[str, Tuple[float, float]]", solver="str", debug="Optional[str]",
          fusion_support="Optional[Dict[str, float]]")
    # from the code and its call site (estimate_cn): candidates are catalogue configurations, the default
    # and the deletion configuration are always candidates, depths are given for every copy-number region
    requires(max_cn >= 1, debug is None, "1" in cn_configs)
    requires(all(c in gene.cn_configs and cn_configs[c].kind == gene.cn_configs[c].kind for c in cn_configs))
    requires(res_deletion_allele(gene) is None or res_deletion_allele(gene) in cn_configs)
    requires(all(r in region_coverage and region_coverage[r][0] >= 0 and region_coverage[r][1] >= 0 for r in gene.unique_regions))
    table = stc_table(gene, profile, cn_configs, max_cn, region_coverage, fusion_support)
    # C03: "every reported gene structure is made of exactly two complete haplotype configurations (a whole-gene
    # deletion counts as one and is the only configuration that may be left implicit) plus optional extra gene copies"
    ensures(stc_two_complete_ok(gene, cn_configs, result), label="two-complete-haplotypes")
    # C03: "uses a fusion or deletion configuration at most twice"
    ensures(stc_at_most_twice_ok(gene, cn_configs, result), label="fusion-deletion-at-most-twice")
    # C03: "and never combines a double deletion with anything else"
    ensures(stc_double_deletion_ok(gene, profile, cn_configs, region_coverage, result), label="double-deletion-alone")
    # C03: "Its score equals the documented objective (normalised depth-fit error, gene-fit error and parsimony
    # penalties) of the best explanation of that structure": (a) of an admissible explanation, (b) of the best one
    ensures(stc_explainable_ok(table, result), label="score-of-admissible-explanation")
    ensures(stc_best_explanation_ok(table, result), label="score-of-best-explanation")
    # C03: "no admissible structure scores lower than the best reported one"
    ensures(stc_optimal_ok(table, result), label="optimal")
    # C03: "all reported ones lie within the gap"
    ensures(stc_within_gap_ok(profile, result), label="within-gap")
    # C03: "none is repeated"
    ensures(stc_no_repeat_ok(result), label="no-repeat")
    # C03: "an admissible within-gap structure that is not reported always contains a reported structure that scores no worse"
    ensures(stc_complete_ok(profile, table, result), label="complete-up-to-containment")
    ensures(all(sameobj(s.gene, gene) for s in result), label="same-gene")
    # C14: "No ... solver stage ... modifies the loaded gene database": candidates, profile and depths included
    modifies()


# =========================================================================== C02: solve_major_model (results)

def stj_observed(gene, coverage):
    """C02 'observed core variant': catalogued, function-altering, with (filtered) read support."""
    return sorted(Mutation(k[0], k[1]) for k in gene.mutations
                  if gene.mutations[k][0] is not None and support(coverage, Mutation(k[0], k[1])) > 0)


def stj_called(sol):
    """Names of the called major alleles of a MajorSolution, with multiplicity."""
    return tuple(sorted(sa.major for sa, k in sol.solution.items() for _ in range(k)))


def stj_novel(sol):
    return tuple(sorted(stg_key(m) for m in sol.added))


def stj_fit_error(gene, coverage, cn_solution, names, novel):
    """C02: 'the fit error of that combination (sum of absolute differences between observed and called copy
    numbers of every core variant and of the reference allele at those sites, plus the novelty penalties)':
    an observed core variant is called once per called allele that carries it plus once when flagged novel;
    the reference allele of a site is called once per called allele that has gene copies there and carries
    no (non-insertion) core variant at the site; penalties: major_novel once if anything is novel + 0.1 each."""
    obs = stj_observed(gene, coverage)
    carried = Counter(stg_key(m) for an in names for m in gene.alleles[an].func_muts)
    err = 0.0
    for m in obs:
        err += abs(observed_copies(coverage, cn_solution, m) - carried[stg_key(m)] - (1 if stg_key(m) in novel else 0))
    for p in sorted({m.pos for m in obs}):
        ref = sum(1 for an in names if stg_has_copies(gene, an, p)
                  and not any(x.pos == p and x.op[:3] != "ins" for x in gene.alleles[an].func_muts))
        err += abs(observed_copies(coverage, cn_solution, Mutation(p, "_")) - ref)
    return err + (coverage.profile.major_novel if len(novel) > 0 else 0.0) + 0.1 * len(novel)


def stj_combinations(gene, coverage, cn_solution, allele_dict):
    """Brute force over C02's 'admissible combinations': [(allele names, novel variants, fit error)].
    Every configuration of the structure receives exactly as many candidate alleles as it has copies (all
    multisets); every observed core variant that no called allele carries is novel; at most one novel
    (non-insertion) variant per site (the model's one-novel-per-site rule)."""
    import itertools
    obs = stj_observed(gene, coverage)
    per_config = []
    for c, k in sorted(cn_solution.solution.items()):
        cands = sorted(an for an in allele_dict if allele_dict[an].cn_config == c)
        per_config.append(list(itertools.combinations_with_replacement(cands, k)))
    out = []
    for parts in itertools.product(*per_config):
        names = tuple(sorted(an for part in parts for an in part))
        have = {stg_key(m) for an in names for m in gene.alleles[an].func_muts}
        novel = tuple(sorted(stg_key(m) for m in obs if stg_key(m) not in have))
        sites = Counter(p for p, op in novel if op[:3] != "ins")
        if any(v > 1 for v in sites.values()):
            continue
        out.append((names, novel, stj_fit_error(gene, coverage, cn_solution, names, novel)))
    return out


def stj_config_counts_ok(gene, cn_solution, result):
    """C02: 'every reported major-allele combination gives each structural configuration exactly as many
    alleles as the structure has copies of it'."""
    bad = []
    for s in result:
        got = Counter(gene.alleles[an].cn_config for an in stj_called(s))
        want = Counter({c: k for c, k in cn_solution.solution.items() if k > 0})
        if got != want:
            bad.append(f"{stj_called(s)}: configurations {dict(got)}, structure {dict(want)}")
    return res_none(bad)


def stj_xor_ok(gene, coverage, result):
    """C02: 'accounts for every observed core variant exactly once - either a called allele carries it or it
    is flagged as novel, never both and never neither'; only observed core variants are flagged, once each."""
    obs = {stg_key(m) for m in stj_observed(gene, coverage)}
    bad = []
    for s in result:
        have = {stg_key(m) for an in stj_called(s) for m in gene.alleles[an].func_muts}
        novel = [stg_key(m) for m in s.added]
        for k in sorted(obs):
            if (k in have) == (k in novel):
                bad.append(f"{stj_called(s)} + {novel}: {k} is " + ("carried AND novel" if k in have else "neither carried nor novel"))
        bad += [f"{stj_called(s)} + {novel}: {k} flagged but not an observed core variant" for k in novel if k not in obs]
        bad += [f"{stj_called(s)} + {novel}: {k} flagged twice" for k, v in Counter(novel).items() if v > 1]
    return res_none(bad)


def stj_score_ok(gene, coverage, cn_solution, result):
    """C02: 'The reported score equals the fit error of that combination'."""
    return res_none([f"{stj_called(s)} + {stj_novel(s)}: score {s.score}, fit error "
                     f"{stj_fit_error(gene, coverage, cn_solution, stj_called(s), stj_novel(s))}"
                     for s in result
                     if not stg_close(s.score, stj_fit_error(gene, coverage, cn_solution, stj_called(s), stj_novel(s)))])


def stj_admissible_ok(allele_dict, result):
    """Only candidate alleles are called."""
    return res_none([f"{an} is not a candidate" for s in result for an in stj_called(s) if an not in allele_dict])


def stj_optimal_ok(combos, result):
    """C02: 'no admissible combination scores lower' - and one is reported whenever one exists."""
    if len(combos) == 0:
        return res_none([f"no admissible combination, but {stj_called(s)} is reported" for s in result])
    lo = min(combos, key=lambda t: t[2])
    if len(result) == 0:
        return res_none([f"nothing reported, but {lo} is admissible"])
    best = min(s.score for s in result)
    return res_none([] if stg_close(lo[2], best) else [f"best reported {best}, best admissible {lo}"])


def stj_within_gap_ok(coverage, result):
    best = min([s.score for s in result], default=0.0)
    return res_none([f"{stj_called(s)} score {s.score} > (1 + {coverage.profile.gap}) * {best}" for s in result
                     if s.score > (1 + coverage.profile.gap) * best + STG_GAP_SLACK + 1e-9])


def stj_complete_ok(coverage, combos, result):
    """C02: 'every admissible combination within the optimality gap is reported' (strictly inside the gap,
    beyond the solver tolerance)."""
    if len(combos) == 0 or len(result) == 0:
        return True
    ub = (1 + coverage.profile.gap) * min(c[2] for c in combos)
    reported = {(stj_called(s), stj_novel(s)) for s in result}
    return res_none([f"{c}" for c in combos if c[2] < ub - STG_TOL * (1 + abs(ub)) and (c[0], c[1]) not in reported])


def stj_no_repeat_ok(result):
    """C02: '... is reported exactly once'."""
    c = Counter((stj_called(s), stj_novel(s)) for s in result)
    return res_none([f"{k} x{v}" for k, v in c.items() if v > 1])


@contract("aldy.major.solve_major_model#results", symbolic=False)
def _(gene, coverage, cn_solution, allele_dict, solver, identifier, debug):
    types(gene="Gene", coverage="Coverage", cn_solution="CNSolution", allele_dict="Dict[str, MajorAllele]",
          solver="str", identifier="int", debug="Optional[str]")
    # from the call site (estimate_major / _filter_alleles): candidates are catalogue alleles of the
    # structure's configurations whose core variants are all observed
    requires(debug is None, sameobj(cn_solution.gene, gene), sameobj(coverage.gene, gene))
    requires(all(an in gene.alleles and allele_dict[an].cn_config == gene.alleles[an].cn_config
                 and allele_dict[an].func_muts == gene.alleles[an].func_muts
                 and cn_solution.solution[allele_dict[an].cn_config] > 0 for an in allele_dict))
    requires(all(support(coverage, m) > 0 for an in allele_dict for m in allele_dict[an].func_muts))
    combos = stj_combinations(gene, coverage, cn_solution, allele_dict)
    # C02: "every reported major-allele combination gives each structural configuration exactly as many alleles
    # as the structure has copies of it"
    ensures(stj_config_counts_ok(gene, cn_solution, result), label="configuration-counts")
    ensures(stj_admissible_ok(allele_dict, result), label="candidates-only")
    # C02: "accounts for every observed core variant exactly once - either a called allele carries it or it is
    # flagged as novel, never both and never neither"
    ensures(stj_xor_ok(gene, coverage, result), label="carried-xor-novel")
    # C02: "The reported score equals the fit error of that combination (sum of absolute differences between
    # observed and called copy numbers of every core variant and of the reference allele at those sites, plus
    # the novelty penalties)"
    ensures(stj_score_ok(gene, coverage, cn_solution, result), label="score-is-fit-error")
    # C02: "no admissible combination scores lower"
    ensures(stj_optimal_ok(combos, result), label="optimal")
    ensures(stj_within_gap_ok(coverage, result), label="within-gap")
    # C02: "every admissible combination within the optimality gap is reported exactly once"
    ensures(stj_complete_ok(coverage, combos, result), label="complete-within-gap")
    ensures(stj_no_repeat_ok(result), label="no-repeat")
    ensures(all(sameobj(s.cn_solution, cn_solution) for s in result), label="same-structure")
    # C14: the catalogue, the candidates and the evidence are not modified
    modifies()


# =========================================================================== C04: solve_minor_model

def stn_copies(coverage, cn, m):
    """Observed copy number of a variant (or of the reference allele '_'): reads / single-copy depth."""
    return observed_copies(coverage, cn, m)


def stn_supported(coverage, cn, m):
    """C04 'has supporting reads' (in the filtered evidence handed to the stage), at a site the structure has copies of."""
    return support(coverage, m) > 0 and copies_at(cn, m.pos) > 0


def stn_one_minor_ok(gene, major_sol, result):
    """C04: 'the refined solution names, for every called major-allele copy, exactly one catalogued minor allele
    of that same major allele'."""
    want = Counter({sa.major: k for sa, k in major_sol.solution.items() if k > 0})
    bad = []
    for s in result:
        got = Counter(a.major for a in s.solution)
        if got != want:
            bad.append(f"copies {dict(got)}, major solution {dict(want)}")
        bad += [f"*{a.minor} is not a catalogued minor allele of *{a.major}" for a in s.solution
                if a.major not in gene.alleles or a.minor not in gene.alleles[a.major].minors]
    return res_none(bad)


def stn_core_kept_ok(gene, result):
    """C04: 'core variants of a called allele are never dropped'."""
    return res_none([f"*{a.minor} lost core variant {m}" for s in result for a in s.solution
                     for m in a.missing if m in gene.alleles[a.major].func_muts])


def stn_added_ok(gene, coverage, major_sol, result):
    """C04: 'a variant is only added to an allele that has gene copies at that position and only if filtered
    reads support it'."""
    return res_none([f"*{a.minor} +{m}: gene copies {stg_has_copies(gene, a.major, m.pos)}, reads {support(coverage, m)}"
                     for s in result for a in s.solution for m in a.added
                     if not (stg_has_copies(gene, a.major, m.pos) and support(coverage, m) > 0)])


def stn_carried_supported_ok(gene, coverage, result):
    """C04: 'every variant an allele is reported to carry has supporting reads'."""
    return res_none([f"*{a.minor} carries {m} without reads" for s in result for a in s.solution
                     for m in sorted(res_carried(gene, a)) if support(coverage, m) <= 0])


def stn_one_per_position_ok(gene, result, insertions):
    """C04: 'no allele carries two variants at one position'.  insertions=False: an insertion sits between two
    positions and is not counted; insertions=True: the literal reading, an insertion counts at its position label
    (this is the rule of the model: at most one kept or added variant per position label and allele copy)."""
    bad = []
    for s in result:
        for a in s.solution:
            at = Counter(m.pos for m in res_carried(gene, a) if insertions or m.op[:3] != "ins")
            bad += [f"*{a.minor} (+{[str(m) for m in a.added]} -{[str(m) for m in a.missing]}) carries "
                    f"{[str(m) for m in sorted(res_carried(gene, a)) if m.pos == p]}" for p, k in sorted(at.items()) if k > 1]
    return res_none(bad)


def stn_supported_carried_ok(gene, coverage, major_sol, mutations, result):
    """C04: 'every considered variant that has supporting reads is carried by at least one allele'."""
    cn = major_sol.cn_solution
    return res_none([f"{m} ({support(coverage, m)} reads) is carried by no allele of {[str(a) for a in s.solution]}"
                     for s in result for m in sorted(mutations)
                     if stn_supported(coverage, cn, m) and not any(m in res_carried(gene, a) for a in s.solution)])


def stn_modes(coverage, mutations):
    """Read-phase evidence: {((pos, allele seen), ...): number of reads} over the considered sites, reads that
    cover at least two of them."""
    out = Counter()
    if coverage.profile.phase and coverage.sam:
        sites = {m.pos for m in mutations}
        for rd in coverage.sam.phases.values():
            c = tuple(sorted((p, o) for p, o in rd.items() if p in sites))
            if len(c) > 1:
                out[c] += 1
    return out


def stn_phase_error(gene, coverage, mutations, copies):
    """C04 'read-phase disagreement' of an assignment: every phased read is attributed to the called copy it
    disagrees with least; it disagrees with a copy on every considered variant of its sites that it shows but
    the copy does not carry, or that the copy carries but the read does not show.  Only copies that have at
    least two considered variants (with gene copies) at the read's sites can take the read."""
    total = 0.0
    for mode, cnt in stn_modes(coverage, mutations).items():
        seen = dict(mode)
        costs = []
        for a in copies:
            here = [m for m in mutations if m.pos in seen and stg_has_copies(gene, a.major, m.pos)]
            if len(here) > 1:
                carried = res_carried(gene, a)
                costs.append(sum(1 for m in here if (m.op == seen[m.pos]) != (m in carried)))
        if costs:
            total += cnt * min(costs)
    return coverage.profile.minor_phase * total


def stn_objective(gene, coverage, major_sol, mutations, copies):
    """C04 'the model objective (fit error + penalties for dropped, added and novel core variants + read-phase
    disagreement) of the reported assignment':
      fit error   sum over the considered variants of |observed copies - carrying copies| and, per site, of
                  |observed reference copies - copies (with gene copies there) carrying no non-insertion variant|
      penalties   minor_miss per dropped variant, minor_add per added variant, minor_add / 2 per core variant
                  that is added to an allele whose major allele does not define it
      phase       minor_phase * read-phase disagreement."""
    cn = major_sol.cn_solution
    prof = coverage.profile
    carried = [res_carried(gene, a) for a in copies]
    err = 0.0
    for m in mutations:
        err += abs(stn_copies(coverage, cn, m) - sum(1 for c in carried if m in c))
    for p in sorted({m.pos for m in mutations}):
        ref = sum(1 for a, c in zip(copies, carried) if stg_has_copies(gene, a.major, p)
                  and not any(x.pos == p and x.op[:3] != "ins" for x in c))
        err += abs(stn_copies(coverage, cn, Mutation(p, "_")) - ref)
    miss = sum(len(a.missing) for a in copies)
    add = sum(len(a.added) for a in copies)
    novel = len({m for a in copies for m in a.added
                 if res_effect(gene, m) is not None and m not in gene.alleles[a.major].func_muts})
    return (err + prof.minor_miss * miss + prof.minor_add * add + prof.minor_add / 2 * novel
            + stn_phase_error(gene, coverage, mutations, copies))


def stn_score_ok(gene, coverage, major_sol, alleles_list, mutations, result):
    """C04: 'The reported score equals the model objective ... of the reported assignment' (up to the model's
    tie-breaker of minor_add * 1e-6 per (allele copy, variant) pair in front of an added variant)."""
    pairs = len(alleles_list) * max([1] + list(major_sol.solution.values())) * max(1, len(mutations))
    bad = []
    for s in result:
        o = stn_objective(gene, coverage, major_sol, mutations, s.solution)
        slack = coverage.profile.minor_add * sum(len(a.added) for a in s.solution) * pairs / 1000000
        if not (o - STG_TOL * (1 + abs(o)) <= s.score <= o + slack + STG_TOL * (1 + abs(o))):
            bad.append(f"score {s.score}, objective of {[str(a) for a in s.solution]} = {o}")
    return res_none(bad)


def stn_homozygous_added(coverage, major_sol, copies):
    """(copy index, variant) pairs that the read-out may have added after solving: added variants observed at
    exactly as many copies as the structure has (aldy/minor.py: 'add homozygous mutation to _all_ alleles')."""
    cn = major_sol.cn_solution
    return [(i, m) for i, a in enumerate(copies) for m in a.added
            if abs(stn_copies(coverage, cn, m) - sum(cn.solution.values())) <= 1e-5]


def stn_score_modulo_homozygous_ok(gene, coverage, major_sol, alleles_list, mutations, result):
    """Weaker companion of score-is-objective that stays meaningful next to the known finding: the score is the
    objective of the reported assignment, or of the assignment before the homozygous post-processing (the
    reported one minus some of its homozygous additions)."""
    import itertools
    pairs = len(alleles_list) * max([1] + list(major_sol.solution.values())) * max(1, len(mutations))
    bad = []
    for s in result:
        hom = stn_homozygous_added(coverage, major_sol, s.solution)[:8]
        ok = False
        tried = []
        for k in range(len(hom) + 1):
            for drop in itertools.combinations(hom, k):
                copies = [SolvedAllele(gene, a.major, a.minor, [m for m in a.added if (i, m) not in drop], list(a.missing))
                          for i, a in enumerate(s.solution)]
                o = stn_objective(gene, coverage, major_sol, mutations, copies)
                slack = coverage.profile.minor_add * sum(len(a.added) for a in copies) * pairs / 1000000
                tried.append(round(o, 4))
                if o - STG_TOL * (1 + abs(o)) <= s.score <= o + slack + STG_TOL * (1 + abs(o)):
                    ok = True
        if not ok:
            bad.append(f"score {s.score}, objectives of {[str(a) for a in s.solution]} with / without homozygous additions: {sorted(set(tried))}")
    return res_none(bad)


def stn_copy_options(gene, coverage, major_sol, mutations, major, limit):
    """Every admissible refinement of one copy of a major allele (C04's safety rules): a catalogued minor of
    that major; core variants kept; a kept / added variant has reads and sits where the structure and the allele
    have copies; one variant per position label."""
    import itertools
    cn = major_sol.cn_solution
    out = []
    al = gene.alleles[major]
    for mi in sorted(al.minors):
        core = sorted(al.func_muts)
        if any(not stn_supported(coverage, cn, m) or not stg_has_copies(gene, major, m.pos) for m in core):
            continue
        silent = sorted(al.minors[mi].neutral_muts)
        keepable = [m for m in silent if stn_supported(coverage, cn, m) and stg_has_copies(gene, major, m.pos)]
        forced_miss = [m for m in silent if m not in keepable]
        addable = [m for m in sorted(mutations) if m not in al.func_muts and m not in al.minors[mi].neutral_muts
                   and stn_supported(coverage, cn, m) and stg_has_copies(gene, major, m.pos)]
        for nk in range(len(keepable) + 1):
            for kept in itertools.combinations(keepable, nk):
                for na in range(len(addable) + 1):
                    for added in itertools.combinations(addable, na):
                        have = core + list(kept) + list(added)
                        at = Counter(m.pos for m in have)
                        if any(v > 1 for v in at.values()):
                            continue        # 'no allele carries two variants at one position' (literal reading)
                        out.append(SolvedAllele(gene, major, mi, list(added), forced_miss + [m for m in keepable if m not in kept]))
                        if len(out) > limit:
                            return None
    return out


def stn_best_assignment(gene, coverage, major_sol, mutations, limit):
    """Brute force over C04's admissible assignments (minor choice x kept x added per copy; every supported
    considered variant carried at least once, by at most as many copies as it has reads): (objective, copies)
    of the best one; None when the enumeration exceeds `limit` combinations; (None, None) when none exists."""
    import itertools
    cn = major_sol.cn_solution
    majors = sorted(sa.major for sa, k in major_sol.solution.items() for _ in range(k))
    options = {}
    total = 1
    for mj in sorted(set(majors)):
        options[mj] = stn_copy_options(gene, coverage, major_sol, mutations, mj, limit)
        if options[mj] is None:
            return None
    for mj in majors:
        total *= max(1, len(options[mj]))
    if total > limit:
        return None
    must = [m for m in sorted(mutations) if stn_supported(coverage, cn, m)]
    best = (None, None)
    for combo in itertools.product(*[options[mj] for mj in majors]):
        carried = [res_carried(gene, a) for a in combo]
        ok = True
        for m in must:
            k = sum(1 for c in carried if m in c)
            if k < 1 or k > support(coverage, m):
                ok = False
                break
        if not ok:
            continue
        o = stn_objective(gene, coverage, major_sol, mutations, list(combo))
        if best[0] is None or o < best[0]:
            best = (o, [str(a) for a in combo])
    return best


def stn_optimal_ok(best, result):
    """C04: 'no admissible assignment scores lower' (bounded: checked when the brute-force enumeration is small)."""
    if best is None:
        return True
    if best[0] is None:
        return res_none([f"no admissible assignment, but {[str(a) for a in s.solution]} is reported" for s in result])
    if len(result) == 0:
        return res_none([f"nothing reported, but {best} is admissible"])
    lo = min(s.score for s in result)
    return res_none([] if lo <= best[0] + STG_TOL * (1 + abs(lo)) else [f"best reported {lo}, admissible {best}"])


@contract("aldy.minor.solve_minor_model#results", symbolic=False)
def _(gene, coverage, major_sol, alleles_list, mutations, solver, max_solutions):
    types(gene="Gene", coverage="Coverage", major_sol="MajorSolution", alleles_list="List[SolvedAllele]",
          mutations="Set[Mutation]", solver="str", max_solutions="int")
    # from the call site (estimate_minor): the candidates are the catalogued minors of the called major alleles
    # (possibly of other major solutions as well), the considered variants include all their variants and the
    # novel variants of the major solution; the major solution counts its alleles in a Counter
    requires(max_solutions >= 1, sameobj(major_sol.cn_solution.gene, gene), typed(major_sol.solution, "Counter"))
    requires(all(a.major in gene.alleles and a.minor in gene.alleles[a.major].minors and len(a.added) == 0 and len(a.missing) == 0
                 for a in alleles_list))
    requires(all(m in mutations for a in alleles_list for m in res_definition(gene, a)))
    requires(all(len(sa.added) == 0 and len(sa.missing) == 0 and sa.minor == "" for sa in major_sol.solution))
    requires(all(any(a.major == sa.major and a.minor == mi for a in alleles_list)
                 for sa in major_sol.solution for mi in gene.alleles[sa.major].minors))
    best = stn_best_assignment(gene, coverage, major_sol, mutations, 6000)
    # C04: "the refined solution names, for every called major-allele copy, exactly one catalogued minor allele of
    # that same major allele"
    ensures(stn_one_minor_ok(gene, major_sol, result), label="one-minor-per-copy")
    # C04: "core variants of a called allele are never dropped"
    ensures(stn_core_kept_ok(gene, result), label="core-variants-kept")
    # C04: "a variant is only added to an allele that has gene copies at that position and only if filtered reads support it"
    ensures(stn_added_ok(gene, coverage, major_sol, result), label="added-has-copies-and-reads")
    # C04: "every variant an allele is reported to carry has supporting reads"
    ensures(stn_carried_supported_ok(gene, coverage, result), label="carried-has-reads")
    # C04: "no allele carries two variants at one position": substitutions / deletions; and the literal reading in which
    # an insertion counts at its position label          (KNOWN FINDING for the latter: homozygous post-processing)
    ensures(stn_one_per_position_ok(gene, result, False), label="one-variant-per-position")
    ensures(stn_one_per_position_ok(gene, result, True), label="one-variant-per-position-literal")
    # C04: "every considered variant that has supporting reads is carried by at least one allele"
    ensures(stn_supported_carried_ok(gene, coverage, major_sol, mutations, result), label="supported-variant-carried")
    # C04: "The reported score equals the model objective (fit error + penalties for dropped, added and novel core
    # variants + read-phase disagreement) of the reported assignment"
    ensures(stn_score_ok(gene, coverage, major_sol, alleles_list, mutations, result), label="score-is-objective")
    #   KNOWN FINDING (homozygous post-processing adds variants after the score was computed); the companion
    #   clause accepts the objective of the assignment before that post-processing
    ensures(stn_score_modulo_homozygous_ok(gene, coverage, major_sol, alleles_list, mutations, result),
            label="score-is-objective-before-homozygous-additions")
    # C04: "and no admissible assignment scores lower"
    ensures(stn_optimal_ok(best, result), label="no-better-assignment")
    ensures(len(result) <= max_solutions, label="at-most-max-solutions")
    ensures(all(sameobj(s.major_solution, major_sol) for s in result), label="same-major-solution")
    # C14: gene database, evidence, major solution, candidates and considered variants are not modified
    modifies()
#
# KNOWN FINDINGS (unchanged tree), both caused by the read-out's homozygous post-processing ("HACK: add homozygous
# mutation to _all_ alleles": every considered variant observed at exactly max_cn copies is added to every called
# copy that does not define it, AFTER the model was solved):
#   post/score-is-objective   the reported assignment is not the one that was scored.
#   post/one-variant-per-position-literal   an allele ends up with an insertion and a substitution at one position label.
#       Witness for both (--seed 0, case 72): multi/hg19, 2x*1, major solution *7 + *1 (novel 105T>G, 111delAC,
#       119G>A, 119insTT), reads 105T>G 14/28, 111delAC 14/28, 115T>G 28/28, 119G>A 28/28, 119insTT 14, 125A>G
#       14/28, 135A>C 14/28, 151C>T 14/28: reported [*7.001 +105T>G +111delAC +115T>G +125A>G +135A>C]
#       [*1.004 +119insTT +119G>A] with score 9.50; the objective of that assignment is 9.0, and *1.004 carries
#       119G>A next to 119insTT (119G>A is seen at max_cn = 2 copies and was added by the read-out; the model
#       itself allows one variant per position label and allele).
#       Smaller witness of the score clause alone: toy/hg19, 2x*1, major solution *1 + *2 (novel 119insTT, 151C>T),
#       reads 111delAC 10/20, 115T>A 20/20, 119insTT 20 (20 reference), 151C>T 10/20: reported [*1.002 +119insTT
#       +151C>T][*2.001 +115T>A], score 3.5, objective 4.0 (the read-out's 119insTT on *1.002 is a core variant and
#       owes minor_add / 2).
#   post/one-variant-per-position (substitutions / deletions only) and
#   post/score-is-objective-before-homozygous-additions hold on the unchanged tree.


# =========================================================================== C10 / C14: estimate_minor

def ste_refinement(s):
    """What a refined candidate says: per copy (major, minor, added, lost), order-free."""
    return sorted((a.major, a.minor, tuple(sorted(stg_key(m) for m in a.added)), tuple(sorted(stg_key(m) for m in a.missing)))
                  for a in s.solution)


def ste_recorded_run(gene, coverage, major_sols, solver, max_solutions, novel):
    """C10: 'the stage outputs are recorded': runs estimate_minor on copies of the arguments while recording,
    for every call of the refinement model, which major solution (index in major_sols) it was called for and the
    scores it returned - before estimate_minor carries the major-stage score over.
    Returns {'calls': [(major index, [model scores], [refinements])], 'out': [(major index, final score, refinement)]}."""
    import copy
    import aldy.minor as mod
    g, cov, majors = copy.deepcopy((gene, coverage, major_sols))
    real = mod.solve_minor_model
    calls = []

    def recorder(gene_, cov_, major_sol, *args, **kwargs):
        sols = real(gene_, cov_, major_sol, *args, **kwargs)
        idx = [i for i, m in enumerate(majors) if m is major_sol]
        calls.append((idx[0] if idx else -1, [s.score for s in sols], [ste_refinement(s) for s in sols]))
        return sols

    mod.solve_minor_model = recorder
    try:
        out = mod.estimate_minor(g, cov, majors, solver, max_solutions, novel)
    finally:
        mod.solve_minor_model = real
    return {"calls": calls,
            "out": [([i for i, m in enumerate(majors) if m is s.major_solution] + [-1])[0:1] + [s.score, ste_refinement(s)] for s in out]}


def ste_major_index(major_sols, s):
    return ([i for i, m in enumerate(major_sols) if m is s.major_solution] + [-1])[0]


def ste_all_refined_ok(major_sols, rec, result):
    """C10 (chain): every candidate major solution handed over is refined - the model is called once for each -
    and what is returned are exactly the refinements the model produced, each tied to its own major solution."""
    called = sorted(c[0] for c in rec["calls"])
    bad = []
    if called != list(range(len(major_sols))):
        bad.append(f"refinement model called for major solutions {called}, handed over: {list(range(len(major_sols)))}")
    want = sorted((c[0], r) for c in rec["calls"] for r in c[2])
    got = sorted((ste_major_index(major_sols, s), ste_refinement(s)) for s in result)
    if want != got:
        bad.append(f"returned {got}, the model produced {want}")
    return res_none(bad)


def ste_score_carry_ok(major_sols, rec, result):
    """C10: 'a candidate's score carries over the score differences of the structure and major-allele solutions
    it was derived from': score = refinement-model score + (score of its major solution - best major score over
    ALL candidates handed over)."""
    lo = min(m.score for m in major_sols)
    model = {}
    for c in rec["calls"]:
        for sc, r in zip(c[1], c[2]):
            model.setdefault((c[0], repr(r)), sc)
    bad = []
    for s in result:
        i = ste_major_index(major_sols, s)
        k = (i, repr(ste_refinement(s)))
        if i < 0 or k not in model:
            bad.append(f"{ste_refinement(s)}: no recorded refinement for major solution {i}")
        elif not stg_close(s.score, model[k] + major_sols[i].score - lo):
            bad.append(f"major solution {i} (score {major_sols[i].score}, best {lo}): refinement {ste_refinement(s)} scored "
                       f"{model[k]} by the model, reported {s.score}, expected {model[k] + major_sols[i].score - lo}")
    return res_none(bad)


def ste_same(xs, ys):
    """Two lists of (score, refinement) agree: the same refinements, scores equal up to the model's tie-breaker
    (minor_add * 1e-6 * construction index per added variant: below STE_TIE on these instances)."""
    a = sorted(xs, key=lambda t: (repr(t[1]), t[0]))
    b = sorted(ys, key=lambda t: (repr(t[1]), t[0]))
    return len(a) == len(b) and all(x[1] == y[1] and abs(x[0] - y[0]) <= STE_TIE for x, y in zip(a, b))


def ste_alone(gene, coverage, major_sol, solver, max_solutions, novel):
    """The refinement of one candidate when it is the only one handed over: [(model score, refinement)]."""
    import copy
    import aldy.minor as mod
    g, cov, ms = copy.deepcopy((gene, coverage, major_sol))
    return sorted((round(s.score, 6), ste_refinement(s)) for s in mod.estimate_minor(g, cov, [ms], solver, max_solutions, novel))


def ste_isolation_ok(gene, coverage, major_sols, solver, max_solutions, novel, rec):
    """C14: 'the refinement computed for one candidate solution does not depend on which other candidates are
    refined alongside it or in which order'."""
    bad = []
    for i, m in enumerate(major_sols):
        together = sorted((round(sc, 6), r) for c in rec["calls"] if c[0] == i for sc, r in zip(c[1], c[2]))
        alone = ste_alone(gene, coverage, m, solver, max_solutions, novel)
        if not ste_same(alone, together):
            bad.append(f"major solution {i} {stj_called(m)} + {stj_novel(m)} on {dict(m.cn_solution.solution)}: alone {alone}, "
                       f"alongside the others {together}")
    return res_none(bad)


def ste_order_ok(gene, coverage, major_sols, solver, max_solutions, novel, rec):
    """C14: '... or in which order': handing the candidates over in reverse order gives the same refinements and scores."""
    rev = ste_recorded_run(gene, coverage, list(reversed(major_sols)), solver, max_solutions, novel)
    n = len(major_sols)
    a = [(round(x[1], 6), (x[0], x[2])) for x in rec["out"]]
    b = [(round(x[1], 6), (n - 1 - x[0], x[2])) for x in rev["out"]]
    return res_none([] if ste_same(a, b) else [f"given order {sorted(a)}, reversed order {sorted(b)}"])


@contract("aldy.minor.estimate_minor#results", symbolic=False)
def _(gene, coverage, major_sols, solver, max_solutions, novel):
    types(gene="Gene", coverage="Coverage", major_sols="List[MajorSolution]", solver="str", max_solutions="int", novel="bool")
    requires(len(major_sols) >= 1, max_solutions >= 1)
    requires(all(typed(m.solution, "Counter") and sameobj(m.cn_solution.gene, gene) for m in major_sols))
    requires(all(sa.major in gene.alleles and sa.minor == "" and len(sa.added) == 0 for m in major_sols for sa in m.solution))
    rec = ste_recorded_run(gene, coverage, major_sols, solver, max_solutions, novel)
    # C10: "Every reported solution is a consistent chain ... its minor alleles refine its major alleles one to one":
    # every candidate handed over is refined, and nothing else is returned
    ensures(ste_all_refined_ok(major_sols, rec, result), label="every-major-refined")
    ensures(all(stn_one_minor_ok(gene, s.major_solution, [s]) for s in result), label="one-minor-per-copy")
    # C10: "a candidate's score carries over the score differences of the structure and major-allele solutions it was
    # derived from" (the major score already contains the structure score difference)
    ensures(ste_score_carry_ok(major_sols, rec, result), label="score-carry")
    # C14: "the refinement computed for one candidate solution does not depend on which other candidates are refined
    # alongside it"          KNOWN FINDING F6 (candidates and their variants are pooled)
    ensures(ste_isolation_ok(gene, coverage, major_sols, solver, max_solutions, novel, rec), label="candidate-isolation")
    # C14: "... or in which order"
    ensures(ste_order_ok(gene, coverage, major_sols, solver, max_solutions, novel, rec), label="candidate-order")
    # C14: "No ... solver stage ... modifies the loaded gene database or the sample evidence"
    modifies()
#
# KNOWN FINDINGS (unchanged tree):
#   post/candidate-isolation (F6)  candidates and their variants are pooled: a variant that only ANOTHER candidate
#       brings in (through its alleles or its novel list) becomes 'considered' and, having reads, must be carried
#       by some allele of THIS candidate.  Witness (--seed 0, case 1): multi/hg19, structure *1 + 2x*6, candidates
#       A = [*1C, *6, *6] (score 2.5) and B = [*1, *6, *6] + novel 105T>G (score 1.5), reads 105T>A 4/4 (+2 low
#       quality reference reads): B alone [*1.001][*6.001][*6.001] model score 1.0; B alongside A
#       [*1.001 +105T>A][*6.001][*6.001] model score 1.5 (105T>A is considered only because A calls *1C).
#   post/candidate-order           ties between equally good assignments are broken by the construction order of
#       the pooled candidate list, which follows the order of the candidates handed over.  Witness (--seed 0, case
#       9): multi/hg38, candidates A = [*7] on 1x*1 and B = [*1C, *7] + novel 111delAC on 2x*1; B is refined to
#       [*1.003][*7.001 +111delAC] when handed over as (A, B) and to [*1.003 +111delAC][*7.001] as (B, A)
#       (same score up to the tie-breaker).


# =========================================================================== C15: _filter_alleles / estimate_major

def stf_hq_count(coverage, pos, op):
    """Reads for (pos, allele) 'that meet the base- and mapping-quality thresholds'."""
    return (len([ob for ob in coverage._coverage[pos][op] if hq(coverage.profile, ob)])
            if pos in coverage._coverage and op in coverage._coverage[pos] else 0)


def stf_hq_depth(coverage, pos):
    return (sum(stf_hq_count(coverage, pos, o) for o in coverage._coverage[pos] if o[:3] != "ins")
            if pos in coverage._coverage else 0)


def stf_qualifies(coverage, cn_solution, m):
    """C15 'qualifying support': 'at least the configured minimum number of reads that meet the base- and
    mapping-quality thresholds and passes the configured single-copy fraction threshold' - the two-step
    threshold of the major stage: the fraction threshold for the maximum copy number cn_max and, for a variant,
    for the copy number of the structure at its position (+ 0.5).  (Evidence without indel-support table.)"""
    n = stf_hq_count(coverage, m.pos, m.op)
    d = stf_hq_depth(coverage, m.pos)
    prof = coverage.profile
    return (n > 0 and n >= prof.min_coverage
            and n * prof.cn_max >= d * prof.threshold
            and (m.op == "_" or n * (copies_at(cn_solution, m.pos) + 0.5) >= d * prof.threshold))


def stf_unsupported_never_candidate_ok(gene, coverage, cn_solution, alleles):
    """C15: 'an allele one of whose core variants has no qualifying support is never called' - it is not even a candidate."""
    return res_none([f"*{an} is a candidate, but {m} has {stf_hq_count(coverage, m.pos, m.op)} of "
                     f"{stf_hq_depth(coverage, m.pos)} qualifying reads at {copies_at(cn_solution, m.pos)} copies"
                     for an in sorted(alleles) for m in sorted(gene.alleles[an].func_muts)
                     if not stf_qualifies(coverage, cn_solution, m)])


def stf_supported_is_candidate_ok(gene, coverage, cn_solution, alleles):
    """C02 mechanism: 'candidate selection: alleles whose core variants all pass the read filters' (of the
    structure's configurations) - all of them."""
    return res_none([f"*{an} is not a candidate although all its core variants qualify" for an in sorted(gene.alleles)
                     if gene.alleles[an].cn_config in cn_solution.solution and cn_solution.solution[gene.alleles[an].cn_config] > 0
                     and all(stf_qualifies(coverage, cn_solution, m) for m in gene.alleles[an].func_muts)
                     and an not in alleles])


def stf_candidates_wf_ok(gene, cn_solution, alleles):
    """Candidates are copies of catalogue alleles of the structure's configurations."""
    return res_none([f"*{an}" for an in alleles
                     if an not in gene.alleles or alleles[an] != gene.alleles[an] or sameobj(alleles[an], gene.alleles[an])
                     or alleles[an].cn_config not in cn_solution.solution])


def stf_filtered_evidence_ok(gene, coverage, cn_solution, cov):
    """The evidence handed on: for every catalogued variant the qualifying reads if it qualifies, nothing otherwise."""
    return res_none([f"{m}: filtered evidence has {support(cov, m)} reads, qualifying {stf_hq_count(coverage, m.pos, m.op)} "
                     f"({'passes' if stf_qualifies(coverage, cn_solution, m) else 'fails'})"
                     for m in sorted(Mutation(k[0], k[1]) for k in gene.mutations)
                     if support(cov, m) != (stf_hq_count(coverage, m.pos, m.op) if stf_qualifies(coverage, cn_solution, m) else 0)])


@contract("aldy.major._filter_alleles#results", symbolic=False)
def _(gene, coverage, cn_solution):
    types(gene="Gene", coverage="Coverage", cn_solution="CNSolution")
    requires(sameobj(cn_solution.gene, gene), sameobj(coverage.gene, gene), coverage._indels is None)
    requires(coverage.profile.debug_probe == "")
    # C15: "an allele one of whose core variants has no qualifying support is never called"
    ensures(stf_unsupported_never_candidate_ok(gene, coverage, cn_solution, result[0]), label="unsupported-never-candidate")
    ensures(stf_supported_is_candidate_ok(gene, coverage, cn_solution, result[0]), label="supported-is-candidate")
    ensures(stf_candidates_wf_ok(gene, cn_solution, result[0]), label="candidates-are-catalogue-copies")
    ensures(stf_filtered_evidence_ok(gene, coverage, cn_solution, result[1]), label="filtered-evidence")
    # C14 / C15: `gene.alleles` (the whole database) and the sample evidence are not modified
    modifies()


def stf_called_supported_ok(gene, coverage, cn_solution, result):
    """C15: 'Every core variant of every called major allele, every variant flagged as novel ... is supported by at
    least the configured minimum number of reads that meet the base- and mapping-quality thresholds and passes the
    configured single-copy fraction threshold ... an allele one of whose core variants has no qualifying support
    is never called'."""
    bad = []
    for s in result:
        bad += [f"*{an} called, but core variant {m} has {stf_hq_count(coverage, m.pos, m.op)} of {stf_hq_depth(coverage, m.pos)} "
                f"qualifying reads at {copies_at(cn_solution, m.pos)} copies"
                for an in sorted(set(stj_called(s))) for m in sorted(gene.alleles[an].func_muts)
                if not stf_qualifies(coverage, cn_solution, m)]
        bad += [f"{m} flagged novel without qualifying support" for m in s.added if not stf_qualifies(coverage, cn_solution, m)]
    return res_none(bad)


def stf_quality_blind_ok(gene, coverage, cn_solution, solver, result):
    """C15: 'Adding, removing or changing reads below either quality threshold never changes the major ...
    solutions or their scores': the same call on the evidence with every low-quality observation removed."""
    import copy
    import aldy.major as mod
    g, cov, cn = copy.deepcopy((gene, coverage, cn_solution))
    cov._coverage = {p: {o: [ob for ob in obs if hq(cov.profile, ob)] for o, obs in ops.items()} for p, ops in cov._coverage.items()}
    clean = mod.estimate_major(g, cov, cn, solver)
    a = sorted((stj_called(s), stj_novel(s), round(s.score, 6)) for s in result)
    b = sorted((stj_called(s), stj_novel(s), round(s.score, 6)) for s in clean)
    return res_none([] if len(a) == len(b) and all(x[:2] == y[:2] and stg_close(x[2], y[2]) for x, y in zip(a, b))
                    else [f"with low-quality reads {a}, without {b}"])


@contract("aldy.major.estimate_major#results", symbolic=False)
def _(gene, coverage, cn_solution, solver, identifier, debug):
    types(gene="Gene", coverage="Coverage", cn_solution="CNSolution", solver="str", identifier="int", debug="Optional[str]")
    requires(debug is None, sameobj(cn_solution.gene, gene), sameobj(coverage.gene, gene), coverage._indels is None)
    requires(coverage.profile.debug_probe == "")
    # C15: "an allele one of whose core variants has no qualifying support is never called"; novel variants likewise
    ensures(stf_called_supported_ok(gene, coverage, cn_solution, result), label="unsupported-never-called")
    # C15: "Adding, removing or changing reads below either quality threshold never changes the major ... solutions or their scores"
    ensures(stf_quality_blind_ok(gene, coverage, cn_solution, solver, result), label="low-quality-reads-ignored")
    # C02 on the stage's own (filtered) evidence: configuration counts
    ensures(stj_config_counts_ok(gene, cn_solution, result), label="configuration-counts")
    ensures(stj_no_repeat_ok(result), label="no-repeat")
    # C14 / C15: `gene.alleles` and the evidence are not modified (frame)
    modifies()
