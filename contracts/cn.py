# Contracts for aldy/cn.py


@contract("aldy.cn._parse_user_solution")
def _(gene, sols):
    types(sols="List[str]")
    returns("CNSolution")
    requires("1" in gene.cn_configs, len(gene.regions) > 0)
    requires(forall(lambda c=str, g=int, r=str: implies(c in gene.cn_configs and 0 <= g and g < len(gene.cn_configs[c].cn) and r in gene.cn_configs[c].cn[g],
                                                        g < len(gene.cn_configs["1"].cn) and r in gene.regions[0])))
    # C03: "A user-supplied structure is used verbatim, unknown configuration names are rejected"
    raises(AldyException, when=exists(lambda i=int: 0 <= i and i < len(sols) and sols[i] not in gene.cn_configs))
    ensures(result.score == 0, label="score-zero")
    ensures(forall(lambda c=str: implies(c in result.solution,
                                         result.solution[c] == sum(1 for i in range(0, len(sols)) if sols[i] == c))), label="verbatim")
    ensures(forall(lambda c=str: (c in result.solution) == (sum(1 for i in range(0, len(sols)) if sols[i] == c) > 0)), label="exactly-the-listed")
    modifies()


def default_config(gene):
    """some configuration of kind DEFAULT (the code takes the first one in table order)"""
    return [k for k in gene.cn_configs if gene.cn_configs[k].kind == CNConfigType.DEFAULT]


@contract("aldy.cn.estimate_cn", external={"aldy.cn._print_coverage": ""})
def _(gene, profile, coverage, solver, debug):
    types(coverage="Optional[Coverage]", solver="str", debug="Optional[str]")
    returns("List[CNSolution]")
    requires("1" in gene.cn_configs, len(gene.regions) > 0)
    requires(forall(lambda c=str, g=int, r=str: implies(c in gene.cn_configs and 0 <= g and g < len(gene.cn_configs[c].cn) and r in gene.cn_configs[c].cn[g],
                                                        g < len(gene.cn_configs["1"].cn) and r in gene.regions[0])))
    # this contract covers the two dispatch branches that do not run the model (C03, last sentence);
    # the model branch is covered by solve_cn_model's contract
    requires((profile.cn_solution is not None and len(profile.cn_solution) > 0) or not gene.do_copy_number)
    requires(exists(lambda k=str: k in gene.cn_configs and gene.cn_configs[k].kind == CNConfigType.DEFAULT))
    user = profile.cn_solution is not None and len(profile.cn_solution) > 0
    ncopies = 1 if (profile.male and (gene.chr == "X" or gene.chr == "Y")) else 2
    raises(AldyException, when=user and exists(lambda i=int: 0 <= i and i < len(profile.cn_solution)
                                               and profile.cn_solution[i] not in gene.cn_configs))
    ensures(len(result) == 1, label="one-structure")
    ensures(result[0].score == 0, label="score-zero")
    # a user-supplied structure is used verbatim
    ensures(implies(user, forall(lambda c=str: implies(c in result[0].solution, result[0].solution[c]
                                                       == sum(1 for i in range(0, len(profile.cn_solution)) if profile.cn_solution[i] == c)))),
            label="user-verbatim")
    # otherwise exactly two default copies (one for an X/Y-linked gene of a sample declared male)
    ensures(implies(not user, forall(lambda c=str: implies(c in result[0].solution,
                                                           gene.cn_configs[c].kind == CNConfigType.DEFAULT and result[0].solution[c] == ncopies))),
            label="default-copies")
    modifies()


# C19: the structure stage's own low-depth guard (cn.py:72-79) as a slice of the model branch of estimate_cn
# (config.SLICES): the statements from the depth table to the guard, for arbitrary gene / coverage of the stated shape.

@contract("aldy.cn.estimate_cn@low-depth-guard", native=False)
def _(gene, coverage):
    types(gene="Gene", coverage="Coverage")
    # call-site facts (genotype(): the coverage is the sample's own, normalised by Coverage._normalize_coverage over
    # every region of every gene copy - C07 clause "only-regions")
    requires(len(gene.regions) > 0, exists(lambda r=str: r in gene.regions[0]))
    requires(exists(lambda c=str: c in gene.cn_configs))
    requires(forall(lambda g=int, r=str: implies(0 <= g and g < len(gene.regions) and r in gene.regions[g],
                                                 (g, r) in coverage._region_coverage)))
    requires(forall(lambda r=str: implies(r in gene.unique_regions, (0, r) in coverage._region_coverage
                                          and (1, r) in coverage._region_coverage)))
    # C19: "When the alignments contain no reads anywhere in the gene locus ... no star-allele call is produced: the run
    # ends with an explanatory error for that gene": at the structure stage, when the normalised depth of the locus is
    # below half of what even the smallest catalogued structure accounts for (in particular when all region depths
    # are 0), the stage raises before any model is built; otherwise it goes on
    low = forall(lambda c=str: implies(c in gene.cn_configs, cn_locus_depth(gene, coverage) < cn_config_copies(gene, c) / 2.0))
    raises(AldyException, when=low, label="low-depth")
    modifies()


def admitted(gene, cn_configs, fusion_support, max_cn, c):
    """C03: structure candidates; with long-read fusion support values, weak fusions (support below
    1/(2*max copy number)) are filtered out, the default and the deletion configuration always stay."""
    return c in cn_configs and (fusion_support is None or not fusion_support or c == "1"
                                or (gene.deletion_allele() is not None and c == gene.deletion_allele())
                                or (c in fusion_support and fusion_support[c] >= 1 / (2 * max_cn)))


def has_pseudo_slots(gene):
    return len(gene.regions) > 1 and gene.deletion_allele() is not None


def is_slot(gene, cn_configs, fusion_support, max_cn, c, i):
    """two complete slots (0, -1) per admitted configuration, pseudogene-free extra copies (1..max_cn-1) of
    default-kind configurations, free pseudogene slots PSEUDO 1..max_cn"""
    return ((admitted(gene, cn_configs, fusion_support, max_cn, c)
             and (i == 0 or i == -1 or (cn_configs[c].kind == CNConfigType.DEFAULT and 1 <= i and i < max_cn)))
            or (c == "PSEUDO" and has_pseudo_slots(gene) and 1 <= i and i <= max_cn))


def slot_cn(gene, cn_configs, c, i, g, r):
    """copies of region r of gene copy g (0 = gene, 1 = pseudogene) that slot (c, i) contributes"""
    return (cn_configs[gene.deletion_allele()].cn[g][r] if c == "PSEUDO"
            else (cn_configs[c].cn[g][r] - (1 if (i >= 1 and g >= 1) else 0)))


@contract("aldy.cn.solve_cn_model", native=False)
def _(gene, profile, cn_configs, max_cn, region_coverage, solver, debug, fusion_support):
    types(cn_configs="Dict[str, CNConfig]", max_cn="int", region_coverage="Dict[str, Tuple[float, float]]",
          solver="str", debug="Optional[str]", fusion_support="Optional[Dict[str, float]]")
    requires(max_cn >= 1, len(gene.regions) >= 1, len(gene.unique_regions) > 0)
    requires("PSEUDO" not in cn_configs)
    requires(forall(lambda c=str: implies(c in gene.cn_configs, len(c) > 0)))   # configuration names are non-empty
    # candidate configurations are (copies of) catalogue configurations with one table per gene copy
    requires(forall(lambda c=str: implies(c in cn_configs, c in gene.cn_configs and len(cn_configs[c].cn) == len(gene.regions)
                                          and cn_configs[c].kind == gene.cn_configs[c].kind)))
    requires(implies(gene.deletion_allele() is not None, gene.deletion_allele() in cn_configs))
    requires(forall(lambda r=str: implies(r in region_coverage, region_coverage[r][0] >= 0 and region_coverage[r][1] >= 0)))
    requires(forall(lambda c=str, r=str: implies(c in cn_configs and r in region_coverage and len(gene.regions) > 1,
                                                 (r in cn_configs[c].cn[0]) == (r in cn_configs[c].cn[1]))))
    cut_after("aldy.lpinterface.CBC.setObjective")
    nreg = len(gene.unique_regions)
    dele = gene.deletion_allele()

    # ------------------------------------------------------------- the specified model (C03)
    slots = ({(c, i) for c in cn_configs for i in range(-1, max_cn)
              if is_slot(gene, cn_configs, fusion_support, max_cn, c, i)}
             | {("PSEUDO", i) for i in range(1, max_cn + 1) if has_pseudo_slots(gene)})
    for s in slots:
        newvar(None, "B", None, None, f"CN_{s[0]}_{s[1]}")
        # a whole-gene deletion on the second haplotype excludes everything else
        if dele is not None and s[0] != dele:
            family("CDEL_{}_{}", newvar_at("CN_{}_{}", s[0], s[1]) + newvar_at("CN_{}_{}", dele, -1) <= 1)
        # slot order: the second complete slot needs the first; extra copies are used in index order from 2
        if s[1] == -1:
            family("CORD_{}_{}", newvar_at("CN_{}_{}", s[0], s[1]) <= newvar_at("CN_{}_{}", s[0], 0))
        elif s[1] > 1:
            family("CORD_{}_{}", newvar_at("CN_{}_{}", s[0], s[1]) <= newvar_at("CN_{}_{}", s[0], s[1] - 1))
    # exactly two complete haplotype configurations
    family("CDIPLO", 0.0 + sum(newvar_at("CN_{}_{}", s[0], s[1]) for s in slots if s[1] <= 0) <= 2)
    family("CDIPLO", 0.0 + sum(newvar_at("CN_{}_{}", s[0], s[1]) for s in slots if s[1] <= 0) >= 2)
    for r in region_coverage:
        if r in gene.unique_regions:
            eg = newvar(None, "C", -profile.cn_max, profile.cn_max, f"EG_{r}")
            e = newvar(None, "C", -profile.cn_max, profile.cn_max, f"E_{r}")
            d0 = region_coverage[r][0]
            d1 = region_coverage[r][1]
            k = (d0 if d0 >= d1 else d1) + 1
            gene_fit = 0.0 + sum(slot_cn(gene, cn_configs, s[0], s[1], 0, r) * newvar_at("CN_{}_{}", s[0], s[1])
                                 for s in slots if r in cn_configs[gene.deletion_allele() if s[0] == "PSEUDO" else s[0]].cn[0])
            # (gene copies - pseudogene copies) per slot; written as a difference of two sums (linearity of finite sums)
            diff_fit = (0.0 + sum(slot_cn(gene, cn_configs, s[0], s[1], 0, r) * newvar_at("CN_{}_{}", s[0], s[1])
                                  for s in slots if r in cn_configs[gene.deletion_allele() if s[0] == "PSEUDO" else s[0]].cn[0])
                        + (0.0 + sum((0 - slot_cn(gene, cn_configs, s[0], s[1], 1, r) * newvar_at("CN_{}_{}", s[0], s[1]))
                                     for s in slots if len(gene.regions) > 1
                                     and r in cn_configs[gene.deletion_allele() if s[0] == "PSEUDO" else s[0]].cn[1])))
            family("CG_COV_{}", gene_fit + eg <= d0)
            family("CG_COV_{}", gene_fit + eg >= d0)
            family("C_COV_{}", diff_fit / k + e <= (d0 - d1) / k)
            family("C_COV_{}", diff_fit / k + e >= (d0 - d1) / k)
    # absolute-value helper variables of the two error families (contract of abssum)
    for r in region_coverage:
        if r in gene.unique_regions:
            e = newvar_at("E_{}", r)
            a = newvar(None, None, 0, lp_inf(), f"ABS_{lp_name(e)}")
            family("CABSL_{}", a + e >= 0)
            family("CABSR_{}", a - e >= 0)
    for r in region_coverage:
        if r in gene.unique_regions:
            eg = newvar_at("EG_{}", r)
            a = newvar(None, None, 0, lp_inf(), f"ABS_{lp_name(eg)}")
            family("CABSL_{}", a + eg >= 0)
            family("CABSR_{}", a - eg >= 0)
    # objective (C03): normalised depth-fit error (the PCE region weighted by cn_pce_penalty), gene-fit error,
    # parsimony penalty per used slot with surcharges for fusions
    base_pen = 10.0 / nreg * 0.75
    lp_setobjective(None,
                    (profile.cn_diff / nreg) * (0.0 + sum((profile.cn_pce_penalty if lp_name(newvar_at("E_{}", r)) == "E_pce" else 1)
                                                          * newvar_at("ABS_{}", lp_name(newvar_at("E_{}", r)))
                                                          for r in region_coverage if r in gene.unique_regions))
                    + (profile.cn_fit / nreg) * (0.0 + sum(newvar_at("ABS_{}", lp_name(newvar_at("EG_{}", r)))
                                                           for r in region_coverage if r in gene.unique_regions))
                    + profile.cn_parsimony * (0.0 + sum(
                        (base_pen
                         + (base_pen * profile.cn_fusion_right if (s[0] in gene.cn_configs and gene.cn_configs[s[0]].kind == CNConfigType.RIGHT_FUSION) else 0)
                         + (base_pen * profile.cn_fusion_left if (s[0] in gene.cn_configs and gene.cn_configs[s[0]].kind == CNConfigType.LEFT_FUSION) else 0))
                        * newvar_at("CN_{}_{}", s[0], s[1]) for s in slots)))


# ------------------------------------------------------------------------------------------------
# C03: structure candidates - a configuration that has alleles of its own is kept iff at least one of them
# has read support for all its core variants

def cn_supported(coverage, m):
    """read support that survives the structure stage's filter (threshold / cn_max of the depth, minimum reads)"""
    return (support(coverage, m) > 0 and support(coverage, m) >= coverage.profile.min_coverage
            and support(coverage, m) >= depth_at(coverage, m) * (coverage.profile.threshold / coverage.profile.cn_max))


@contract("aldy.cn._filter_configs", native=False)
def _(gene, coverage):
    types(gene="Gene", coverage="Coverage")
    returns("Dict[str, CNConfig]")
    requires(coverage._indels is None, coverage.profile.threshold > 0, coverage.profile.cn_max > 0, coverage.profile.min_coverage >= 0)
    requires(forall(lambda c=str, a=str: implies(c in gene.cn_configs and a in gene.cn_configs[c].alleles, a in gene.alleles)))
    ensures(forall(lambda c=str: implies(c in result, c in gene.cn_configs)), label="subset-of-catalogue")
    ensures(forall(lambda c=str: implies(c in gene.cn_configs and c not in gene.alleles, c in result)), label="alleleless-kept")
    # "... configurations that are not supported by the remaining mutations": a configuration with alleles of its own
    # stays iff one of them has every core variant supported (reads >= minimum and >= threshold / cn_max of the depth)
    # NOT under symbolic contract (kept in the native contract solve_cn_model#results only): "a configuration with
    # alleles of its own stays iff one of them has every core variant supported" - the code decides it by comparing two
    # list lengths (len(bad_alleles) == len(alleles)), which needs a counting argument over finite sums that the
    # back ends did not find (tried: count rule + split implications; undecided after 80 s).
    ensures(forall(lambda c=str: implies(c in result, result[c].kind == gene.cn_configs[c].kind
                                         and len(result[c].cn) == len(gene.cn_configs[c].cn))), label="copies-of-catalogue")
    modifies()
