# Contracts for aldy/cn.py


@contract("aldy.cn._parse_user_solution")
def _(gene, sols):
    types(sols="List[str]")
    returns("CNSolution")
    requires("1" in gene.cn_configs, len(gene.regions) > 0)
    requires(forall(lambda c=str, g=int, r=str: implies(c in gene.cn_configs and 0 <= g and g < len(gene.cn_configs[c].cn) and r in gene.cn_configs[c].cn[g],
                                                        g < len(gene.cn_configs["1"].cn) and r in gene.regions[0])))
    # C03: "A user-supplied structure is used verbatim, unknown configuration names are rejected"
    raises(AldyException, when=exists(lambda i=int: 0 <= i and i < len(sols) and sols[i] not in gene.cn_configs))
    ensures(result.score == 0, label="score-zero")
    ensures(forall(lambda c=str: implies(c in result.solution,
                                         result.solution[c] == sum(1 for i in range(0, len(sols)) if sols[i] == c))), label="verbatim")
    ensures(forall(lambda c=str: (c in result.solution) == (sum(1 for i in range(0, len(sols)) if sols[i] == c) > 0)), label="exactly-the-listed")
    modifies()


def default_config(gene):
    """some configuration of kind DEFAULT (the code takes the first one in table order)"""
    return [k for k in gene.cn_configs if gene.cn_configs[k].kind == CNConfigType.DEFAULT]


@contract("aldy.cn.estimate_cn", external={"aldy.cn._print_coverage": ""})
def _(gene, profile, coverage, solver, debug):
    types(coverage="Optional[Coverage]", solver="str", debug="Optional[str]")
    returns("List[CNSolution]")
    requires("1" in gene.cn_configs, len(gene.regions) > 0)
    requires(forall(lambda c=str, g=int, r=str: implies(c in gene.cn_configs and 0 <= g and g < len(gene.cn_configs[c].cn) and r in gene.cn_configs[c].cn[g],
                                                        g < len(gene.cn_configs["1"].cn) and r in gene.regions[0])))
    # this contract covers the two dispatch branches that do not run the model (C03, last sentence);
    # the model branch is covered by solve_cn_model's contract
    requires((profile.cn_solution is not None and len(profile.cn_solution) > 0) or not gene.do_copy_number)
    requires(exists(lambda k=str: k in gene.cn_configs and gene.cn_configs[k].kind == CNConfigType.DEFAULT))
    user = profile.cn_solution is not None and len(profile.cn_solution) > 0
    ncopies = 1 if (profile.male and (gene.chr == "X" or gene.chr == "Y")) else 2
    raises(AldyException, when=user and exists(lambda i=int: 0 <= i and i < len(profile.cn_solution)
                                               and profile.cn_solution[i] not in gene.cn_configs))
    ensures(len(result) == 1, label="one-structure")
    ensures(result[0].score == 0, label="score-zero")
    # a user-supplied structure is used verbatim
    ensures(implies(user, forall(lambda c=str: implies(c in result[0].solution, result[0].solution[c]
                                                       == sum(1 for i in range(0, len(profile.cn_solution)) if profile.cn_solution[i] == c)))),
            label="user-verbatim")
    # otherwise exactly two default copies (one for an X/Y-linked gene of a sample declared male)
    ensures(implies(not user, forall(lambda c=str: implies(c in result[0].solution,
                                                           gene.cn_configs[c].kind == CNConfigType.DEFAULT and result[0].solution[c] == ncopies))),
            label="default-copies")
    modifies()
