# Contracts for aldy/lpinterface.py.
# Level 2 (used by the model builders): variables are identified by (name template, hole values),
# constraints are emitted into the model's family list. See DESIGN.md 2.6.


@contract("aldy.lpinterface.model", assumed=True, native=False)
def _(name, solver):
    returns("CBC")
    ensures(result.INF == lp_inf())


@contract("aldy.lpinterface.CBC.addVar", assumed=True, native=False)
def _(self, _, kwargs):
    returns("LinVar")
    ensures(result == newvar(self, kwargs.get("vtype"), kwargs.get("lb", 0), kwargs.get("ub", lp_inf()),
                             kwargs.get("name", "")))


@contract("aldy.lpinterface.CBC.addConstr", assumed=True, native=False)
def _(self, args, kwargs):
    emits(self, args[0], kwargs.get("name"))


@contract("aldy.lpinterface.CBC.quicksum", assumed=True, native=False)
def _(self, expr):
    returns("LinExpr")
    ensures(result == 0.0 + sum(x for x in expr))


@contract("aldy.lpinterface.CBC.varName", assumed=True, native=False)
def _(self, var):
    ensures(result == lp_name(var))


@contract("aldy.lpinterface.CBC.update", assumed=True, native=False)
def _(self):
    modifies()


@contract("aldy.lpinterface.CBC.setObjective", assumed=True, native=False)
def _(self, objective, method):
    lp_setobjective(self, objective)


@contract("aldy.lpinterface.Gurobi.prod", native=False)
def _(self, res, terms):
    types(self="CBC", res="LinVar", terms="List[LinVar]")
    # C05: res <= each factor, res >= sum - (n - 1)
    for t in terms:
        emits(self, res <= t, "PROD")
    emits(self, res >= 0.0 + sum(t for t in terms) - (len(terms) - 1), "PROD")
    ensures(result == res)


@contract("aldy.lpinterface.Gurobi.abssum", native=False)
def _(self, vars, coeffs):
    types(self="CBC", vars="List[LinVar]", coeffs="Optional[Dict[str, float]]")
    returns("LinExpr")
    # C05: one non-negative variable per term, bounded below by +v and -v
    for v in vars:
        a = newvar(self, None, 0, lp_inf(), f"ABS_{lp_name(v)}")
        emits(self, a + v >= 0, "CABSL_{}")
        emits(self, a - v >= 0, "CABSR_{}")
    ensures(result == 0.0 + sum((1 if coeffs is None or lp_name(v) not in coeffs else coeffs[lp_name(v)])
                                * newvar_at("ABS_{}", lp_name(v)) for v in vars))
