# Contracts for aldy/lpinterface.py.
# Level 2 (used by the model builders): variables are identified by (name template, hole values),
# constraints are emitted into the model's family list. See DESIGN.md 2.6.


@contract("aldy.lpinterface.model", assumed=True, native=False)
def _(name, solver):
    returns("CBC")
    ensures(result.INF == lp_inf())


@contract("aldy.lpinterface.CBC.addVar", assumed=True, native=False)
def _(self, _, kwargs):
    returns("LinVar")
    ensures(result == newvar(self, kwargs.get("vtype"), kwargs.get("lb", 0), kwargs.get("ub", lp_inf()),
                             kwargs.get("name", "")))


@contract("aldy.lpinterface.CBC.addConstr", assumed=True, native=False)
def _(self, args, kwargs):
    emits(self, args[0], kwargs.get("name"))


@contract("aldy.lpinterface.CBC.quicksum", assumed=True, native=False)
def _(self, expr):
    returns("LinExpr")
    ensures(result == 0.0 + sum(x for x in expr))


@contract("aldy.lpinterface.CBC.varName", assumed=True, native=False)
def _(self, var):
    ensures(result == lp_name(var))


@contract("aldy.lpinterface.CBC.update", assumed=True, native=False)
def _(self):
    modifies()


@contract("aldy.lpinterface.CBC.setObjective", assumed=True, native=False)
def _(self, objective, method):
    lp_setobjective(self, objective)


@contract("aldy.lpinterface.Gurobi.prod", native=False)
def _(self, res, terms):
    types(self="CBC", res="LinVar", terms="List[LinVar]")
    # C05: res <= each factor, res >= sum - (n - 1)
    for t in terms:
        emits(self, res <= t, "PROD")
    emits(self, res >= 0.0 + sum(t for t in terms) - (len(terms) - 1), "PROD")
    ensures(result == res)


@contract("aldy.lpinterface.Gurobi.abssum", native=False)
def _(self, vars, coeffs):
    types(self="CBC", vars="List[LinVar]", coeffs="Optional[Dict[str, float]]")
    returns("LinExpr")
    # C05: one non-negative variable per term, bounded below by +v and -v
    for v in vars:
        a = newvar(self, None, 0, lp_inf(), f"ABS_{lp_name(v)}")
        emits(self, a + v >= 0, "CABSL_{}")
        emits(self, a - v >= 0, "CABSR_{}")
    ensures(result == 0.0 + sum((1 if coeffs is None or lp_name(v) not in coeffs else coeffs[lp_name(v)])
                                * newvar_at("ABS_{}", lp_name(v)) for v in vars))


# ----------------------------------------------------------------------------------------------
# Level 1: the interface functions themselves (C05)

def esc(s):
    """escaped base name: the solver-unsafe characters are removed / replaced, at most 200 characters"""
    return s.replace(".", "").replace("-", "m").replace("#", "__").replace(">", "")[:200]


def uses(d, k):
    """how many times base name k has been handed out so far"""
    return d[k] if k in d else 0


@contract("aldy.lpinterface.escape_name")
def _(s, d):
    types(s="str", d="Optional[DefaultDict[str, int, 'int']]")
    returns("str")
    requires(d is None or forall(lambda k=str: implies(k in d, d[k] >= 1)))
    # C05 (names identify variables): first use keeps the escaped name, the n-th use gets the suffix _n,
    # and the use counter of that base name - and only that one - is advanced
    ensures(implies(d is None, result == esc(s)), label="no-table")
    ensures(implies(d is not None and old(uses(d, esc(s))) == 0, result == esc(s)), label="first-use")
    ensures(implies(d is not None and old(uses(d, esc(s))) >= 1,
                    result == esc(s) + "_" + str(old(uses(d, esc(s))) + 1)), label="later-use")
    ensures(implies(d is not None, uses(d, esc(s)) == old(uses(d, esc(s))) + 1), label="counter-advanced")
    ensures(implies(d is not None, forall(lambda k=str: implies(k != esc(s), uses(d, k) == old(uses(d, k))))), label="other-counters-kept")
    modifies(d)


@contract("aldy.lpinterface.CBC.getValue", native=False)
def _(self, var):
    types(var="LinVar")
    returns("Union[bool, int, float]")
    zero_one = abs(lp_lb(var)) < 0.01 and abs(1 - lp_ub(var)) < 0.01
    # C05: typed read-back - integer variables are read as the nearest integer (a value within solver
    # tolerance of an integer reads as that integer), integer [0,1] variables as booleans, others unchanged
    ensures(implies(lp_integer(var) and zero_one, typed(result, "bool") and result == (round(lp_solution(var)) > 0)), label="binary")
    ensures(implies(lp_integer(var) and not zero_one, typed(result, "int") and result == round(lp_solution(var))), label="integer")
    ensures(implies(not lp_integer(var), typed(result, "float") and result == lp_solution(var)), label="continuous")
    modifies()


@contract("aldy.lpinterface.CBC.is_binary", native=False)
def _(self, v):
    types(v="LinVar")
    ensures(result == (lp_integer(v) and abs(lp_lb(v)) < 0.01 and abs(1 - lp_ub(v)) < 0.01))
    modifies()


@contract("aldy.lpinterface.CBC.solve", assumed=True, native=False)
def _(self, init):
    # ASSUMED solver contract (CBC / OR-Tools, DESIGN.md section 3): "optimal" means the variable values
    # are a feasible point whose objective is minimal; aldy's objectives are sums of absolute errors and
    # non-negative penalties, hence non-negative
    returns("Tuple[str, float]")
    may_raise(NoSolutionsError)
    ensures(result[1] >= 0)


@contract("aldy.lpinterface.CBC.variables", assumed=True, native=False)
def _(self):
    returns("List[LinVar]")
    modifies()


@contract("aldy.lpinterface.Gurobi.solutions", native=False, inline=["aldy.common.sorted_tuple"])
def _(self, gap, best_obj, limit, iteration, init):
    types(self="CBC", gap="float", best_obj="Optional[float]", limit="Optional[int]", iteration="int", init="Opaque[Init]")
    returns("List[Tuple[str, float, Opaque[Names]]]")
    requires(gap >= 0, best_obj is None or best_obj >= 0)
    # C05: every yielded solution has status optimal ...
    ensures(all_yields(lambda y: y[0] == "optimal"), label="optimal-status")
    # ... and lies within the gap of the optimum: obj < (1 + gap) * best + solver precision, where best is the
    # objective of the first solution of the enumeration (threaded through the recursion as best_obj)
    ensures(implies(best_obj is not None, all_yields(lambda y: y[1] < (1 + gap) * best_obj + 0.00001)), label="within-gap")
    ensures(all_yields(lambda y: y[1] >= 0), label="nonneg")


# C05 "no binary assignment is yielded twice ... any feasible within-gap assignment that is not yielded has a superset
# of the active binaries of some yielded solution": the cut added after a yield (slice of Gurobi.solutions: the
# statement inside `if not limit or iteration + 1 < limit:`), for an arbitrary table vv of the active binaries.
# Lemma L-cut connects the emitted constraint with the clause.

@contract("aldy.lpinterface.Gurobi.solutions@cut", native=False)
def _(self, vv):
    types(self="CBC", vv="Dict[str, LinVar]")
    emits(self, 0.0 + sum(v for v in vv.values()) <= len(vv) - 1, None)
