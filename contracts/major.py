# Contracts for aldy/major.py


@contract("aldy.major._filter_alleles.filter_fns")
def _(cov, mut, coverage, cn_solution):
    # `coverage` and `cn_solution` are free variables of the nested function (closure of _filter_alleles)
    types(cov="Coverage", mut="Mutation", coverage="Coverage", cn_solution="CNSolution")
    requires(cn_wf(cn_solution))
    requires(cov.profile.threshold > 0, cov.profile.min_coverage >= 0, coverage.profile.cn_max > 0)
    # C15: every variant passes the threshold for the maximum copy number; a non-reference variant must
    # also pass the single-copy fraction threshold for the copy number at its position (+ 0.5)
    ensures(result == (passes(cov, mut, coverage.profile.cn_max)
                       and (mut.op == "_" or passes(cov, mut, copies_at(cn_solution, mut.pos) + 0.5))))
    modifies()


def observed(gene, coverage, m):
    """C02: an observed core variant - catalogued, function-altering, with filtered read support."""
    return (m.pos, m.op) in gene.mutations and gene.is_functional((m.pos, m.op), True) and support(coverage, m) > 0


def copies_of(cn_solution, allele_dict, an):
    """number of copies of allele an's structural configuration in the gene structure"""
    return cn_solution.solution[allele_dict[an].cn_config]


def ncopies(cn_solution, allele_dict, an):
    """candidate copies of an allele: the multiplicity of its configuration, at least one"""
    return 1 if copies_of(cn_solution, allele_dict, an) < 1 else copies_of(cn_solution, allele_dict, an)


def candidate_copy(cn_solution, allele_dict, an, i):
    """one binary per (candidate allele, copy index below the multiplicity of its configuration; at least one)"""
    return an in allele_dict and 0 <= i and (i == 0 or i < copies_of(cn_solution, allele_dict, an))


def observed_copies(coverage, cn_solution, m):
    """observed copy number of a variant: support / single-copy depth (0 where the structure has no copy)"""
    return (0.0 if copies_at(cn_solution, m.pos) == 0
            else support(coverage, m) / single_depth(coverage, cn_solution, m.pos, depth_at(coverage, m)))


@contract("aldy.major.solve_major_model", external={"aldy.major._print_candidates": ""}, native=False)
def _(gene, coverage, cn_solution, allele_dict, solver, identifier, debug):
    types(allele_dict="Dict[str, MajorAllele]", solver="str", identifier="int", debug="Optional[str]")
    requires(cn_wf(cn_solution), gene_wf(gene))
    # candidates come from the structure (estimate_major / _filter_alleles ensure both)
    requires(forall(lambda an=str: implies(an in allele_dict, allele_dict[an].cn_config in cn_solution.solution
                                           and an in gene.alleles
                                           and gene.alleles[an].cn_config == allele_dict[an].cn_config
                                           and gene.alleles[an].cn_config in gene.cn_configs)))
    requires(forall(lambda an=str, m=Mutation: implies(an in allele_dict and m in allele_dict[an].func_muts,
                                                       observed(gene, coverage, m))))
    requires(forall(lambda c=str: implies(c in cn_solution.solution, cn_solution.solution[c] >= 0)))
    # "_" is never a catalogued change (Gene invariant from process_mutation)
    requires(forall(lambda p=int: (p, "_") not in gene.mutations))
    requires(forall(lambda c=str, g=int, r=str: implies(c in gene.cn_configs and 0 <= g and g < len(gene.regions) and r in gene.regions[g],
                                                        g < len(gene.cn_configs[c].cn) and r in gene.cn_configs[c].cn[g])))
    requires(coverage.profile.major_novel >= 0)
    cut_after("aldy.lpinterface.CBC.setObjective")

    # ---------------------------------------------------------------- the specified model (C02)
    # one binary per candidate allele copy; copies of one allele are used in index order
    for an in allele_dict:
        for i in range(0, ncopies(cn_solution, allele_dict, an)):
            newvar(None, "B", None, None, f"A_{an}_{i}")
            if i > 0:
                family("CORD_{}_{}", newvar_at("A_{}_{}", an, i) <= newvar_at("A_{}_{}", an, i - 1))
    obs = {Mutation(mk[0], mk[1]) for mk in gene.mutations if observed(gene, coverage, Mutation(mk[0], mk[1]))}
    sites = obs | {Mutation(m.pos, "_") for m in obs}
    for m in obs:
        newvar(None, "C", -lp_inf(), lp_inf(), f"E_{m.pos}_{m.op}")
        newvar(None, "B", None, None, f"N_{m}")
        newvar(None, "B", None, None, f"OR_{m}")
        newvar(None, "B", None, None, f"XOR_{m}")
        carriers = 0.0 + sum(newvar_at("A_{}_{}", an, i)
                             for an in allele_dict for i in range(0, ncopies(cn_solution, allele_dict, an))
                             if m in allele_dict[an].func_muts)
        # carried XOR novel: OR = (some selected copy carries m); XOR(N, OR) = 1
        family("COR", newvar_at("OR_{}", m) <= carriers)
        for an in allele_dict:
            for i in range(0, ncopies(cn_solution, allele_dict, an)):
                if m in allele_dict[an].func_muts:
                    family("COR", newvar_at("OR_{}", m) >= newvar_at("A_{}_{}", an, i))
        family("CXOR", newvar_at("XOR_{}", m) <= newvar_at("N_{}", m) + newvar_at("OR_{}", m))
        family("CXOR", newvar_at("XOR_{}", m) <= 2 - newvar_at("N_{}", m) - newvar_at("OR_{}", m))
        family("CXOR", newvar_at("XOR_{}", m) >= newvar_at("N_{}", m) - newvar_at("OR_{}", m))
        family("CXOR", newvar_at("XOR_{}", m) >= newvar_at("OR_{}", m) - newvar_at("N_{}", m))
        family("CXOR", newvar_at("XOR_{}", m) >= 1)
    for p in {m.pos for m in obs}:
        newvar(None, "C", -lp_inf(), lp_inf(), f"E_{p}_REF")
        # at most one novel non-insertion variant per position
        family("CONE_{}", 0.0 + sum(newvar_at("N_{}", m) for m in obs if m.pos == p and m.op[:3] != "ins") <= 1)
    # fit equations: called copies (+ novel flag) + error = observed copies, for every observed core
    # variant and for the reference allele at its position
    for m in sites:
        called = ((0.0 + sum(newvar_at("A_{}_{}", an, i)
                             for an in allele_dict for i in range(0, ncopies(cn_solution, allele_dict, an))
                             if gene.has_coverage(an, m.pos)
                             and not any(x.pos == m.pos and x.op[:3] != "ins" for x in allele_dict[an].func_muts)))
                  if m.op == "_" else
                  (0.0 + sum(newvar_at("A_{}_{}", an, i)
                             for an in allele_dict for i in range(0, ncopies(cn_solution, allele_dict, an))
                             if m in allele_dict[an].func_muts) + newvar_at("N_{}", m)))
        err = newvar_at("E_{}_REF", m.pos) if m.op == "_" else newvar_at("E_{}_{}", m.pos, m.op)
        family("CFUNC_{}_{}", called + err <= observed_copies(coverage, cn_solution, m))
        family("CFUNC_{}_{}", called + err >= observed_copies(coverage, cn_solution, m))
        a = newvar(None, None, 0, lp_inf(), f"ABS_{lp_name(err)}")
        family("CABSL_{}", a + err >= 0)
        family("CABSR_{}", a - err >= 0)
    # each structural configuration gets exactly as many alleles as the structure has copies of it
    for cnf in cn_solution.solution:
        sel = 0.0 + sum(newvar_at("A_{}_{}", an, i)
                        for an in allele_dict for i in range(0, ncopies(cn_solution, allele_dict, an))
                        if allele_dict[an].cn_config == cnf)
        family("CSAT_{}", sel <= cn_solution.solution[cnf])
        family("CSAT_{}", sel >= cn_solution.solution[cnf])
    # novelty indicator and objective: fit error + major_novel * [any novel] + 0.1 * #novel
    z = newvar(None, "B", None, None, "NOVEL")
    for m in obs:
        family("NOVEL_UB_{}", z >= newvar_at("N_{}", m))
    family("NOVEL_LB", z <= 0.0 + sum(newvar_at("N_{}", m) for m in obs))
    lp_setobjective(None, 0.0 + sum(newvar_at("ABS_{}", lp_name(newvar_at("E_{}_REF", m.pos) if m.op == "_" else newvar_at("E_{}_{}", m.pos, m.op)))
                                    for m in sites)
                    + coverage.profile.major_novel * z
                    + 0.1 * (0.0 + sum(newvar_at("N_{}", m) for m in obs)))


# ------------------------------------------------------------------------------------------------
# C15 / C02: the candidate filter of the major stage as a whole (debug probes off)

def hq_obs(cov, pos, op):
    """the observations of an entry that meet both quality thresholds, in order"""
    return [ob for ob in cov._coverage[pos][op] if hq(cov.profile, ob)]


@contract("aldy.major._filter_alleles", external={"aldy.gene.Gene.get_rsid": "str"}, native=False)
def _(gene, coverage, cn_solution):
    types(gene="Gene", coverage="Coverage", cn_solution="CNSolution")
    returns("Tuple[Dict[str, MajorAllele], Coverage]")
    requires(cn_wf(cn_solution), gene_wf(gene))
    requires(coverage.profile.debug_probe == "", coverage._indels is None)
    requires(coverage.profile.threshold > 0, coverage.profile.min_coverage >= 0, coverage.profile.cn_max > 0)
    # C15: "an allele one of whose core variants has no qualifying support is never called" - it is not even a
    # candidate; C02 mechanism "candidate selection: alleles whose core variants all pass the read filters"
    ensures(forall(lambda an=str: (an in result[0]) == (
        an in gene.alleles and gene.alleles[an].cn_config in cn_solution.solution
        and forall(lambda m=Mutation: implies(m in gene.alleles[an].func_muts, support(result[1], m) > 0)))),
        label="candidates-iff-all-core-variants-supported")
    # C15: the evidence handed on to the model consists of observations that "meet the base- and mapping-quality
    # thresholds" only: every kept entry is the quality-filtered list of the sample's entry ...
    ensures(forall(lambda pos=int, o=str: implies(in_pileup(result[1], pos, o),
                                                  in_pileup(coverage, pos, o)
                                                  and result[1]._coverage[pos][o] == hq_obs(coverage, pos, o))),
            label="evidence-is-quality-filtered")
    # ... and is kept only with "at least the configured minimum number of reads"
    ensures(forall(lambda pos=int, o=str: implies(in_pileup(result[1], pos, o),
                                                  len(result[1]._coverage[pos][o]) >= coverage.profile.min_coverage
                                                  and len(result[1]._coverage[pos][o]) > 0)),
            label="evidence-has-minimum-reads")
    # candidates are copies of the catalogue's alleles (what solve_major_model requires of its candidates)
    ensures(forall(lambda an=str: implies(an in result[0], result[0][an].cn_config == gene.alleles[an].cn_config
                                          and result[0][an].func_muts == gene.alleles[an].func_muts)),
            label="candidates-are-catalogue-copies")
    # the evidence handed on belongs to the same gene and profile
    shares(result[1], coverage, "gene", "profile")
    # C14: the gene database and the sample evidence are not modified (candidates are copies)
    modifies()


@contract("aldy.major.estimate_major", external={"aldy.coverage.Coverage.dump": "", "aldy.solutions.CNSolution._solution_nice": "str"}, native=False)
def _(gene, coverage, cn_solution, solver, identifier, debug):
    types(gene="Gene", coverage="Coverage", cn_solution="CNSolution", solver="str", identifier="int", debug="Optional[str]")
    returns("List[MajorSolution]")
    # (the VC generator keeps the objects reachable from different parameters apart: `coverage.gene` and
    # `cn_solution.gene` are not identified with `gene`; no clause below needs that identity)
    requires(cn_wf(cn_solution), gene_wf(gene))
    requires(coverage.profile.debug_probe == "", coverage._indels is None)
    requires(coverage.profile.threshold > 0, coverage.profile.min_coverage >= 0, coverage.profile.cn_max > 0,
             coverage.profile.major_novel >= 0)
    # Gene invariants (established by the loader, checked natively by the C09 contract of Gene.__init__):
    # core variants of catalogue alleles are catalogued and function-altering; "_" is never a catalogued change;
    # every configuration has a copy-number entry for every region of every gene copy
    requires(forall(lambda an=str, m=Mutation: implies(an in gene.alleles and m in gene.alleles[an].func_muts,
                                                       (m.pos, m.op) in gene.mutations and gene.is_functional((m.pos, m.op), True))))
    requires(forall(lambda an=str: implies(an in gene.alleles, gene.alleles[an].cn_config in gene.cn_configs)))
    requires(forall(lambda p=int: (p, "_") not in gene.mutations))
    requires(forall(lambda c=str, g=int, r=str: implies(c in gene.cn_configs and 0 <= g and g < len(gene.regions) and r in gene.regions[g],
                                                        g < len(gene.cn_configs[c].cn) and r in gene.cn_configs[c].cn[g])))
    requires(forall(lambda c=str: implies(c in cn_solution.solution, cn_solution.solution[c] >= 0)))
    # the obligations of this function are the PRECONDITIONS of solve_major_model at its call site: the candidate
    # set and the filtered evidence produced by _filter_alleles satisfy what the model builder's contract assumes
    modifies()
