# Contracts for aldy/major.py


@contract("aldy.major._filter_alleles.filter_fns")
def _(cov, mut, coverage, cn_solution):
    # `coverage` and `cn_solution` are free variables of the nested function (closure of _filter_alleles)
    types(cov="Coverage", mut="Mutation", coverage="Coverage", cn_solution="CNSolution")
    requires(cn_wf(cn_solution))
    requires(cov.profile.threshold > 0, cov.profile.min_coverage >= 0, coverage.profile.cn_max > 0)
    # C15: every variant passes the threshold for the maximum copy number; a non-reference variant must
    # also pass the single-copy fraction threshold for the copy number at its position (+ 0.5)
    ensures(result == (passes(cov, mut, coverage.profile.cn_max)
                       and (mut.op == "_" or passes(cov, mut, copies_at(cn_solution, mut.pos) + 0.5))))
    modifies()
