# Lemmas (no code): the constraint families pinned down by the builder contracts imply the clause of the
# property statement they stand for. Discharged by z3 for all values (pyvc/lemmas.py). Integers are
# mathematical; LP values are reals, binary variables are integers in {0, 1}.


def is01(x):
    return x == 0 or x == 1


@lemma("L-prod2")
def _(z, x, y):
    types(z="int", x="int", y="int")
    # C05 "exact linearisations": Gurobi.prod emits  z <= x, z <= y, z >= x + y - 1  (family PROD)
    requires(is01(z), is01(x), is01(y))
    requires(z <= x, z <= y, z >= x + y - (2 - 1))
    ensures(z == x * y, label="product-exact")


@lemma("L-prod3")
def _(z, x, y, w):
    types(z="int", x="int", y="int", w="int")
    requires(is01(z), is01(x), is01(y), is01(w))
    requires(z <= x, z <= y, z <= w, z >= x + y + w - (3 - 1))
    ensures(z == x * y * w, label="product-exact")


@lemma("L-prod-complete")
def _(x, y):
    types(x="int", y="int")
    # the product itself satisfies the emitted inequalities (nothing feasible is cut off)
    requires(is01(x), is01(y))
    ensures(x * y <= x and x * y <= y and x * y >= x + y - 1, label="product-feasible")


@lemma("L-abs")
def _(a, v):
    types(a="float", v="float")
    # C05: Gurobi.abssum emits  a >= 0 (lower bound), a + v >= 0, a - v >= 0  (families CABSL / CABSR)
    requires(a >= 0, a + v >= 0, a - v >= 0)
    ensures(a >= abs(v), label="abs-lower-bound")


@lemma("L-abs-tight")
def _(v):
    types(v="float")
    # ... and a = |v| is feasible, so a minimised term with a positive coefficient equals |v|
    ensures(abs(v) >= 0 and abs(v) + v >= 0 and abs(v) - v >= 0, label="abs-feasible")


@lemma("L-xor")
def _(x, n, o):
    types(x="int", n="int", o="int")
    # C02 "accounts for every observed core variant exactly once - either a called allele carries it or it is
    # reported as novel": families CXOR of solve_major_model
    requires(is01(x), is01(n), is01(o))
    requires(x <= n + o, x <= 2 - n - o, x >= n - o, x >= o - n, x >= 1)
    ensures(n + o == 1, label="carried-xor-novel")


@lemma("L-or2")
def _(o, a, b):
    types(o="int", a="int", b="int")
    # family COR: o <= sum of carriers, o >= every carrier  =>  o == 1 iff some carrier is selected
    requires(is01(o), is01(a), is01(b), o <= a + b, o >= a, o >= b)
    ensures((o == 1) == (a == 1 or b == 1), label="or-exact")


@lemma("L-or0")
def _(o):
    types(o="int")
    # no carrier among the candidates: o <= 0, so the variant must be novel (with L-xor)
    requires(is01(o), o <= 0)
    ensures(o == 0, label="or-empty")


@lemma("L-novel-flag")
def _(z, a, b):
    types(z="int", a="int", b="int")
    # families NOVEL_UB / NOVEL_LB: z >= every novel indicator, z <= their sum
    requires(is01(z), is01(a), is01(b), z >= a, z >= b, z <= a + b)
    ensures((z == 1) == (a + b >= 1), label="novel-flag-exact")


@lemma("L-ord")
def _(a0, a1, a2):
    types(a0="int", a1="int", a2="int")
    # family CORD (copies of one allele are used in index order): the number of used copies determines the assignment
    requires(is01(a0), is01(a1), is01(a2), a1 <= a0, a2 <= a1)
    ensures((a0 + a1 + a2 == 0) == (a0 == 0) and (a0 + a1 + a2 == 3) == (a2 == 1)
            and implies(a0 + a1 + a2 == 1, a0 == 1 and a1 == 0) and implies(a0 + a1 + a2 == 2, a0 == 1 and a1 == 1 and a2 == 0),
            label="order-canonical")


@lemma("L-sat")
def _(sel, n):
    types(sel="int", n="int")
    # C02 "gives each structural configuration exactly as many alleles as the gene structure has copies of it": CSAT
    requires(sel <= n, sel >= n)
    ensures(sel == n, label="exactly-as-many")


@lemma("L-fit")
def _(called, err, observed, a):
    types(called="float", err="float", observed="float", a="float")
    # C02 / C03 "score equals the fit error (sum of absolute differences between observed and called copy numbers)":
    # CFUNC pins err, CABSL/CABSR + minimisation pin a
    requires(called + err <= observed, called + err >= observed, a >= 0, a + err >= 0, a - err >= 0)
    ensures(a >= abs(observed - called), label="fit-error-lower-bound")


@lemma("L-cut")
def _(a, b, c):
    types(a="int", b="int", c="int")
    # C05 enumeration: after yielding a solution whose active binaries are {x, y} (z inactive), Gurobi.solutions adds
    # the cut  x + y <= 2 - 1  (slice solutions@cut). For any later assignment (a, b, c) of (x, y, z): it violates the
    # cut iff its active set is a superset of {x, y}; in particular the yielded assignment (1, 1, 0) itself is cut off
    # ("no binary assignment is yielded twice") and nothing but supersets is lost ("... has a superset of the active
    # binaries of some yielded solution")
    requires(is01(a), is01(b), is01(c))
    ensures((not (a + b <= 2 - 1)) == (a == 1 and b == 1), label="cut-excludes-exactly-the-supersets")
    ensures(not (1 + 1 <= 2 - 1), label="yielded-assignment-cut-off")


@lemma("L-zero-fit")
def _(called, observed):
    types(called="float", observed="float")
    # C01 / C02 "on noise-free evidence from catalogued alleles the true combination is among the reported ones with
    # error zero": when the called copy number of a variant equals the observed one, error term 0 with absolute-value
    # helper 0 satisfies the fit equation (CFUNC) and the helper constraints (CABSL / CABSR), so the planted assignment
    # is feasible with fit error 0 at that site - and no assignment scores below 0 (L-fit: a >= |observed - called| >= 0)
    requires(called == observed)
    ensures(called + 0 <= observed and called + 0 >= observed and 0 >= 0 and 0 + 0 >= 0 and 0 - 0 >= 0, label="zero-error-feasible")
    ensures(forall(lambda a=float, err=float: implies(called + err <= observed and called + err >= observed and a >= 0 and a + err >= 0 and a - err >= 0, a >= 0)),
            label="zero-is-minimal")
