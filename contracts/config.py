# Engine configuration and the per-property plans (parsed as literals).
CONFIG = {
    "external": {
        # trusted / opaque calls: name -> result type ('' = None). Listed in every evidence file.
    },
    "inline": [],
}

PLAN = {
    "C15": {
        "functions": [
            "aldy.coverage.Coverage.coverage",
            "aldy.coverage.Coverage.__getitem__",
            "aldy.coverage.Coverage.total",
            "aldy.coverage.Coverage.basic_filter",
            "aldy.coverage.Coverage.quality_filter",
            "aldy.coverage.Coverage.filtered",
            "aldy.major._filter_alleles.filter_fns",
            "aldy.minor.estimate_minor.default_filter_fn",
            "aldy.solutions.CNSolution.position_cn",
            "aldy.gene.Gene.region_at",
        ],
        "assumptions": [],
        "not_decided": [],
    },
    "C07": {
        "functions": [
            "aldy.coverage.Coverage._normalize_coverage",
            "aldy.coverage.Coverage.diploid_avg_coverage",
            "aldy.coverage.Coverage.average_coverage",
            "aldy.coverage.Coverage.total",
        ],
        "assumptions": ["defaultdict(int) zero-insertion on read is not modelled by the VC generator (checked natively by the frame clause)"],
        "not_decided": [],
    },
    "C02": {
        "functions": [
            "aldy.major.solve_major_model",
            "aldy.lpinterface.Gurobi.prod",
            "aldy.lpinterface.Gurobi.abssum",
            "aldy.coverage.Coverage.single_copy",
            "aldy.coverage.Coverage.coverage",
            "aldy.coverage.Coverage.__getitem__",
            "aldy.gene.Gene.has_coverage",
            "aldy.solutions.CNSolution.position_cn",
        ],
        "timeout_ms": 20000,
        "level": "other",
        "assumptions": ["CBC / OR-Tools returns true optima of the emitted model (assumed solver contract)",
                        "variables are identified by (name template, hole values): no two addVar calls of one site use the same name"],
        "not_decided": ["read-out of the enumerated solutions (after setObjective) is covered only by the bounded native check",
                        "agreement with independent solvers"],
    },
    "C03": {
        "functions": [
            "aldy.cn.estimate_cn",
            "aldy.cn._parse_user_solution",
            "aldy.solutions.CNSolution.__init__",
            "aldy.solutions.CNSolution.position_cn",
            "aldy.solutions.CNSolution.max_cn",
            "aldy.gene.Gene.deletion_allele",
        ],
        "level": "other",
        "assumptions": ["CBC / OR-Tools returns true optima of the emitted model (assumed solver contract)"],
        "not_decided": ["solve_cn_model (builder and read-out): not yet under contract in this round",
                        "VCF input fixes the structure to two copies in genotype(): not yet under contract"],
    },
    "C18": {
        "functions": ["aldy.profile.Profile.update"],
        "assumptions": ["str.lower, int(str), float(str) are uninterpreted functions (parses_int / parses_float / str_lower)"],
        "not_decided": [],
    },
}
