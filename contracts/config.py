# Engine configuration and the per-property plans (parsed as literals).
CONFIG = {
    "external": {
        # trusted / opaque calls: name -> result type ('' = None). Listed in every evidence file.
    },
    "inline": [],
}

PLAN = {
    "C15": {
        "functions": [
            "aldy.coverage.Coverage.coverage",
            "aldy.coverage.Coverage.__getitem__",
            "aldy.coverage.Coverage.total",
            "aldy.coverage.Coverage.basic_filter",
            "aldy.coverage.Coverage.quality_filter",
        ],
        "assumptions": [],
        "not_decided": [],
    },
}
