# Shared specification vocabulary (DESIGN.md section 4). Ordinary Python definitions; they are
# inlined by the verifier when a contract mentions them and are directly executable in the native replay.


def has_indel(cov, pos, op):
    """The indel-support table takes precedence over the pile-up (aldy/coverage.py:65)."""
    return cov._indels is not None and (pos, op) in cov._indels


def in_pileup(cov, pos, op):
    return pos in cov._coverage and op in cov._coverage[pos]


def support(cov, mut):
    """Number of observations supporting a variant (or the reference allele '_')."""
    return (cov._indels[mut.pos, mut.op][1] if has_indel(cov, mut.pos, mut.op)
            else (len(cov._coverage[mut.pos][mut.op]) if in_pileup(cov, mut.pos, mut.op) else 0))


def depth(cov, pos):
    """Number of non-insertion observations at a position."""
    return (sum(len(cov._coverage[pos][o]) for o in cov._coverage[pos] if o[:3] != "ins")
            if pos in cov._coverage else 0)


def depth_at(cov, mut):
    """Depth used for a variant: for table indels, off + on target reads."""
    return (cov._indels[mut.pos, mut.op][0] + cov._indels[mut.pos, mut.op][1] if has_indel(cov, mut.pos, mut.op)
            else depth(cov, mut.pos))


def hq(profile, ob):
    """An observation (mapq, quality) meets both quality thresholds."""
    return ob[1] >= profile.min_quality and ob[0] >= profile.min_mapq
