# Shared specification vocabulary (DESIGN.md section 4). Ordinary Python definitions; they are
# inlined by the verifier when a contract mentions them and are directly executable in the native replay.


def has_indel(cov, pos, op):
    """The indel-support table takes precedence over the pile-up (aldy/coverage.py:65)."""
    return cov._indels is not None and (pos, op) in cov._indels


def in_pileup(cov, pos, op):
    return pos in cov._coverage and op in cov._coverage[pos]


def support(cov, mut):
    """Number of observations supporting a variant (or the reference allele '_')."""
    return (cov._indels[mut.pos, mut.op][1] if has_indel(cov, mut.pos, mut.op)
            else (len(cov._coverage[mut.pos][mut.op]) if in_pileup(cov, mut.pos, mut.op) else 0))


def depth(cov, pos):
    """Number of non-insertion observations at a position."""
    return (sum(len(cov._coverage[pos][o]) for o in cov._coverage[pos] if o[:3] != "ins")
            if pos in cov._coverage else 0)


def depth_at(cov, mut):
    """Depth used for a variant: for table indels, off + on target reads."""
    return (cov._indels[mut.pos, mut.op][0] + cov._indels[mut.pos, mut.op][1] if has_indel(cov, mut.pos, mut.op)
            else depth(cov, mut.pos))


def hq(profile, ob):
    """An observation (mapq, quality) meets both quality thresholds."""
    return ob[1] >= profile.min_quality and ob[0] >= profile.min_mapq


def gene_wf(gene):
    """Gene invariant used by the look-ups (established by Gene._init_regions / _init_alleles):
    every position of the region index names an existing region of an existing gene copy."""
    return forall(lambda p=int: implies(p in gene._region_at,
                                        0 <= gene._region_at[p][0] and gene._region_at[p][0] < len(gene.regions)
                                        and gene._region_at[p][1] in gene.regions[gene._region_at[p][0]]))


def cn_wf(cn):
    """CNSolution invariant: one copy-number table per gene copy, covering every region name."""
    return (len(cn.region_cn) == len(cn.gene.regions)
            and forall(lambda g=int, r=str: implies(0 <= g and g < len(cn.gene.regions) and r in cn.gene.regions[g],
                                                    r in cn.region_cn[g] and cn.region_cn[g][r] >= 0))
            and gene_wf(cn.gene))


def copies_at(cn, pos):
    """Copy number of the structure at a genome position (0 outside the named regions)."""
    return (cn.region_cn[cn.gene._region_at[pos][0]][cn.gene._region_at[pos][1]]
            if pos in cn.gene._region_at else 0)


def passes(cov, mut, copies):
    """C15: at least the configured minimum number of reads, and the per-copy fraction threshold."""
    return (support(cov, mut) >= cov.profile.min_coverage
            and support(cov, mut) * copies >= depth_at(cov, mut) * cov.profile.threshold)


def single_depth(cov, cn, pos, d):
    return (0.0 if copies_at(cn, pos) == 0 else (d if d >= 1 else 1) / copies_at(cn, pos))
