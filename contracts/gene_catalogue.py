# Native (CPython) contracts for the gene-database layer aldy/gene.py: properties C08 and C09.
#
# Every contract here is `symbolic=False` (bounded native check, /verif/replay/native.py).  The inputs
# come from /verif/replay/inputs_gene.py: generated CONSISTENT databases (random RefSeq, both builds,
# either strand, alignment strings with I/D blocks, every variant kind, fusions, duplicates, name
# collisions, ...) and the 38 shipped databases x {hg19, hg38}  (`--genes all|generated|shipped|<file>`).
#
# Conventions taken from the property statements (and DESIGN.md, C08):
#   * a variant is (0-based position, op); op is  L>R  (substitution; several bases = MNP, `.` = base
#     not touched),  insX,  delX,  delXinsY;
#   * applying a variant to a sequence at position p:  L>R / delX / delXinsY replace the bases
#     p .. p+len-1;  insX goes BETWEEN the bases p and p+1 (the catalogue key of an insertion is the
#     base before the gap) -- the same rule is used for the written (RefSeq) and the loaded (genome) form;
#   * "as written": the entry [P, op, ...] of the database YAML (P is 1-based), kept by the loader as
#     gene.mutations[key][3:5] = (P-1, op);  "as loaded": the key (genome position, genome-strand op).
#
# Data preconditions are explicit antecedents:
#   * pure-match window: the RefSeq bases the written variant touches (for an insertion: its two
#     flanking bases) are aligned base by base, without an alignment gap between them, to the genome.
#     Variants that straddle an I/D block of the RefSeq<->genome alignment are outside the C08 clauses.
#   * build independence is stated for databases all of whose written variants are in a pure-match
#     window in BOTH builds (otherwise one build legitimately ignores a variant the other one loads).
#     (All 4,620 catalogued variants of the 38 shipped databases are in pure-match windows in both builds,
#     so on shipped data no antecedent excludes anything.)
#
# Clauses that FAIL on the unchanged tree (genuine deviations from the statements, each under its own
# label, kept as findings; everything else holds):
#   Gene.__init__  post/reverse-op/delins, Gene._reverse_op raises/delins-unsupported/only-when
#       _reverse_op("delXinsY") raises AssertionError although the loader strand-converts such variants
#       (CYP2A6 has two); no call site passes one today (latent).
#   Gene.__init__  post/distinct-majors/partial-vs-database
#       a left fusion with own core variants that shares its breakpoint with a bare left fusion is kept next
#       to the partial alleles f#a: a partial allele and the database allele have the same
#       (cn_config, func_muts).  toy.yml + `TOY*7.001: [[TOYP, i2-], [151, C>T, -, functional]]` gives
#       majors `7` and `4#3`, both (cn_config 4, {100000150.C>T}).  Not triggered by shipped data.
#   Gene.__init__  post/build/catalogue   (post/build/catalogue-one-region holds)
#       a variant is assigned to the region of its LOWEST GENOME base (for an insertion: of the genome base
#       before the gap), i.e. of its first RefSeq base on '+' but its last one on '-': for a multi-base
#       variant / insertion on a region boundary and opposite strands in the two builds the partial
#       alleles of a left fusion keep it in one build only.  toy.yml (hg19 '+', hg38 '-') + silent
#       `[150, delCG]` in TOY*1.002 + bare `TOY*8.001: [[TOYP, e3-]]`: 8#1.002 exists under hg38 only.
#       Not triggered by shipped data (same strand in both builds for all 38).
#   Gene.__init__  post/build/structure
#       UGT1A1: region utr5 has length 0 in hg19 and 18 in hg38, so the default configuration has 0 copies
#       of utr5 under hg19 and 1 under hg38 (utr5 is not a cn_region: no effect on calling).

GCAT_KINDS = ["sub", "mnp", "ins", "del", "delins"]
GCAT_FLANK = 8
GCAT_MEMO = {}


# ------------------------------------------------------------------------------- reporting helper

def gcat_none(bad):
    """the clause `no offender exists`: true iff the list is empty; otherwise the first offenders are
    carried into the violation report (the checker records an exception raised by a clause as a failure)"""
    bad = list(bad)
    if bad:
        raise AssertionError(f"{len(bad)} offender(s), first: {bad[:3]!r}")
    return True


# ------------------------------------------------------------------------------- sequences and variants

def gcat_comp(c):
    # (written as a conditional chain so that the symbolic engine can evaluate it on a symbolic base;
    #  same function as {"A": "T", "C": "G", "G": "C", "T": "A"}.get(c, c))
    return "T" if c == "A" else ("G" if c == "C" else ("C" if c == "G" else ("A" if c == "T" else c)))


def gcat_rc(s):
    """reverse complement (`.` and N are their own complement)"""
    return "".join(gcat_comp(c) for c in reversed(s))


def gcat_kind(op):
    return ("delins" if op[:3] == "del" and "ins" in op[3:] else
            "del" if op[:3] == "del" and len(op) > 3 else
            "ins" if op[:3] == "ins" and len(op) > 3 else
            ("sub" if len(op.split(">")[0]) == 1 else "mnp") if op.count(">") == 1 and len(op.split(">")[0]) == len(op.split(">")[1]) and len(op) > 2 else
            "other")


def gcat_ref(op):
    """reference allele of a substitution / deletion / deletion-insertion ('' for an insertion)"""
    k = gcat_kind(op)
    return op.split(">")[0] if k in ("sub", "mnp") else op[3:].split("ins")[0] if k in ("del", "delins") else ""


def gcat_alt(op):
    k = gcat_kind(op)
    return op.split(">")[1] if k in ("sub", "mnp") else op[3:] if k == "ins" else op[3:].split("ins")[1] if k == "delins" else ""


def gcat_span(op):
    """number of reference bases the variant is anchored on (an insertion: its two flanking bases)"""
    return 2 if gcat_kind(op) == "ins" else len(gcat_ref(op))


def gcat_rc_op(op):
    """the same change described on the opposite strand: every allele reverse-complemented"""
    k = gcat_kind(op)
    return (f"{gcat_rc(gcat_ref(op))}>{gcat_rc(gcat_alt(op))}" if k in ("sub", "mnp") else
            f"ins{gcat_rc(gcat_alt(op))}" if k == "ins" else
            f"del{gcat_rc(gcat_ref(op))}" if k == "del" else
            f"del{gcat_rc(gcat_ref(op))}ins{gcat_rc(gcat_alt(op))}" if k == "delins" else op)


def gcat_apply(seq, pos, op):
    """the sequence after applying the variant at 0-based `pos` (positional: whether the reference allele
    matches is a separate clause); None when the variant does not lie inside `seq`"""
    k = gcat_kind(op)
    n = gcat_span(op)
    if k == "other" or pos < 0 or pos + n > len(seq):
        return None
    if k == "ins":
        return seq[:pos + 1] + gcat_alt(op) + seq[pos + 1:]
    if k in ("sub", "mnp"):
        alt = gcat_alt(op)
        return seq[:pos] + "".join(seq[pos + i] if alt[i] == "." else alt[i] for i in range(n)) + seq[pos + n:]
    return seq[:pos] + gcat_alt(op) + seq[pos + n:]


def gcat_matches(seq, pos, allele):
    """the allele (`.` = any base) is what `seq` has at pos"""
    return 0 <= pos and pos + len(allele) <= len(seq) and all(a == "." or seq[pos + i] == a for i, a in enumerate(allele))


# ------------------------------------------------------------------------------- alignment windows

def gcat_contig(self, lo, hi):
    """RefSeq bases lo .. hi-1 are aligned base by base, with no alignment gap between them"""
    m = self.ref_to_chr
    return 0 <= lo and hi <= len(self.seq) and all(i in m for i in range(lo, hi)) and \
        all(m[i + 1] - m[i] == self.strand for i in range(lo, hi - 1))


def gcat_window(self, p0, op, flank):
    """pure-match window of the written variant (0-based RefSeq p0, op): the RefSeq interval (a, b) made of
    its footprint plus up to `flank` bases on either side as far as the alignment stays gap-free;
    None when the footprint itself is not gap-free (the antecedent of the C08 clauses)"""
    lo, hi = p0, p0 + gcat_span(op)
    if gcat_kind(op) == "other" or not gcat_contig(self, lo, hi):
        return None
    m = self.ref_to_chr
    a, b = lo, hi
    while lo - a < flank and a - 1 >= 0 and (a - 1) in m and m[a] - m[a - 1] == self.strand:
        a -= 1
    while b - hi < flank and b < len(self.seq) and b in m and m[b] - m[b - 1] == self.strand:
        b += 1
    return (a, b)


def gcat_hap_written(self, p0, op, win):
    """the window of RefSeq after applying the variant as written"""
    return gcat_apply(self.seq[win[0]:win[1]], p0 - win[0], op)


def gcat_hap_loaded(self, cpos, cop, win):
    """the same window: the genome-oriented reference (gene[...]) after applying the variant as loaded,
    oriented to the strand of the gene"""
    m = self.ref_to_chr
    glo = min(m[win[0]], m[win[1] - 1])
    ghi = max(m[win[0]], m[win[1] - 1]) + 1
    h = gcat_apply(self[glo:ghi], cpos - glo, cop)
    return None if h is None else h if self.strand > 0 else gcat_rc(h)


def gcat_variants(self):
    """catalogued variants: (genome position, genome-strand op, 0-based RefSeq position as written, op as written)"""
    return [(k[0], k[1], v[3], v[4]) for k, v in self.mutations.items()]


# ------------------------------------------------------------------------------- C08 offenders

def gcat_gbase(self, g):
    """genome-oriented reference base at genome position g: the RefSeq base aligned to g (complemented
    on the reverse strand), N where nothing is aligned"""
    return (self.seq[self.chr_to_ref[g]] if self.strand > 0 else gcat_comp(self.seq[self.chr_to_ref[g]])) if g in self.chr_to_ref else "N"


def gcat_lookup_bad(self):
    return [g for g in self.chr_to_ref if self[g] != gcat_gbase(self, g)]


def gcat_hap_bad(self, kind):
    bad = []
    for cpos, cop, p0, op in gcat_variants(self):
        if gcat_kind(op) != kind:
            continue
        win = gcat_window(self, p0, op, GCAT_FLANK)
        if win is None:
            continue
        hw = gcat_hap_written(self, p0, op, win)
        hl = gcat_hap_loaded(self, cpos, cop, win)
        if hw is None or hl is None or hw != hl:
            bad.append({"written": f"{p0 + 1}{op}", "loaded": f"{cpos}.{cop}", "strand": self.strand, "genome": self.genome,
                        "refseq_window": self.seq[win[0]:win[1]], "written_applied": hw, "loaded_applied_oriented": hl})
    return bad


def gcat_refallele_written_bad(self):
    return [f"{p0 + 1}{op} but RefSeq has {self.seq[p0:p0 + len(gcat_ref(op))]}"
            for cpos, cop, p0, op in gcat_variants(self)
            if gcat_kind(op) in ("sub", "mnp", "del", "delins") and not gcat_matches(self.seq, p0, gcat_ref(op))]


def gcat_refallele_loaded_bad(self):
    return [f"{cpos}.{cop} ({p0 + 1}{op}) but the genome-oriented reference has {self[cpos:cpos + len(gcat_ref(cop))]}"
            for cpos, cop, p0, op in gcat_variants(self)
            if gcat_kind(cop) in ("sub", "mnp", "del", "delins") and gcat_window(self, p0, op, 0) is not None
            and not gcat_matches(self[cpos:cpos + len(gcat_ref(cop))], 0, gcat_ref(cop))]


def gcat_reverse_op_bad(self, delins):
    """loaded op vs written op: identical on the forward strand; on the reverse strand the loaded op is the
    strand conversion of the written one and _reverse_op takes it back"""
    bad = []
    for cpos, cop, p0, op in gcat_variants(self):
        if (gcat_kind(op) == "delins") != delins:
            continue
        if self.strand > 0:
            ok = cop == op
        else:
            ok = cop == gcat_rc_op(op) and self._reverse_op(cop) == op
        if not ok:
            bad.append((f"{p0 + 1}{op}", f"{cpos}.{cop}"))
    return bad


# ------------------------------------------------------------------------------- the raw database (self._yml)

def gcat_name(key):
    """catalogue name of a database allele: the text after `*`, `/` replaced by `_`"""
    return (key.split("*", 1)[1] if "*" in key else key).replace("/", "_")


def gcat_db_alleles(self):
    """database alleles that are not marked `ignored`: {name: [[pos, op, *annotation], ...]}"""
    return {gcat_name(k): a["mutations"] for k, a in self._yml["alleles"].items()
            if k not in ("random", "groups") and not a.get("ignored", False)}


def gcat_written(muts):
    """sequence variants of a database mutation list as (0-based RefSeq position, op); entries whose first
    field is a name (structural markers [GENE|PSEUDOGENE, ...], group references, `ignored` entries) are not variants"""
    return [(m[0] - 1, m[1]) for m in muts if not isinstance(m[0], str)]


def gcat_all_written(self):
    al = self._yml["alleles"]
    out = []
    for k, a in al.items():
        if k == "random":
            out += gcat_written(a)
        elif k == "groups":
            for g in a.values():
                out += gcat_written(g)
        elif not a.get("ignored", False):
            out += gcat_written(a["mutations"])
    return out


def gcat_written_notations(self):
    return {f"{p0 + 1}{op}" for p0, op in gcat_all_written(self)}


def gcat_index(self):
    """written variant (0-based RefSeq position, op) -> catalogue key"""
    return {(v[3], v[4]): k for k, v in self.mutations.items()}


def gcat_parse(notation):
    """'<P><op>' -> (P-1, op)"""
    n = len(notation) - len(notation.lstrip("0123456789"))
    return (int(notation[:n]) - 1, notation[n:]) if n else (None, notation)


def gcat_is_left_fusion(self, muts):
    return any(isinstance(m[0], str) and m[0] in self.pseudogenes and m[1][-1:] == "-" for m in muts)


def gcat_core_written(self, idx, muts):
    """the written variants of a database allele that are function-altering (gene.is_functional of the loaded form)"""
    return [w for w in gcat_written(muts) if w in idx and self.is_functional(idx[w])]


def gcat_bare_left_fusion(self, muts):
    """a left fusion (PSEUDOGENE + GENE) without core variants of its own: replaced by the partial alleles f#a"""
    return gcat_is_left_fusion(self, muts) and not gcat_core_written(self, gcat_index(self), muts)


def gcat_clean(self, muts):
    """every written variant of the list lies in a pure-match window of this build"""
    return all(gcat_window(self, p0, op, 0) is not None for p0, op in gcat_written(muts))


def gcat_db_clean(self):
    return all(gcat_window(self, p0, op, 0) is not None for p0, op in gcat_all_written(self))


def gcat_one_region(self):
    """every written variant touches one region only (all bases it is anchored on are in the same region)"""
    return all(gcat_window(self, p0, op, 0) is not None and
               len({self.region_at(self.ref_to_chr[i]) for i in range(p0, p0 + gcat_span(op))}) == 1
               for p0, op in gcat_all_written(self))


# ------------------------------------------------------------------------------- C09 offenders

def gcat_owners(self, name):
    r = self.removed.get(name, name)
    return [an for an, a in self.alleles.items() if r in a.minors]


def gcat_unreachable(self):
    return [n for n, muts in gcat_db_alleles(self).items()
            if not gcat_bare_left_fusion(self, muts) and self.get_allele(n) is None]


def gcat_owner_bad(self):
    return [(n, gcat_owners(self, n)) for n, muts in gcat_db_alleles(self).items()
            if not gcat_bare_left_fusion(self, muts) and len(gcat_owners(self, n)) != 1]


def gcat_same_key(self, first, second):
    """pairs of different major alleles with the same (cn_config, func_muts); `first` / `second` say whether
    the two alleles are partial alleles f#a (True) or alleles of the database (False)"""
    return [(an, bn, a.cn_config, sorted(tuple(m) for m in a.func_muts))
            for an, a in self.alleles.items() if ("#" in an) == first
            for bn, b in self.alleles.items() if ("#" in bn) == second and an != bn and (first != second or an < bn)
            and a.cn_config == b.cn_config and a.func_muts == b.func_muts]


def gcat_split_bad(self):
    bad = []
    for an, a in self.alleles.items():
        bad += [(an, "core variant is not functional", tuple(m)) for m in a.func_muts if not self.is_functional(m)]
        for mn, mi in a.minors.items():
            bad += [(an, mn, "minor-only variant is functional", tuple(m)) for m in mi.neutral_muts if self.is_functional(m)]
            bad += [(an, mn, "variant is both core and minor-only", tuple(m)) for m in mi.neutral_muts if m in a.func_muts]
    return bad


def gcat_content_bad(self):
    """a reachable database allele (all of whose variants are in a pure-match window) has, in RefSeq terms,
    exactly its written function-altering variants as core variants and its written silent ones as minor-only"""
    idx = gcat_index(self)
    bad = []
    for n, muts in gcat_db_alleles(self).items():
        r = self.get_allele(n)
        if r is None or not gcat_clean(self, muts):
            continue
        core = {f"{p0 + 1}{op}" for p0, op in gcat_core_written(self, idx, muts)}
        silent = {f"{p0 + 1}{op}" for p0, op in gcat_written(muts)} - core
        got_core = {self.get_refseq(m) for m in r[0].func_muts}
        got_silent = {self.get_refseq(m) for m in r[1].neutral_muts}
        if core != got_core or silent != got_silent:
            bad.append({"allele": n, "major": r[0].name, "minor": r[1].name, "written_core": sorted(core), "catalogued_core": sorted(got_core),
                        "written_silent": sorted(silent), "catalogued_silent": sorted(got_silent)})
    return bad


def gcat_minor_dups(self):
    bad = []
    for an, a in self.alleles.items():
        seen = {}
        for mn, mi in a.minors.items():
            key = frozenset(mi.neutral_muts)
            if key in seen:
                bad.append((an, seen[key], mn))
            seen.setdefault(key, mn)
    return bad


def gcat_retained(self, f, muts):
    """the variants lying in a region of which the fused structure f keeps at least one copy"""
    return {m for m in muts if self.region_at(m.pos) is not None and
            self.cn_configs[f].cn[self.region_at(m.pos)[0]][self.region_at(m.pos)[1]] > 0}


def gcat_parent(self, x):
    """(major, minor) that holds database allele x outside the partial alleles"""
    r = self.removed.get(x, x)
    return [(a, a.minors[r]) for an, a in self.alleles.items() if "#" not in an and r in a.minors]


def gcat_partials_bad(self):
    """every partial allele f#x: f is a left fusion, x's parent has the default structure, and the partial
    carries exactly the parent's variants (core / minor-only) lying in regions f retains"""
    bad = []
    for an, a in self.alleles.items():
        for mn, mi in a.minors.items():
            if "#" not in mn:
                continue
            f, x = mn.split("#", 1)
            par = gcat_parent(self, x)
            if f != a.cn_config or f not in self.cn_configs or self.cn_configs[f].kind != CNConfigType.LEFT_FUSION:
                bad.append((an, mn, "not attached to its left fusion", a.cn_config))
            elif len(par) != 1 or par[0][0].cn_config != "1":
                bad.append((an, mn, "parent is not one default-structure allele", [p[0].name for p in par]))
            elif a.func_muts != gcat_retained(self, f, par[0][0].func_muts):
                bad.append((an, mn, "core variants", sorted(a.func_muts), sorted(gcat_retained(self, f, par[0][0].func_muts))))
            elif mi.neutral_muts != gcat_retained(self, f, par[0][1].neutral_muts):
                bad.append((an, mn, "minor-only variants", sorted(mi.neutral_muts), sorted(gcat_retained(self, f, par[0][1].neutral_muts))))
    return bad


def gcat_partials_missing(self):
    """a left fusion that is replaced by partial alleles offers a partial allele for every default-structure
    (major, minor): same retained core variants, same retained minor-only variants"""
    bad = []
    fusions = {a.cn_config for an, a in self.alleles.items() if "#" in an}
    for f in fusions:
        partial = [a for an, a in self.alleles.items() if "#" in an and a.cn_config == f]
        for an, a in self.alleles.items():
            if "#" in an or a.cn_config != "1":
                continue
            want = gcat_retained(self, f, a.func_muts)
            cands = [p for p in partial if p.func_muts == want]
            if len(cands) != 1:
                bad.append((f, an, "partial majors with the retained core variants", [p.name for p in cands]))
                continue
            have = {frozenset(mi.neutral_muts) for mi in cands[0].minors.values()}
            bad += [(f, an, mn, "no partial minor with the retained minor-only variants")
                    for mn, mi in a.minors.items() if frozenset(gcat_retained(self, f, mi.neutral_muts)) not in have]
    return bad


# ------------------------------------------------------------------------------- build independence

def gcat_other(self, path, name, yml):
    """the same database loaded for the other genome build (memoised: the three build clauses share one load)"""
    og = next(g for g in self._yml["reference"]["mappings"] if g != self.genome)
    key = (path, name, yml, og)
    if key not in GCAT_MEMO:
        if len(GCAT_MEMO) >= 4:
            GCAT_MEMO.clear()
        GCAT_MEMO[key] = type(self)(path, name, yml, og)
    return GCAT_MEMO[key]


def gcat_catalogue(g):
    """the catalogue in RefSeq terms: names, grouping into major and minor alleles, variant content via
    get_refseq, the structural configuration assigned to each allele, and where each database allele is found"""
    return {
        "majors": {an: (a.cn_config, sorted(g.get_refseq(m) for m in a.func_muts),
                        {mn: sorted(g.get_refseq(m) for m in mi.neutral_muts) for mn, mi in a.minors.items()})
                   for an, a in g.alleles.items()},
        "lookup": {n: (None if g.get_allele(n) is None else (g.get_allele(n)[0].name, g.get_allele(n)[1].name))
                   for n in gcat_db_alleles(g)},
        "random": sorted(g.get_refseq(m) for m in g.random_mutations),
    }


def gcat_structure(g):
    """the structural configurations themselves: kind and copies per region (5' -> 3') of every gene"""
    return {cn: (c.kind.name, [list(x.items()) for x in c.cn]) for cn, c in g.cn_configs.items()}


def gcat_diff(a, b):
    """first differences between two nested dict/list values (for the report)"""
    if isinstance(a, dict) and isinstance(b, dict):
        out = [f"only in one build: {k!r}" for k in sorted(set(a) ^ set(b), key=repr)]
        for k in a:
            if k in b and a[k] != b[k]:
                out += [f"{k!r}: {d}" for d in gcat_diff(a[k], b[k])]
        return out[:4]
    return [] if a == b else [f"{a!r} != {b!r}"]


def gcat_same(a, b):
    d = gcat_diff(a, b)
    if d:
        raise AssertionError("; ".join(d))
    return True


# =============================================================================== the contracts

@contract("aldy.gene.Gene.__init__", symbolic=False)
def _(self, path, name, yml, genome):
    types(path="Optional[str]", name="Optional[str]", yml="Optional[str]", genome="Optional[str]")
    modifies(self)

    # ---------------------------------------------------------------- C08
    # "gene.chr_to_ref and gene.ref_to_chr are mutually inverse"
    ensures({r: g for g, r in self.chr_to_ref.items()} == self.ref_to_chr and
            {g: r for r, g in self.ref_to_chr.items()} == self.chr_to_ref, label="maps-inverse")
    # "the genome-oriented reference (gene[...] / gene._lookup_seq)": gene[g] is the RefSeq base aligned to g,
    # complemented on the reverse strand
    ensures(gcat_none(gcat_lookup_bad(self)), label="genome-reference")
    # "applying the variant as loaded (genome position + genome-strand alleles, key of gene.mutations) to the
    # genome-oriented reference and then orienting to the gene's strand yields exactly the sequence obtained by
    # applying the variant as written in the database YAML (RefSeq position and alleles) to gene.seq - for
    # substitutions, multi-nucleotide substitutions, deletions, insertions, deletion-insertions, on either
    # strand, both builds"     antecedent: the written variant lies in a pure-match window of the alignment
    for kind in GCAT_KINDS:
        ensures(gcat_none(gcat_hap_bad(self, kind)), label="haplotype/" + kind)
    # "the reference allele of every substitution and deletion matches the reference"
    #   as written against RefSeq ...
    ensures(gcat_none(gcat_refallele_written_bad(self)), label="ref-allele/refseq")
    #   ... and as loaded against the genome-oriented reference (antecedent: pure-match window)
    ensures(gcat_none(gcat_refallele_loaded_bad(self)), label="ref-allele/genome")
    # "gene.get_refseq(m) returns the notation the variant was written in": it is an entry of the YAML ...
    ensures(gcat_none([(k, self.get_refseq(k)) for k in self.mutations if self.get_refseq(k) not in gcat_written_notations(self)]),
            label="refseq-notation")
    #   ... namely the one the loader recorded for this key (whose haplotype the clauses above compare)
    ensures(gcat_none([(k, self.get_refseq(k), v[3:5]) for k, v in self.mutations.items()
                       if self.get_refseq(k) != f"{v[3] + 1}{v[4]}" or self.get_refseq(k[0], k[1]) != self.get_refseq(k)]),
            label="refseq-notation/recorded")
    # "gene._reverse_op inverts the strand conversion" (of every catalogued variant)
    ensures(gcat_none(gcat_reverse_op_bad(self, False)), label="reverse-op")
    #   deletion-insertions are strand-converted by the loader as well
    ensures(gcat_none(gcat_reverse_op_bad(self, True)), label="reverse-op/delins")

    # ---------------------------------------------------------------- C09
    # "every database allele that is not a bare left fusion is reachable via gene.get_allele(name) ..."
    ensures(gcat_none(gcat_unreachable(self)), label="reachable")
    # "... and belongs to exactly one major allele"
    ensures(gcat_none(gcat_owner_bad(self)), label="one-major")
    # "two different major alleles (and two different partial alleles of one fusion) never have the same
    # (cn_config, func_muts)"
    ensures(gcat_none(gcat_same_key(self, False, False)), label="distinct-majors")
    ensures(gcat_none(gcat_same_key(self, True, True)), label="distinct-partials")
    #   ... also when one of the two is a partial allele and the other an allele of the database
    ensures(gcat_none(gcat_same_key(self, False, True)), label="distinct-majors/partial-vs-database")
    # "func_muts are exactly the functional variants (gene.is_functional) and minors' neutral_muts the silent ones"
    ensures(gcat_none(gcat_split_bad(self)), label="core-functional")
    #   ... of the database allele, in RefSeq terms (antecedent: the allele's variants are in pure-match windows)
    ensures(gcat_none(gcat_content_bad(self)), label="content")
    # "minors of one major have pairwise different variant sets"
    ensures(gcat_none(gcat_minor_dups(self)), label="minors-distinct")
    # "every allele's cn_config exists in gene.cn_configs"
    ensures(gcat_none([(an, a.cn_config) for an, a in self.alleles.items() if a.cn_config not in self.cn_configs]),
            label="cn-config-exists")
    # "for a left fusion the partial alleles f#a carry exactly the parent's variants lying in regions the
    # fusion retains"
    ensures(gcat_none(gcat_partials_bad(self)), label="partials")
    ensures(gcat_none(gcat_partials_missing(self)), label="partials/complete")
    # "the catalogue (names, grouping, variant content in RefSeq terms via get_refseq, cn_config per allele) is
    # the same for genome=hg19 and genome=hg38"
    #   antecedent (data): every written variant lies in a pure-match window in both builds
    ensures(implies(len(self._yml["reference"]["mappings"]) == 2 and gcat_db_clean(self) and gcat_db_clean(gcat_other(self, path, name, yml)),
                    gcat_same(gcat_catalogue(self), gcat_catalogue(gcat_other(self, path, name, yml)))),
            label="build/catalogue")
    #   the same under the stronger data antecedent that no written variant touches two regions
    ensures(implies(len(self._yml["reference"]["mappings"]) == 2 and gcat_one_region(self) and gcat_one_region(gcat_other(self, path, name, yml)),
                    gcat_same(gcat_catalogue(self), gcat_catalogue(gcat_other(self, path, name, yml)))),
            label="build/catalogue-one-region")
    #   "... and the structural configuration assigned to each allele": the configurations themselves
    ensures(implies(len(self._yml["reference"]["mappings"]) == 2,
                    gcat_same(gcat_structure(self), gcat_structure(gcat_other(self, path, name, yml)))),
            label="build/structure")


@contract("aldy.gene.Gene.get_refseq", symbolic=False)
def _(self, args, from_atg):
    types(args="Tuple[int, str]", from_atg="bool")
    requires(not from_atg)          # numbering relative to the start codon is not part of the statement
    requires(len(args) == 2 or (len(args) == 1 and len(args[0]) == 2))
    key = (args[0], args[1]) if len(args) == 2 else (args[0][0], args[0][1])
    ensures(implies(key not in self.mutations, result == "-"), label="not-catalogued")
    # C08 "gene.get_refseq(m) returns the notation the variant was written in"
    ensures(implies(key in self.mutations, result in gcat_written_notations(self)), label="written-notation")
    # ... i.e. the written variant that denotes the same haplotype as m (antecedent: pure-match window)
    ensures(implies(key in self.mutations and gcat_parse(result)[0] is not None and gcat_window(self, gcat_parse(result)[0], gcat_parse(result)[1], GCAT_FLANK) is not None,
                    gcat_hap_written(self, gcat_parse(result)[0], gcat_parse(result)[1], gcat_window(self, gcat_parse(result)[0], gcat_parse(result)[1], GCAT_FLANK))
                    == gcat_hap_loaded(self, key[0], key[1], gcat_window(self, gcat_parse(result)[0], gcat_parse(result)[1], GCAT_FLANK))),
            label="same-variant")
    modifies()


@contract("aldy.gene.Gene._reverse_op", symbolic=False)
def _(self, op):
    types(op="str")
    requires(gcat_kind(op) != "other")
    # C08 "gene._reverse_op inverts the strand conversion": the result is the change whose strand conversion
    # (every allele reverse-complemented, the kind kept) is `op`
    ensures(gcat_rc_op(result) == op and result == gcat_rc_op(op), label="inverse")
    # deletion-insertions are strand-converted by the loader, so they have to be invertible as well
    raises(AssertionError, when=False, label="delins-unsupported")
    modifies()


@contract("aldy.gene.Gene.get_allele", symbolic=False)
def _(self, name):
    types(name="str")
    # C09 "every database allele that is not a bare left fusion is reachable via gene.get_allele(name) ..."
    ensures(implies(name in gcat_db_alleles(self) and not gcat_bare_left_fusion(self, gcat_db_alleles(self)[name]), result is not None),
            label="reachable")
    # "... and belongs to exactly one major allele"
    ensures(implies(name in gcat_db_alleles(self) and not gcat_bare_left_fusion(self, gcat_db_alleles(self)[name]), len(gcat_owners(self, name)) == 1),
            label="one-major")
    # the (major, minor) found is the one holding the name (or the name it is an alias of)
    ensures(iff(result is None, len(gcat_owners(self, name)) == 0), label="found-iff-catalogued")
    ensures(implies(result is not None,
                    result[0] is self.alleles[gcat_owners(self, name)[0]] and result[1] is result[0].minors[self.removed.get(name, name)]
                    and result[1].name == self.removed.get(name, name)),
            label="found")
    # an alias (duplicate removed from the catalogue) leads to a minor allele with the same variants
    ensures(implies(result is not None and name in gcat_db_alleles(self) and gcat_clean(self, gcat_db_alleles(self)[name]),
                    {self.get_refseq(m) for m in result[0].func_muts} | {self.get_refseq(m) for m in result[1].neutral_muts}
                    == {f"{p0 + 1}{op}" for p0, op in gcat_written(gcat_db_alleles(self)[name])}),
            label="content")
    modifies()


def gcat_lookup_wf(self):
    """object invariant established by Gene.__init__ (its clause `genome-reference` checks it natively on every generated
    and shipped database): the look-up string holds the genome-oriented reference base of every position of the look-up
    range, and no position outside the look-up range is aligned"""
    return (len(self._lookup_seq) == self._lookup_range[1] - self._lookup_range[0]
            and forall(lambda g=int: implies(self._lookup_range[0] <= g and g < self._lookup_range[1],
                                             self._lookup_seq[g - self._lookup_range[0]] == gcat_gbase(self, g)))
            and forall(lambda g=int: implies(g in self.chr_to_ref, self._lookup_range[0] <= g and g < self._lookup_range[1])))


@contract("aldy.gene.Gene.__getitem__", pure=True)
def _(self, i):
    types(i="Union[int, slice]")
    returns("str")
    # (symbolic view of a slice: the record slice(start, stop); gene[a:b] is only used with both bounds and no step)
    requires(typed(i, "int") or (typed(i, "slice") and i.start <= i.stop))
    requires(gcat_lookup_wf(self))
    # C08 "the genome-oriented reference (gene[...])": position by position the RefSeq base aligned to the
    # genome position (complemented on the reverse strand), N where nothing is aligned.
    # The clause `result == "".join(gcat_gbase(self, g) for g in range(i.start, i.stop))` for slices is split into its
    # length and three position ranges (before / inside / after the aligned range; outside it nothing is aligned, so
    # the bases are a run of N); the conjunction of the parts is the clause.
    if typed(i, "int"):
        ensures(result == gcat_gbase(self, i), label="genome-reference")
    else:
        nb = max(0, min(i.stop, self._lookup_range[0]) - i.start)     # requested positions before the aligned range
        na = max(0, i.stop - max(i.start, self._lookup_range[1]))     # requested positions after it
        ensures(len(result) == i.stop - i.start, label="genome-reference/slice-length")
        ensures(result[:nb] == "N" * nb, label="genome-reference/slice-before")
        ensures(forall(lambda g=int: implies(i.start <= g and g < i.stop and self._lookup_range[0] <= g and g < self._lookup_range[1],
                                             result[g - i.start] == gcat_gbase(self, g))),
                label="genome-reference/slice-inside")
        ensures(result[len(result) - na:] == "N" * na, label="genome-reference/slice-after")
        ensures(forall(lambda g=int: implies(g < self._lookup_range[0] or g >= self._lookup_range[1], gcat_gbase(self, g) == "N")),
                label="genome-reference/outside-unaligned")
    modifies()
