# Small symbolic contracts for C19 ("No genotype is reported from no data"): the structure stage's low-depth guard.
# The guard itself is stated in the contract of aldy.cn.estimate_cn (contracts/cn.py); this file has the accessor it
# reads and the two spec functions of the clause.


@contract("aldy.coverage.Coverage.region_coverage")
def _(self, gene, region):
    types(gene="int", region="str")
    # surfaced from the dictionary look-up: the region was normalised (Coverage._normalize_coverage, C07 "only-regions")
    requires((gene, region) in self._region_coverage)
    ensures(result == self._region_coverage[gene, region], label="normalised-depth")
    modifies()


def cn_locus_depth(gene, coverage):
    """normalised depth of the locus: over the (distinct) copy-number regions of the gene, depth of the gene copy
    plus depth of the pseudogene copy (a gene without pseudogene has only the first term)"""
    return sum(r0 + r1 for r0, r1 in {r: (coverage._region_coverage[0, r], coverage._region_coverage[1, r] if len(gene.regions) > 1 else 0.0)
                                      for r in gene.unique_regions}.values())


def cn_config_copies(gene, c):
    """number of region copies structure c accounts for (all regions of the gene's and the pseudogene's table)"""
    return sum(sum(v.values()) for v in gene.cn_configs[c].cn)
