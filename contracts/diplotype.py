# Contracts for aldy/diplotype.py (result layer): C11 (diplotype arrangement) and C12 (result files).
#
# NATIVE ONLY: every contract here is marked symbolic=False; the spec functions are ordinary Python
# (statements allowed) executed by /verif/replay/native.py on objects built from real genes (toy,
# CYP2D6, CYP2A6, CYP2C19, GSTM1; hooks in /verif/replay/inputs_result.py).  The writers receive an
# in-memory file; the spec functions PARSE THE WRITTEN TEXT BACK and compare it with the solutions.
# Shared vocabulary (res_carried, res_definition, res_name_ok, res_none, ...): solutions_accessors.py,
# support(): spec.py.
#
# KNOWN FINDINGS on the unchanged tree (clauses kept, each under its own label):
#   write_vcf  post/vcf-gt-per-solution   one genotype table object is shared by all solutions
#                                         (`[defaultdict(int)] * len(minors)`): toy [*1.001] + [*2.001] -> GT 1 in both columns
#   write_vcf  post/vcf-missing           lost variants (`missing`) are ignored: toy [*2.001 -delAC] -> GT 1 at delAC
#   write_vcf  post/vcf-ref-alt-indel     insertion REF is the letter "i" (ALT "iTT"), deletion REF "." (ALT "AC, .")
#   write_vcf  post/vcf-ref-alt-complex   multi-base substitutions / delins are rendered like deletions:
#                                         CYP2D6 TG>GA -> REF "." ALT "GA, ."; CYP2A6 delGCinsT -> REF "." ALT "GCinsT, ."
#   write_vcf  post/vcf-parses-back       an allele name containing ":" (CYP2D6 *68:2) breaks the ":"-separated sample
#                                         field: "1|0:0:*68:2,-:*68.002,-" has 5 values for GT:DP:MA:MI (rare: ~1 of 150 cases)
# Everything else holds on the unchanged tree.


# =========================================================================== C11: estimate_diplotype

def dip_number(major):
    """Allele number of a major allele name, the unit the tandem list speaks about: fusion suffix
    removed, then the leading number (or the leading word): '13#4' -> '13', '1C' -> '1', 'Null' -> 'Null'."""
    import re
    parts = re.split(r"(\d+)", str(major).split("#")[0])
    return parts[0] if parts[0] != "" else parts[1]


def dip_readings(hap, nums, tandems, pairs):
    """Every way to read a haplotype (list of copy indices) as a sequence of units: single copies and,
    when `pairs`, two neighbours (a, b) whose allele numbers form a common tandem of the gene."""
    return ([[]] if len(hap) == 0 else
            [[(hap[0],)] + r for r in dip_readings(hap[1:], nums, tandems, pairs)]
            + ([[(hap[0], hap[1])] + r for r in dip_readings(hap[2:], nums, tandems, pairs)]
               if pairs and len(hap) >= 2 and (nums[hap[0]], nums[hap[1]]) in tandems else []))


def dip_nums(gene, solution):
    nums = {i: dip_number(a.major) for i, a in enumerate(solution.solution)}
    nums[-1] = dip_number(res_deletion_allele(gene)) if res_deletion_allele(gene) is not None else ""
    return nums


def dip_leftover_ok(reading0, reading1, nums, tandems):
    """No common tandem (ta, tb) is left with an unpaired copy of ta AND an unpaired copy of tb."""
    single = [nums[u[0]] for u in reading0 + reading1 if len(u) == 1]
    return all((single.count(ta) < 2) if ta == tb else not (ta in single and tb in single) for ta, tb in tandems)


def dip_tandems_ok(gene, solution, d):
    """C11: 'Alleles listed as a common tandem are placed next to each other on one haplotype when more
    than two copies are called': the arrangement can be read so that tandem partners are neighbours
    (first the ta copy, then the tb copy) and no tandem keeps both an unpaired ta and an unpaired tb."""
    nums = dip_nums(gene, solution)
    tandems = [tuple(t) for t in gene.common_tandems]
    return any(dip_leftover_ok(r0, r1, nums, tandems)
               for r0 in dip_readings(list(d[0]), nums, tandems, True)
               for r1 in dip_readings(list(d[1]), nums, tandems, True))


def dip_sorted(keys):
    from natsort import natsorted
    return natsorted(keys) == list(keys)


def dip_natural_ok(gene, solution, d):
    """C11: 'haplotypes and the alleles within them are in natural order' (natsort order of the names
    shown).  A tandem pair (more than two copies) is one unit, placed by the name of its first allele
    -- otherwise *13+*1 could never be printed."""
    nums = dip_nums(gene, solution)
    tandems = [tuple(t) for t in gene.common_tandems]
    pairs = len(solution.solution) > 2
    names = [[str(solution.get_major_name(i)) for i in h] for h in d]
    return (all(any(dip_sorted([str(solution.get_major_name(u[0])) for u in r])
                    for r in dip_readings(list(h), nums, tandems, pairs)) for h in d)
            and dip_sorted(names))


def dip_parse(text):
    """'*1 + *4 / *2+rs5' -> [['1', '4'], ['2+rs5']] (printed haplotypes, names without the star)"""
    return [[a[1:] if a[:1] == "*" else "?" + a for a in h.split(" + ")] for h in text.split(" / ")] if text != "" else []


def dip_names_ok(gene, solution, d, text):
    """The printed string shows, haplotype by haplotype, exactly the copies of the arrangement, each under
    the name of its called major allele (deletion placeholder: the deletion allele)."""
    shown = dip_parse(text)
    haps = [h for h in d if len(h) > 0]
    return (len(shown) == len(haps) and all(len(s) == len(h) for s, h in zip(shown, haps))
            and all((s[k] == res_deletion_allele(gene)) if h[k] == -1
                    else res_name_ok(gene, solution.solution[h[k]], res_plain(solution), s[k])
                    for s, h in zip(shown, haps) for k in range(len(h))))


def dip_placeholders_ok(d, n, dele):
    """C11: 'the whole-gene-deletion allele is shown exactly for the missing haplotypes of a gene that has
    one': two placeholders for 0 copies, one (on the other haplotype) for 1 copy, none otherwise."""
    flat = [i for h in d for i in h]
    want = max(0, 2 - n) if dele is not None else 0
    return flat.count(-1) == want and (want == 0 or (len(d[0]) == 1 and len(d[1]) == 1))


def dip_permuted_string(gene, solution):
    """The printed diplotype of the same call with the copies produced in the opposite order."""
    from aldy.diplotype import estimate_diplotype
    p = MinorSolution(solution.score, list(reversed(solution.solution)), solution.major_solution, solution.profile)
    estimate_diplotype(gene, p)
    return p.get_major_diplotype()


@contract("aldy.diplotype.estimate_diplotype", symbolic=False)
def _(gene, solution):
    types(gene="Gene", solution="MinorSolution")
    requires(sameobj(solution.major_solution.cn_solution.gene, gene))
    requires(all(a.major in gene.alleles for a in solution.solution))
    n = len(solution.solution)
    dele = res_deletion_allele(gene)
    ensures(len(result) == 2, label="two-haplotypes")
    # C11: "every copy appears exactly once" (-1 is the deletion placeholder)
    ensures(sorted(i for h in result for i in h if i != -1) == list(range(n)), label="every-copy-once")
    # C11: "both haplotypes are non-empty whenever at least two copies are called"
    ensures(implies(n >= 2, len(result[0]) > 0 and len(result[1]) > 0), label="both-nonempty")
    # C11: "the whole-gene-deletion allele is shown exactly for the missing haplotypes of a gene that has one"
    ensures(dip_placeholders_ok(result, n, dele), label="deletion-placeholders")
    # the arrangement is what the solution prints from now on
    ensures(list(solution.diplotype) == list(result), label="attribute-set")
    # C11: "the names shown are the called major alleles (fusion suffix removed, novel core variants appended)"
    ensures(dip_names_ok(gene, solution, result, solution.get_major_diplotype()), label="names")
    # C11: "Alleles listed as a common tandem are placed next to each other on one haplotype when more than two copies are called"
    ensures(implies(n > 2, dip_tandems_ok(gene, solution, result)), label="tandems-adjacent")
    # C11: "haplotypes and the alleles within them are in natural order"
    ensures(dip_natural_ok(gene, solution, result), label="natural-order")
    # C11: "for one or two copies the string does not depend on the order in which the alleles were produced"
    ensures(implies(1 <= n and n <= 2, dip_permuted_string(gene, solution) == solution.get_major_diplotype()),
            label="order-independent")
    # C14: the gene database and the called alleles are untouched; only the arrangement is stored
    modifies(solution.diplotype)


# =========================================================================== C12: write_decomposition

def dec_rows(text):
    """Rows of the decomposition file: tab-separated
    sample, gene, solution id, major diplotype, minor list, copy, allele, position, change, coverage, effect, dbSNP, ..."""
    return [ln.split("\t") for ln in text.split("\n") if ln != ""]


def dec_variant_rows(rows, i):
    return [r for r in rows if r[5] == str(i) and not (r[7] == "" and r[8] == "")]


def dec_empty_rows(rows, i):
    return [r for r in rows if r[5] == str(i) and r[7] == "" and r[8] == ""]


def dec_rows_exact(gene, minor, rows):
    """C12: 'lists, per allele copy, exactly the variants that copy is reported to carry (definition plus
    additions minus losses)': per copy, the (position, change) rows are exactly the carried variants, once each."""
    return res_none([f"copy {i} ({a.minor}): rows {sorted((r[7], r[8]) for r in dec_variant_rows(rows, i))} but carries "
                     f"{sorted((str(m.pos), m.op) for m in res_carried(gene, a))}"
                     for i, a in enumerate(minor.solution)
                     if sorted((r[7], r[8]) for r in dec_variant_rows(rows, i)) != sorted((str(m.pos), m.op) for m in res_carried(gene, a))])


def dec_empty_ok(gene, minor, rows):
    """C12: 'copies without variants get one empty row' (and only they)."""
    return res_none([f"copy {i}: {len(dec_empty_rows(rows, i))} empty rows, carries {len(res_carried(gene, a))} variants"
                     for i, a in enumerate(minor.solution)
                     if len(dec_empty_rows(rows, i)) != (1 if len(res_carried(gene, a)) == 0 else 0)
                     or any(x != "" for r in dec_empty_rows(rows, i) for x in r[7:12])])


def dec_fields_ok(gene, coverage, minor, rows):
    """C12: 'each with its position, change, read support, effect and dbSNP id'."""
    return res_none([f"copy {i} row {r[7:12]}: expected {[str(m.pos), m.op, str(support(coverage, m)), res_effect(gene, m) or 'none', res_dbsnp(gene, m)]}"
                     for i, a in enumerate(minor.solution) for m in res_carried(gene, a)
                     for r in dec_variant_rows(rows, i) if r[7] == str(m.pos) and r[8] == m.op
                     and r[7:12] != [str(m.pos), m.op, str(support(coverage, m)), res_effect(gene, m) or "none", res_dbsnp(gene, m)]])


def dec_columns_ok(sample, gene, sol_id, minor, rows):
    """C12: 'under the solution's diplotype and allele list': every row names the sample, gene, solution id,
    the major diplotype (without blanks), the list of minor alleles, a copy index and that copy's minor allele."""
    return res_none([f"row {r[:7]}" for r in rows
                     if r[:5] != [sample, gene.name, str(sol_id), minor.get_major_diplotype().replace(" ", ""),
                                  ";".join(a.minor for a in minor.solution)]
                     or r[5] not in [str(i) for i in range(len(minor.solution))]
                     or r[6] != minor.solution[int(r[5])].minor])


@contract("aldy.diplotype.write_decomposition", symbolic=False)
def _(sample, gene, coverage, sol_id, minor, f):
    types(sample="str", gene="Gene", coverage="Coverage", sol_id="int", minor="MinorSolution")
    # from the code: every copy has a minor allele assigned (assert a.minor), the diplotype is set
    requires(all(a.major in gene.alleles and a.minor and a.minor in gene.alleles[a.major].minors for a in minor.solution))
    requires(hasattr(minor, "diplotype"), sameobj(minor.major_solution.cn_solution.gene, gene))
    requires(f.getvalue() == "")
    ensures(all(len(r) >= 13 for r in dec_rows(f.getvalue())), label="dec-row-shape")
    ensures(dec_rows_exact(gene, minor, dec_rows(f.getvalue())), label="dec-rows-exact")
    ensures(dec_empty_ok(gene, minor, dec_rows(f.getvalue())), label="dec-empty-row")
    ensures(dec_fields_ok(gene, coverage, minor, dec_rows(f.getvalue())), label="dec-fields")
    ensures(dec_columns_ok(sample, gene, sol_id, minor, dec_rows(f.getvalue())), label="dec-solution-columns")
    # C14: "No ... output writer modifies the loaded gene database or the sample evidence"
    modifies(f)


# =========================================================================== C12: write_vcf

def vcf_parse(text):
    """{'columns': header fields, 'records': [{'pos', 'id', 'ref', 'alt', 'format', 'samples': [fields or None]}]}
    A sample field that does not split into exactly one value per FORMAT key is None (does not parse back)."""
    lines = [ln for ln in text.split("\n") if ln != ""]
    head = [ln.split("\t") for ln in lines if ln.startswith("#CHROM")]
    recs = [ln.split("\t") for ln in lines if not ln.startswith("#")]
    return {"columns": head[0] if len(head) == 1 else [],
            "records": [{"chrom": r[0], "pos": int(r[1]), "id": r[2], "ref": r[3], "alt": r[4], "format": r[8].split(":"),
                         "samples": [dict(zip(r[8].split(":"), s.split(":"))) if len(s.split(":")) == len(r[8].split(":")) else None
                                     for s in r[9:]]} for r in recs]}


def vcf_list(s, sep):
    return [] if s == "" else s.split(sep)


def vcf_nuc(s):
    return len(s) > 0 and all(c in "ACGTN" for c in s)


def vcf_kind(op):
    import re
    return ("sub" if re.fullmatch(r"[ACGTN]>[ACGTN]", op) else
            "ins" if re.fullmatch(r"ins[ACGTN]+", op) else
            "del" if re.fullmatch(r"del[ACGTN]+", op) else "complex")


def vcf_spells(op, ref, alt):
    """C12: 'REF/ALT spell the variant against the reference'.  REF and ALT are nucleotide strings;
    X>Y: REF = X, ALT = Y ('.' inside X/Y: an unchanged reference base, equal in REF and ALT);
    insX: ALT is REF with X inserted (REF holds at least the anchor base);
    delX: REF is ALT with X inserted (ALT holds at least the anchor base);
    delXinsY: REF = anchor + X, ALT = anchor + Y (or the anchor base behind both)."""
    if not (vcf_nuc(ref) and vcf_nuc(alt)):
        return False
    if ">" in op:
        x, y = op.split(">")[0], op.split(">")[1]
        if len(x) != len(y):
            return ref == x and alt == y
        return len(ref) == len(x) and len(alt) == len(x) and all(
            (r == a) if cx == "." else (r == cx and a == cy) for cx, cy, r, a in zip(x, y, ref, alt))
    if vcf_kind(op) == "ins":
        return len(alt) == len(ref) + len(op[3:]) and any(alt == ref[:k] + op[3:] + ref[k:] for k in range(len(ref) + 1))
    if vcf_kind(op) == "del":
        return len(ref) == len(alt) + len(op[3:]) and any(ref == alt[:k] + op[3:] + alt[k:] for k in range(len(alt) + 1))
    if op[:3] == "del" and "ins" in op[3:]:
        x, y = op[3:].split("ins")[0], op[3:].split("ins")[1]
        return any((ref == p + x and alt == p + y) or (ref == x + p and alt == y + p) for p in "ACGTN")
    return False


def vcf_tokens(op):
    return op.split(">")[1:] if ">" in op else op[3:].split("ins")


def vcf_slack(op, rec):
    return len(rec["ref"]) + len(rec["alt"]) - sum(len(t) for t in vcf_tokens(op))


def vcf_records_of(parsed, m, variants):
    """Records that describe variant m: at POS = m.pos + 1 (C12: 'positions are one-based'), spelling the
    variant; when no record there spells it (known REF/ALT defects), the record(s) that mention the
    variant's sequence most tightly and do not spell another expected variant of that position."""
    at = [r for r in parsed["records"] if r["pos"] == m.pos + 1]
    strict = [r for r in at if vcf_spells(m.op, r["ref"], r["alt"])]
    loose = [r for r in at if all(t in r["ref"] or t in r["alt"] for t in vcf_tokens(m.op))
             and not any(vcf_spells(v.op, r["ref"], r["alt"]) for v in variants if v.pos == m.pos and v != m)]
    return strict if len(strict) > 0 else [r for r in loose if vcf_slack(m.op, r) == min(vcf_slack(m.op, x) for x in loose)]


def vcf_mentioned(gene, minors):
    """Every variant the solutions speak about (definitions, additions, losses)."""
    return sorted({m for ms in minors for a in ms.solution for m in res_definition(gene, a) | set(a.added) | set(a.missing)})


def vcf_cells(parsed, gene, minors):
    """(variant, solution index, copy index, copy, GT value) for every identified record, parsed sample and copy."""
    ms = vcf_mentioned(gene, minors)
    return [(m, mi, i, a, vcf_list(r["samples"][mi]["GT"], "|")[i])
            for m in ms for r in vcf_records_of(parsed, m, ms) if len(vcf_records_of(parsed, m, ms)) == 1
            for mi, sol in enumerate(minors) if mi < len(r["samples"]) and r["samples"][mi] is not None
            for i, a in enumerate(sol.solution) if i < len(vcf_list(r["samples"][mi]["GT"], "|"))]


def vcf_columns_ok(parsed, minors):
    """C12: 'every sample column describes one solution'."""
    return (len(parsed["columns"]) == 9 + len(minors)
            and all(len(r["samples"]) == len(minors) and r["format"][:1] == ["GT"] for r in parsed["records"]))


def vcf_parses_back(parsed):
    """C12: 'Parsing either file back recovers the reported solutions': every sample field has one value per FORMAT key."""
    return res_none([f"POS {r['pos']} sample {k}: field does not split into {r['format']}"
                     for r in parsed["records"] for k, s in enumerate(r["samples"]) if s is None])


def vcf_record_per_variant(parsed, gene, minors):
    """C12: every variant carried by some copy of some solution has exactly one record, at POS = position + 1."""
    ms = vcf_mentioned(gene, minors)
    return res_none([f"{m.pos}.{m.op}: {len(vcf_records_of(parsed, m, ms))} records at POS {m.pos + 1}"
                     for m in sorted({m for sol in minors for a in sol.solution for m in res_carried(gene, a)})
                     if len(vcf_records_of(parsed, m, ms)) != 1])


def vcf_arity_ok(parsed, minors):
    """One GT / MA / MI entry per allele copy of the column's solution."""
    return res_none([f"POS {r['pos']} solution {mi}: GT={s['GT']!r} MA={s['MA']!r} MI={s['MI']!r} for {len(minors[mi].solution)} copies"
                     for r in parsed["records"] for mi, s in enumerate(r["samples"]) if s is not None and mi < len(minors)
                     if not (len(vcf_list(s["GT"], "|")) == len(vcf_list(s["MA"], ",")) == len(vcf_list(s["MI"], ",")) == len(minors[mi].solution)
                             and all(g in ("0", "1") for g in vcf_list(s["GT"], "|")))])


def vcf_show(m, mi, i, a, gt):
    return (f"variant {m.pos}.{m.op}, solution {mi}, copy {i} (*{a.minor}, added {[str(x) for x in a.added]}, "
            f"missing {[str(x) for x in a.missing]}): GT={gt}")


def vcf_gt_carried_ok(parsed, gene, minors):
    """C12: 'the genotype of allele copy i at a variant is 1 ... if that copy is reported to carry the variant in that solution'."""
    return res_none([vcf_show(m, mi, i, a, gt) + " but the copy carries the variant"
                     for m, mi, i, a, gt in vcf_cells(parsed, gene, minors) if m in res_carried(gene, a) and gt != "1"])


def vcf_gt_per_solution_ok(parsed, gene, minors):
    """C12: '... is 1 EXACTLY if that copy is reported to carry the variant IN THAT SOLUTION': a copy whose
    definition and additions (in this solution) do not contain the variant has genotype 0."""
    return res_none([vcf_show(m, mi, i, a, gt) + " but neither the definition nor the additions of this copy contain it"
                     for m, mi, i, a, gt in vcf_cells(parsed, gene, minors)
                     if m not in (res_definition(gene, a) | set(a.added)) and gt != "0"])


def vcf_missing_ok(parsed, gene, minors):
    """C12: '(definition plus additions MINUS LOSSES)': a copy that lost the variant has genotype 0."""
    return res_none([vcf_show(m, mi, i, a, gt) + " but the copy lost the variant"
                     for m, mi, i, a, gt in vcf_cells(parsed, gene, minors)
                     if m in (res_definition(gene, a) | set(a.added)) and m in set(a.missing) and gt != "0"])


def vcf_ma_mi_ok(parsed, minors):
    """C12: 'the MA/MI fields name exactly the carrying copies': copy i is named (*major / *minor) exactly
    when its genotype is 1, '-' otherwise (with the GT clauses: exactly the carrying copies)."""
    return res_none([f"POS {r['pos']} solution {mi} copy {i}: GT={g} MA={ma} MI={mn} for *{a.major} / *{a.minor}"
                     for r in parsed["records"] for mi, s in enumerate(r["samples"]) if s is not None and mi < len(minors)
                     for i, (a, g, ma, mn) in enumerate(zip(minors[mi].solution, vcf_list(s["GT"], "|"), vcf_list(s["MA"], ","), vcf_list(s["MI"], ",")))
                     if [ma, mn] != (["*" + str(a.major), "*" + str(a.minor)] if g == "1" else ["-", "-"])])


def vcf_ref_alt_ok(parsed, gene, minors, kinds):
    """C12: 'REF/ALT spell the variant against the reference' for the variants of the given kinds."""
    ms = vcf_mentioned(gene, minors)
    return res_none([f"{m.pos}.{m.op}: REF={r['ref']!r} ALT={r['alt']!r}"
                     for m in ms if vcf_kind(m.op) in kinds
                     for r in vcf_records_of(parsed, m, ms) if not vcf_spells(m.op, r["ref"], r["alt"])])


@contract("aldy.diplotype.write_vcf", symbolic=False)
def _(sample, gene, coverage, minors, f):
    types(sample="str", gene="Gene", coverage="Coverage", minors="List[MinorSolution]")
    requires(len(minors) >= 1)
    requires(all(a.major in gene.alleles and a.minor and a.minor in gene.alleles[a.major].minors for ms in minors for a in ms.solution))
    requires(all(hasattr(ms, "diplotype") and sameobj(ms.major_solution.cn_solution.gene, gene) for ms in minors))
    requires(f.getvalue() == "")
    # C12: "In the VCF output every sample column describes one solution"
    ensures(vcf_columns_ok(vcf_parse(f.getvalue()), minors), label="vcf-sample-columns")
    # C12: "Parsing either file back recovers the reported solutions"
    ensures(vcf_parses_back(vcf_parse(f.getvalue())), label="vcf-parses-back")
    # C12: every carried variant is recorded once; "positions are one-based"
    ensures(vcf_record_per_variant(vcf_parse(f.getvalue()), gene, minors), label="vcf-record-per-variant")
    ensures(vcf_arity_ok(vcf_parse(f.getvalue()), minors), label="vcf-gt-arity")
    # C12: "the genotype of allele copy i at a variant is 1 exactly if that copy is reported to carry the variant in
    # that solution" (carried = definition + additions - losses), split into three disjoint obligations:
    #   carried                                  -> 1   (vcf-gt-carried)
    #   not in definition + additions            -> 0   (vcf-gt-per-solution)   KNOWN FINDING: shared genotype table
    #   in definition + additions, but lost      -> 0   (vcf-missing)           KNOWN FINDING: `missing` ignored
    ensures(vcf_gt_carried_ok(vcf_parse(f.getvalue()), gene, minors), label="vcf-gt-carried")
    ensures(vcf_gt_per_solution_ok(vcf_parse(f.getvalue()), gene, minors), label="vcf-gt-per-solution")
    ensures(vcf_missing_ok(vcf_parse(f.getvalue()), gene, minors), label="vcf-missing")
    # C12: "the MA/MI fields name exactly the carrying copies"
    ensures(vcf_ma_mi_ok(vcf_parse(f.getvalue()), minors), label="vcf-ma-mi")
    # C12: "REF/ALT spell the variant against the reference"
    ensures(vcf_ref_alt_ok(vcf_parse(f.getvalue()), gene, minors, ["sub"]), label="vcf-ref-alt-sub")
    ensures(vcf_ref_alt_ok(vcf_parse(f.getvalue()), gene, minors, ["ins", "del"]), label="vcf-ref-alt-indel")    # KNOWN FINDING
    ensures(vcf_ref_alt_ok(vcf_parse(f.getvalue()), gene, minors, ["complex"]), label="vcf-ref-alt-complex")     # finding: MNP / delins
    # C14: "No ... output writer modifies the loaded gene database or the sample evidence"
    modifies(f)
