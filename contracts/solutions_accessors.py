# Contracts for the accessors of aldy/solutions.py (result layer): frames for C14, names for C11.
#
# NATIVE ONLY: every contract here is marked symbolic=False; the spec functions are ordinary Python
# (statements allowed) and are executed by /verif/replay/native.py on objects built from real genes
# (hooks in /verif/replay/inputs_result.py, factories in /verif/replay/factories_result.py).
#
# C14: "No query, accessor, solver stage or output writer modifies the loaded gene database or the
#       sample evidence: after any sequence of such calls the catalogue and coverage compare equal to
#       a fresh load."   -> modifies() on every accessor (the gene database is reachable from `self`).


# --------------------------------------------------------------------------- shared result-layer vocabulary

def res_fail(witnesses):
    """Report the witnesses of a false clause in the violation detail (the checker prints the message)."""
    raise AssertionError("witnesses: " + "; ".join(str(w) for w in witnesses[:4])
                         + (f" ... ({len(witnesses)} in total)" if len(witnesses) > 4 else ""))


def res_none(witnesses):
    """True when there is no witness against the clause."""
    return True if len(witnesses) == 0 else res_fail(witnesses)


def res_definition(gene, sa):
    """Variants of the definition of a called allele: the functional variants of its major allele and
    the neutral variants of its minor allele (when a minor allele is assigned)."""
    return set(gene.alleles[sa.major].func_muts) | (
        set(gene.alleles[sa.major].minors[sa.minor].neutral_muts) if sa.minor else set())


def res_carried(gene, sa):
    """C12/C14: the variants a copy is reported to carry: 'definition plus additions minus losses'."""
    return (res_definition(gene, sa) | set(sa.added)) - set(sa.missing)


def res_effect(gene, m):
    """Catalogued effect of a variant (None: not functional / not catalogued)."""
    return gene.mutations[m.pos, m.op][0] if (m.pos, m.op) in gene.mutations else None


def res_dbsnp(gene, m):
    """Catalogued dbSNP id of a variant ('-' when it has none)."""
    return gene.mutations[m.pos, m.op][1] if (m.pos, m.op) in gene.mutations else "-"


def res_label(gene, m):
    """How a variant is named next to an allele: its dbSNP id, else one-based position and change."""
    return res_dbsnp(gene, m) if res_dbsnp(gene, m) != "-" else f"{m.pos + 1}.{m.op}"


def res_deletion_allele(gene):
    """The whole-gene-deletion allele of a gene (None when the gene has none)."""
    return next((a for a in gene.cn_configs if gene.cn_configs[a].kind == CNConfigType.DELETION), None)


def res_core_added(gene, sa):
    """C11 'novel core variants': the functional variants added to a called allele, in order."""
    return [res_label(gene, m) for m in sorted(sa.added) if res_effect(gene, m) is not None]


def res_name_ok(gene, sa, plain, shown):
    """C11: 'the names shown are the called major alleles (fusion suffix removed, novel core variants
    appended)'.  Plain format: NAME+var+var.  Display format (profile.display_format): NAME alone, or
    (NAME ^x.var ^y.var) where each appended item ends with the variant's label."""
    base = str(sa.major).split("#")[0]
    core = res_core_added(gene, sa)
    parts = shown[1:-1].split(" ^")
    return (shown == "+".join([base] + core) if plain
            else shown == base if len(core) == 0
            else (shown[:1] == "(" and shown[-1:] == ")" and len(parts) == len(core) + 1 and parts[0] == base
                  and all(parts[k + 1] == core[k] or parts[k + 1].endswith("." + core[k]) for k in range(len(core)))))


def res_plain(ms):
    return ms.profile is None or not ms.profile.display_format


# --------------------------------------------------------------------------- SolvedAllele

@contract("aldy.solutions.SolvedAllele.mutations")
def _(self):
    requires(self.major in self.gene.alleles)
    requires(not self.minor or self.minor in self.gene.alleles[self.major].minors)
    # C14 (allele variant accessor) / C12: result == (func_muts of the major | neutral_muts of the minor | added) - missing
    ensures(result == res_carried(self.gene, self), label="value")
    # the caller owns the result: it must not be the catalogue's own set (a later update would rewrite the database)
    ensures(not sameobj(result, self.gene.alleles[self.major].func_muts), label="not-the-catalogue-set")
    # C14: "No query, accessor ... modifies the loaded gene database"
    modifies()


@contract("aldy.solutions.SolvedAllele.major_repr", symbolic=False)
def _(self):
    requires(self.major in self.gene.alleles)
    # C11 naming (plain format): major allele, functional added variants appended
    core = res_core_added(self.gene, self)
    ensures(result == ("*(" + " +".join([str(self.major)] + core) + ")" if len(core) > 0 else "*" + str(self.major)), label="names")
    modifies()


@contract("aldy.solutions.SolvedAllele.__str__", symbolic=False)
def _(self):
    requires(self.major in self.gene.alleles)
    ensures(typed(result, "str"), label="text")
    modifies()


# --------------------------------------------------------------------------- CNSolution / MajorSolution

@contract("aldy.solutions.CNSolution._solution_nice", symbolic=False)
def _(self):
    ensures(typed(result, "str"), label="text")
    # every configuration of the structure is named with its multiplicity
    ensures(all(f"{self.solution[c]}x*{c}" in result.split(",") for c in self.solution), label="lists-structure")
    modifies()


@contract("aldy.solutions.CNSolution.__str__", symbolic=False)
def _(self):
    ensures(typed(result, "str"), label="text")
    modifies()


@contract("aldy.solutions.MajorSolution._solution_nice", symbolic=False)
def _(self):
    ensures(typed(result, "str"), label="text")
    modifies()


# --------------------------------------------------------------------------- MinorSolution

@contract("aldy.solutions.MinorSolution._solution_nice", symbolic=False)
def _(self):
    ensures(typed(result, "str"), label="text")
    modifies()


@contract("aldy.solutions.MinorSolution.get_major_name", symbolic=False)
def _(self, i):
    types(i="int")
    requires(-1 <= i and i < len(self.solution))
    gene = self.major_solution.cn_solution.gene
    requires(i == -1 or self.solution[i].major in gene.alleles)
    if i == -1:
        # C11: "the whole-gene-deletion allele is shown ... for the missing haplotypes" (-1 is the placeholder)
        ensures(result == res_deletion_allele(gene), label="deletion-name")
    else:
        # C11: "the names shown are the called major alleles (fusion suffix removed, novel core variants appended)"
        ensures(res_name_ok(gene, self.solution[i], res_plain(self), result), label="names")
    modifies()


@contract("aldy.solutions.MinorSolution.get_minor_name", symbolic=False)
def _(self, i, legacy):
    types(i="int", legacy="bool")
    requires(-1 <= i and i < len(self.solution))
    gene = self.major_solution.cn_solution.gene
    requires(i == -1 or (self.solution[i].major in gene.alleles and self.solution[i].minor in gene.alleles[self.solution[i].major].minors))
    if i == -1:
        ensures(result == res_deletion_allele(gene), label="deletion-name")
    else:
        sa = self.solution[i]
        shown = (gene.alleles[sa.major].minors[sa.minor].alt_name or sa.minor) if legacy else sa.minor
        # minor allele name, then every added (+) and lost (-) variant
        ensures(result == " ".join([shown] + ["+" + res_label(gene, m) for m in sorted(sa.added)]
                                   + ["-" + res_label(gene, m) for m in sorted(sa.missing)]), label="names")
    modifies()


@contract("aldy.solutions.MinorSolution.get_major_diplotype", symbolic=False)
def _(self):
    requires(hasattr(self, "diplotype"))
    requires(all(-1 <= i and i < len(self.solution) for h in self.diplotype for i in h))
    # C11 "The printed diplotype ...": haplotypes joined by " / ", alleles by " + ", each allele *NAME;
    # empty haplotypes are not printed
    ensures(result == " / ".join(" + ".join("*" + str(self.get_major_name(i)) for i in h) for h in self.diplotype if len(h) > 0),
            label="rendering")
    modifies()


@contract("aldy.solutions.MinorSolution.get_mutation_coverages", symbolic=False)
def _(self, coverage):
    types(coverage="Coverage")
    gene = self.major_solution.cn_solution.gene
    requires(all(sa.major in gene.alleles and sa.minor in gene.alleles[sa.major].minors for sa in self.solution))
    ensures(typed(result, "list"), label="shape")
    # C14: neither the gene database, nor the solution, nor the sample evidence (coverage) changes
    modifies()
