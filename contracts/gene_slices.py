# C13 / C08: the strand conversion of one catalogued variant in Gene._init_alleles.process_mutation (slice of the nested
# function, config.SLICES): where a variant written on the RefSeq strand lands on the genome strand.


@contract("aldy.common.rev_comp", assumed=True, pure=True)
def _(seq):
    types(seq="str")
    returns("str")
    # reverse complement: an abstract function of the sequence that preserves its length
    ensures(result == opaque("rev_comp", "str", seq), label="function")
    ensures(len(result) == len(seq), label="length")


@contract("aldy.gene.Gene._init_alleles.process_mutation@strand-conversion", native=False)
def _(self, pos, op):
    types(self="Gene", pos="int", op="str")
    returns("Tuple[int, str]")
    # well-formed change strings of the database: at most one '>' and, in a deletion, at most one 'ins'
    requires(">" not in op or ">" not in op[op.index(">") + 1:])
    requires("ins" not in op[3:] or "ins" not in op[3:][op[3:].index("ins") + 3:])
    # C13 "the same sample evidence ... against either strand yields the same ... variants": on the reverse strand a
    # variant that spans several RefSeq bases is anchored at its LAST RefSeq base (the first one on the genome strand), an
    # insertion one base further; on the forward strand nothing moves. (1-based position in, 0-based out.)
    ensures(implies(self.strand >= 0, result[0] == pos - 1 and result[1] == op), label="forward-strand-unchanged")
    ensures(implies(self.strand < 0 and op[:3] == "ins" and ">" not in op, result[0] == pos and result[1] == "ins" + opaque("rev_comp", "str", op[3:])),
            label="reverse/insertion")
    ensures(implies(self.strand < 0 and op[:3] == "del" and ">" not in op and "ins" not in op[3:],
                    result[0] == pos + len(op) - 4 - 1 and result[1] == "del" + opaque("rev_comp", "str", op[3:])),
            label="reverse/deletion")
    ensures(implies(self.strand < 0 and ">" in op,
                    result[0] == pos + op.index(">") - 1 - 1
                    and result[1] == opaque("rev_comp", "str", op[:op.index(">")]) + ">" + opaque("rev_comp", "str", op[op.index(">") + 1:])),
            label="reverse/substitution")
    modifies()


# C09 / C03: the statement of the loader that zeroes the copy number of empty regions in every configuration (slice).

@contract("aldy.gene.Gene._init_alleles@empty-regions", native=False)
def _(self):
    types(self="Gene")
    requires(forall(lambda c=str, g=int, r=str: implies(c in self.cn_configs and 0 <= g and g < len(self.cn_configs[c].cn) and r in self.cn_configs[c].cn[g],
                                                        g < len(self.regions) and r in self.regions[g])))
    # a region of zero length (e.g. CYP2D6 pce) can never be covered: its copy number is 0 in every configuration;
    # every other entry of every configuration keeps its value
    ensures(forall(lambda c=str, g=int, r=str: implies(
        c in self.cn_configs and 0 <= g and g < len(self.cn_configs[c].cn) and r in self.cn_configs[c].cn[g],
        self.cn_configs[c].cn[g][r] == (0 if self.regions[g][r].end - self.regions[g][r].start <= 0 else old(self.cn_configs[c].cn[g][r])))),
        label="empty-regions-have-no-copies")
    modifies(self.cn_configs)
