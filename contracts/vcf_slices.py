# C16: the bookkeeping _load_vcf does for ONE alternate/reference copy of one VCF record (slice inside its loops,
# config.SLICES): which pseudo-observations are added and removed.


@contract("aldy.sam.Sample._load_vcf@genotype-copy", native=False)
def _(gt, hgvs, muts, norm, dump_arr, read):
    types(gt="int", hgvs="List[Tuple[int, Optional[str]]]",
          muts="DefaultDict[Tuple[int, str], List[Tuple[float, float]], 'list']",
          norm="Dict[int, List[Tuple[float, float]]]", dump_arr="Dict[int, str]", read="VariantRecord")
    requires(0 <= gt and gt < len(hgvs))
    requires(implies(hgvs[gt][1] is not None and hgvs[gt][1] != "_", hgvs[gt][0] in norm))
    variant = hgvs[gt][1] is not None and hgvs[gt][1] != "_"
    # C16: "every alternate copy of a catalogued variant adds 10 observations to that variant and removes 10 reference
    # observations at ITS site" (k copies: k times); a reference copy or a record of another shape changes nothing
    ensures(implies(variant, len(muts[(hgvs[gt][0], hgvs[gt][1])]) == old(len(muts[(hgvs[gt][0], hgvs[gt][1])]) if (hgvs[gt][0], hgvs[gt][1]) in muts else 0) + 10),
            label="ten-observations-added")
    ensures(implies(variant and old(len(norm[hgvs[gt][0]])) >= 10, len(norm[hgvs[gt][0]]) == old(len(norm[hgvs[gt][0]])) - 10),
            label="ten-reference-observations-removed-at-the-variant-site")
    ensures(forall(lambda p=int: implies(p in old(norm) and not (variant and p == hgvs[gt][0]), p in norm and norm[p] == old(norm[p]))),
            label="other-sites-untouched")
    ensures(implies(not variant, forall(lambda p=int, o=str: ((p, o) in muts) == ((p, o) in old(muts)))), label="reference-copy-adds-nothing")
    modifies(muts, norm, dump_arr)
