# Contracts for aldy/profile.py

BOOL_PARAMS = ["phase", "sam_long_reads", "male", "display_format", "debug_novel", "indelpost"]
INT_PARAMS = ["min_quality", "min_mapq", "cn_max", "minor_phase_vars", "max_minor_solutions", "vcf_sample_idx"]
FLOAT_PARAMS = ["gap", "neutral_value", "threshold", "min_coverage", "cn_pce_penalty", "cn_diff", "cn_fit",
                "cn_parsimony", "cn_fusion_left", "cn_fusion_right", "major_novel", "minor_miss", "minor_add",
                "minor_phase", "min_avg_coverage"]
STR_PARAMS = ["sam_mappy_preset", "debug_probe"]


def given(kwargs, f):
    """The caller supplied a value for parameter f."""
    return f in kwargs and kwargs[f] is not None


def bool_true(v):
    """C18: booleans accept true in any letter case, 1 and the real boolean."""
    return ((typed(v, "str") and (v.lower() == "true" or v.lower() == "1"))
            or ((typed(v, "bool") or typed(v, "int") or typed(v, "float")) and v == 1))


def bool_false(v):
    return ((typed(v, "str") and (v.lower() == "false" or v.lower() == "0"))
            or ((typed(v, "bool") or typed(v, "int") or typed(v, "float")) and v == 0))


def int_ok(v):
    """numbers are parsed as numbers; malformed values are rejected"""
    return (typed(v, "str") and opaque("parses_int", "bool", v)) or typed(v, "bool") or typed(v, "int") or typed(v, "float")


def float_ok(v):
    return (typed(v, "str") and opaque("parses_float", "bool", v)) or typed(v, "bool") or typed(v, "int") or typed(v, "float")


def malformed(kwargs):
    return (any(given(kwargs, f) and not (bool_true(kwargs[f]) or bool_false(kwargs[f])) for f in BOOL_PARAMS)
            or any(given(kwargs, f) and not int_ok(kwargs[f]) for f in INT_PARAMS)
            or any(given(kwargs, f) and not float_ok(kwargs[f]) for f in FLOAT_PARAMS))


@contract("aldy.profile.Profile.update")
def _(self, kwargs):
    types(kwargs="Dict[str, Union[None, bool, int, float, str]]")
    returns("Dict[str, Union[bool, int, float, str]]")
    # attributes that are not model parameters (surfaced from `n in self.__dict__`): a caller must not
    # pass them; cn_solution is assigned verbatim and is covered by the frame obligation of its own route
    requires("name" not in kwargs, "cn_region" not in kwargs, "data" not in kwargs, "cn_solution" not in kwargs)
    raises(AldyException, when=malformed(kwargs))
    for f in BOOL_PARAMS:
        ensures(implies(given(kwargs, f) and bool_true(kwargs[f]), getattr(self, f) == True), label="bool-true/" + f)
        ensures(implies(given(kwargs, f) and bool_false(kwargs[f]), getattr(self, f) == False), label="bool-false/" + f)
    for f in INT_PARAMS:
        ensures(implies(given(kwargs, f), getattr(self, f) == int(kwargs[f])), label="int/" + f)
    for f in FLOAT_PARAMS:
        ensures(implies(given(kwargs, f), getattr(self, f) == float(kwargs[f])), label="float/" + f)
    for f in STR_PARAMS:
        ensures(implies(given(kwargs, f) and typed(kwargs[f], "str"), getattr(self, f) == kwargs[f]), label="str/" + f)
    for f in BOOL_PARAMS + INT_PARAMS + FLOAT_PARAMS + STR_PARAMS:
        # parameters that were not given (or given as None) keep their value
        ensures(implies(not given(kwargs, f), getattr(self, f) == old(getattr(self, f))), label="untouched/" + f)
        # the returned dictionary lists exactly the parameters that were set, with their new values
        ensures((f in result) == given(kwargs, f), label="reported/" + f)
    # attributes that are not model parameters are never touched
    ensures(self.name == old(self.name), label="untouched/name")
    modifies(self)


# C18: "... all other parameters keep their documented defaults": the constructor

DEFAULT_BOOL = [("phase", True), ("sam_long_reads", False), ("male", False), ("display_format", False), ("debug_novel", False), ("indelpost", True)]
DEFAULT_INT = [("min_quality", 10), ("min_mapq", 10), ("cn_max", 20), ("minor_phase_vars", 3000), ("max_minor_solutions", 1), ("vcf_sample_idx", 0)]
DEFAULT_FLOAT = [("gap", 0.0), ("neutral_value", 0.0), ("threshold", 0.5), ("min_coverage", 2.0), ("cn_pce_penalty", 2.0), ("cn_diff", 10.0),
                 ("cn_fit", 1.0), ("cn_parsimony", 0.5), ("cn_fusion_left", 0.5), ("cn_fusion_right", 0.25), ("major_novel", 21.0),
                 ("minor_miss", 1.5), ("minor_add", 1.0), ("minor_phase", 0.4), ("min_avg_coverage", 2.0)]
DEFAULT_STR = [("sam_mappy_preset", "map-hifi"), ("debug_probe", "")]


@contract("aldy.profile.Profile.__init__", native=False)
def _(self, name, cn_region, data, kwargs):
    types(name="str", cn_region="Optional[GRange]", data="Optional[Dict[str, Dict[str, List[float]]]]",
          kwargs="Dict[str, Union[None, bool, int, float, str]]")
    requires("name" not in kwargs, "cn_region" not in kwargs, "data" not in kwargs, "cn_solution" not in kwargs)
    raises(AldyException, when=malformed(kwargs))
    # C18: a parameter that is not given keeps its documented default (the documented values, transcribed from the
    # parameter documentation of aldy/profile.py) ...
    for f, dv in DEFAULT_BOOL + DEFAULT_INT + DEFAULT_FLOAT + DEFAULT_STR:
        ensures(implies(not given(kwargs, f), getattr(self, f) == dv), label="default/" + f)
    # ... and a given one takes the given value with the documented type (as in Profile.update)
    for f in BOOL_PARAMS:
        ensures(implies(given(kwargs, f) and bool_true(kwargs[f]), getattr(self, f) == True), label="bool-true/" + f)
        ensures(implies(given(kwargs, f) and bool_false(kwargs[f]), getattr(self, f) == False), label="bool-false/" + f)
    for f in INT_PARAMS:
        ensures(implies(given(kwargs, f), getattr(self, f) == int(kwargs[f])), label="int/" + f)
    for f in FLOAT_PARAMS:
        ensures(implies(given(kwargs, f), getattr(self, f) == float(kwargs[f])), label="float/" + f)
    ensures(self.name == name, label="name")
    modifies(self)
