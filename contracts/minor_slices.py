# C04: the rule blocks of solve_minor_model as mechanically extracted slices (config.SLICES). The whole function keys
# its tables by (SolvedAllele, copy) - dataclass objects compared structurally - which the heap model cannot express; in
# a slice the tables are PARAMETERS, and their keys are typed by the value record AlleleId = (major, minor) (candidates
# have empty added/missing lists: precondition of the stage, checked natively by solve_minor_model#results).
# Verified: for arbitrary tables VA / VKEEP / VNEW of that shape the slice emits exactly the specified constraint
# families - no rule is dropped, weakened or applied to the wrong variable.


@contract("aldy.minor.solve_minor_model@rules-1-3", native=False)
def _(model, gene, alleles, VA, VKEEP, VNEW):
    types(model="CBC", gene="Gene",
          alleles="Dict[Tuple[AlleleId, int], Set[Mutation]]",
          VA="Dict[Tuple[AlleleId, int], LinVar]",
          VKEEP="Dict[Tuple[AlleleId, int], Dict[Mutation, Tuple[LinVar, LinVar]]]",
          VNEW="Dict[Tuple[AlleleId, int], Dict[Mutation, Tuple[LinVar, LinVar]]]")
    # shapes established by the construction of the tables earlier in the function
    requires(forall(lambda a="Tuple[AlleleId, int]": implies(a in VKEEP, a in VA and a in alleles)))
    requires(forall(lambda a="Tuple[AlleleId, int]": implies(a in VNEW, a in VA)))
    requires(forall(lambda a="Tuple[AlleleId, int]": implies(a in alleles, a in VKEEP)))
    requires(forall(lambda a="Tuple[AlleleId, int]", m=Mutation: implies(a in alleles and m in alleles[a], m in VKEEP[a])))
    requires(gene_wf(gene))
    # candidates are catalogue alleles (precondition of the stage) and Gene invariants (loader)
    requires(forall(lambda a="Tuple[AlleleId, int]": implies(a in VKEEP, a[0].major in gene.alleles
                                                             and gene.alleles[a[0].major].cn_config in gene.cn_configs)))
    requires(forall(lambda c=str, g=int, r=str: implies(c in gene.cn_configs and 0 <= g and g < len(gene.regions) and r in gene.regions[g],
                                                        g < len(gene.cn_configs[c].cn) and r in gene.cn_configs[c].cn[g])))
    # rule 1 - C04 "a variant is only added to / kept on an allele that is present in the solution"
    for a in VKEEP:
        for m in VKEEP[a]:
            family("CVK_{}_{}_{}_{}_{}", VKEEP[a][m][0] <= VA[a])
    for a in VNEW:
        for m in VNEW[a]:
            family("CVN_{}_{}_{}_{}_{}", VNEW[a][m][0] <= VA[a])
    # rule 2 - C04 "core variants of a called allele are never dropped"
    for a in alleles:
        for m in alleles[a]:
            if gene.is_functional(m):
                family("CFUNC_{}_{}_{}_{}_{}", VKEEP[a][m][0] >= VA[a])
    # rule 3 - C04 "... only added to an allele that has gene copies at that position" (kept variants likewise)
    for a in VKEEP:
        for m in VKEEP[a]:
            if not gene.has_coverage(a[0].major, m.pos):
                family("CZERO_{}_{}_{}_{}_{}", VKEEP[a][m][0] <= 0)
    modifies(model)


@contract("aldy.minor.solve_minor_model@rule-4", native=False)
def _(model, constraints, alleles, VKEEP, VNEW):
    types(model="CBC", constraints="Dict[Mutation, LinExpr]",
          alleles="Dict[Tuple[AlleleId, int], Set[Mutation]]",
          VKEEP="Dict[Tuple[AlleleId, int], Dict[Mutation, Tuple[LinVar, LinVar]]]",
          VNEW="Dict[Tuple[AlleleId, int], Dict[Mutation, Tuple[LinVar, LinVar]]]")
    requires(forall(lambda a="Tuple[AlleleId, int]": implies(a in alleles, a in VKEEP and a in VNEW)))
    # rule 4 - C04 "no allele carries two variants at one position": per considered position and candidate copy, at most
    # one ADDED variant, and at most one variant among the kept and the added ones
    for pos in {m.pos for m in constraints}:
        for a in alleles:
            if len([m for m in VNEW[a] if m.pos == pos]) > 1:
                family("CSINGLE_{}_{}_{}_{}", 0.0 + sum(VNEW[a][m][1] for m in VNEW[a] if m.pos == pos) <= 1)
            if len([m for m in VNEW[a] if m.pos == pos]) + len([m for m in VKEEP[a] if m.pos == pos]) > 1:
                family("CSINGLEFULL_{}_{}_{}_{}", 0.0 + sum(VKEEP[a][m][1] for m in VKEEP[a] if m.pos == pos)
                       + sum(VNEW[a][m][1] for m in VNEW[a] if m.pos == pos) <= 1)
    modifies(model)


@contract("aldy.minor.solve_minor_model@rule-5", native=False)
def _(model, mutations, alleles, VKEEP, VNEW, major_sol, coverage):
    types(model="CBC", mutations="Set[Mutation]",
          alleles="Dict[Tuple[AlleleId, int], Set[Mutation]]",
          VKEEP="Dict[Tuple[AlleleId, int], Dict[Mutation, Tuple[LinVar, LinVar]]]",
          VNEW="Dict[Tuple[AlleleId, int], Dict[Mutation, Tuple[LinVar, LinVar]]]",
          major_sol="MajorSolution", coverage="Coverage")
    requires(forall(lambda a="Tuple[AlleleId, int]": implies(a in alleles, a in VKEEP and a in VNEW)))
    requires(cn_wf(major_sol.cn_solution))
    # rule 5 - C04 "every variant an allele is reported to carry has supporting reads" (no carrier without copies or
    # reads; at most as many carriers as reads) and "every considered variant that has supporting reads is carried by at
    # least one allele"
    for m in mutations:
        carriers = (0.0 + sum(VKEEP[a][m][1] for a in alleles if m in VKEEP[a])
                    + sum(VNEW[a][m][1] for a in alleles if m in VNEW[a]))
        if copies_at(major_sol.cn_solution, m.pos) == 0 or support(coverage, m) == 0:
            family("CNOCOV_{}_{}", carriers <= 0)
        else:
            family("CMAXCOV_{}_{}", carriers <= support(coverage, m))
            family("CMINONE_{}_{}", carriers >= 1)
    modifies(model)


def observed_copies_minor(coverage, cn_solution, m):
    """C04 'fit error': reads of a variant (or of the reference allele at its site) in units of one gene copy's depth"""
    return (support(coverage, m) / single_depth(coverage, cn_solution, m.pos, depth_at(coverage, m))
            if single_depth(coverage, cn_solution, m.pos, depth_at(coverage, m)) > 0 else 0)


@contract("aldy.minor.solve_minor_model@fit-equations", native=False)
def _(model, constraints, VERR, coverage, major_sol, debug_info):
    types(model="CBC", constraints="Dict[Mutation, LinExpr]", VERR="Dict[Mutation, LinVar]", coverage="Coverage",
          major_sol="MajorSolution", debug_info="Debug")
    requires(cn_wf(major_sol.cn_solution))
    requires(forall(lambda m=Mutation: implies(m in constraints, m in VERR)))
    # C04 "fit error": for every considered variant and every reference site: called carriers + error = observed copies
    for m in constraints:
        family("CCOV_{}_{}", constraints[m] + VERR[m] >= observed_copies_minor(coverage, major_sol.cn_solution, m))
        family("CCOV_{}_{}", constraints[m] + VERR[m] <= observed_copies_minor(coverage, major_sol.cn_solution, m))
    modifies(model)


@contract("aldy.minor.solve_minor_model@copy-order", native=False)
def _(model, alleles, VA):
    types(model="CBC", alleles="Dict[Tuple[AlleleId, int], Set[Mutation]]", VA="Dict[Tuple[AlleleId, int], LinVar]")
    requires(forall(lambda a="Tuple[AlleleId, int]": implies(a in alleles, a in VA)))
    requires(forall(lambda a=AlleleId, c=int: implies((a, c) in alleles and c > 0, (a, c - 1) in alleles)))
    # copies of one candidate are used in index order (symmetry breaking; lemma L-ord)
    for a in alleles:
        if a[1] > 0:
            family("CORD_{}_{}", VA[a] <= VA[(a[0], a[1] - 1)])
    modifies(model)


@contract("aldy.minor.solve_minor_model@allele-counts", native=False)
def _(model, major_sol, VA):
    types(model="CBC", major_sol="MajorSolutionK", VA="Dict[Tuple[AlleleId, int], LinVar]")
    # C04 "the refined solution names, for every called major-allele copy, exactly one catalogued minor allele of that
    # same major allele": per called major allele (with its added / missing lists) as many selected candidate copies as
    # the major solution has copies of it, and nothing else is selected (lemma L-sat)
    for sa in major_sol.solution:
        sel = 0.0 + sum(VA[k] for k in VA if k[0].major == sa.major and k[0].added == sa.added and k[0].missing == sa.missing)
        family("CCNT_{}_1", sel <= major_sol.solution[sa])
        family("CCNT_{}_2", sel >= major_sol.solution[sa])
    family("CCNT_OTHER", 0.0 + sum(VA[k] for k in VA) <= sum(major_sol.solution[sa] for sa in major_sol.solution))
    modifies(model)


@contract("aldy.minor.solve_minor_model@carriers", native=False)
def _(model, gene, mutations, alleles, VA, VKEEP, VNEW):
    types(model="CBC", gene="Gene", mutations="Set[Mutation]",
          alleles="Dict[Tuple[AlleleId, int], Set[Mutation]]",
          VA="Dict[Tuple[AlleleId, int], LinVar]",
          VKEEP="Dict[Tuple[AlleleId, int], Dict[Mutation, Tuple[LinVar, LinVar]]]",
          VNEW="Dict[Tuple[AlleleId, int], Dict[Mutation, Tuple[LinVar, LinVar]]]")
    returns("Dict[Mutation, LinExpr]")
    requires(gene_wf(gene))
    requires(forall(lambda c=str, g=int, r=str: implies(c in gene.cn_configs and 0 <= g and g < len(gene.regions) and r in gene.regions[g],
                                                        g < len(gene.cn_configs[c].cn) and r in gene.cn_configs[c].cn[g])))
    requires(forall(lambda a="Tuple[AlleleId, int]": implies(a in alleles, a in VA and a in VKEEP and a in VNEW
                                                             and a[0].major in gene.alleles
                                                             and gene.alleles[a[0].major].cn_config in gene.cn_configs)))
    requires(forall(lambda a="Tuple[AlleleId, int]", m=Mutation: implies(a in alleles and m in alleles[a], m in VKEEP[a])))
    requires(forall(lambda a="Tuple[AlleleId, int]", m=Mutation: implies(
        a in alleles and m in mutations and m not in alleles[a] and gene.has_coverage(a[0].major, m.pos), m in VNEW[a])))
    # the product variables: MUL_K = A * K for kept variants, MUL_N = A * N for added ones (exact by lemma L-prod2)
    for m in mutations:
        for a in alleles:
            if m in alleles[a]:
                model.prod(VKEEP[a][m][1], [VA[a], VKEEP[a][m][0]])      # the families of Gurobi.prod's own contract (C05)
            elif gene.has_coverage(a[0].major, m.pos):
                model.prod(VNEW[a][m][1], [VA[a], VNEW[a][m][0]])
    # C04: the number of called copies that carry a considered variant = kept on the candidates that define it + added
    # to the candidates that have gene copies at its position
    ensures(forall(lambda m=Mutation: (m in result) == (m in mutations)), label="one-equation-per-considered-variant")
    ensures(forall(lambda m=Mutation: implies(m in mutations, result[m] == (
        0.0 + sum(VKEEP[a][m][1] for a in alleles if m in alleles[a])
        + sum(VNEW[a][m][1] for a in alleles if m not in alleles[a] and gene.has_coverage(a[0].major, m.pos))))),
        label="carriers")
    modifies(model)


@contract("aldy.minor.solve_minor_model@addable", native=False)
def _(model, gene, mutations, alleles):
    types(model="CBC", gene="Gene", mutations="Set[Mutation]", alleles="Dict[Tuple[AlleleId, int], Set[Mutation]]")
    returns("Dict[Tuple[AlleleId, int], Dict[Mutation, Tuple[LinVar, LinVar]]]")
    requires(gene_wf(gene))
    requires(forall(lambda c=str, g=int, r=str: implies(c in gene.cn_configs and 0 <= g and g < len(gene.regions) and r in gene.regions[g],
                                                        g < len(gene.cn_configs[c].cn) and r in gene.cn_configs[c].cn[g])))
    requires(forall(lambda a="Tuple[AlleleId, int]": implies(a in alleles, a[0].major in gene.alleles
                                                             and gene.alleles[a[0].major].cn_config in gene.cn_configs)))
    # C04 "a variant is only added to an allele that has gene copies at that position": an 'add' selector exists exactly
    # for the considered variants the candidate does not define and whose position the candidate's structure has copies of
    for a in alleles:
        for m in mutations:
            if gene.has_coverage(a[0].major, m.pos) and m not in alleles[a]:
                newvar(model, "B", None, None, f"N_{m.pos}_{m.op}_{a[0].major}_{a[0].minor}_{a[1]}")
                newvar(model, "B", None, None, f"MUL_N_{m.pos}_{m.op}_{a[0].major}_{a[0].minor}_{a[1]}")
    ensures(forall(lambda a="Tuple[AlleleId, int]": (a in result) == (a in alleles)), label="one-table-per-candidate")
    ensures(forall(lambda a="Tuple[AlleleId, int]", m=Mutation: implies(a in alleles, (m in result[a]) == (
        m in mutations and gene.has_coverage(a[0].major, m.pos) and m not in alleles[a]))), label="addable-iff-copies-and-not-defined")
    modifies(model)


# NOT under symbolic contract: the reference-site block (E_<pos>_REF equations and CONE). The code decides between "the
# candidate keeps its own variant here" and "a variant may be added here" by len(present_muts) == 1 / < 2 on a filtered
# list; relating such list lengths to the uniqueness precondition needs a counting argument over finite sums that the
# back ends do not find (tried; undecided after 80 s). Covered by the bounded native contract only.


@contract("aldy.minor.solve_minor_model@objective-fit-and-miss", native=False)
def _(model, VERR, score, coverage, VKEEP, VA):
    types(model="CBC", VERR="Dict[Mutation, LinVar]", score="Dict[str, int]", coverage="Coverage",
          VKEEP="Dict[Tuple[AlleleId, int], Dict[Mutation, Tuple[LinVar, LinVar]]]",
          VA="Dict[Tuple[AlleleId, int], LinVar]")
    returns("Tuple[LinExpr, LinExpr]")
    requires(forall(lambda a="Tuple[AlleleId, int]": implies(a in VKEEP, a in VA)))
    # C04 "the model objective (fit error + penalties for dropped ... variants ...)": the first two terms.
    # fit error: one |error| variable per equation (families CABSL / CABSR of Gurobi.abssum, exact by lemma L-abs), weighted
    # by the per-equation weight table
    for m in VERR:
        a_ = newvar(model, None, 0, lp_inf(), f"ABS_{lp_name(VERR[m])}")
        family("CABSL_{}", a_ + VERR[m] >= 0)
        family("CABSR_{}", a_ - VERR[m] >= 0)
    ensures(result[0] == 0.0 + sum((1 if lp_name(VERR[m]) not in score else score[lp_name(VERR[m])])
                                   * newvar_at("ABS_{}", lp_name(VERR[m])) for m in VERR), label="fit-error-term")
    # penalty for dropped variants: minor_miss for every defined variant of a SELECTED candidate that is not kept
    # (per candidate: #defined * A - sum of the products A*K)
    ensures(result[1] == coverage.profile.minor_miss * (0.0 + sum(len(VKEEP[a]) * VA[a] for a in VKEEP))
            - coverage.profile.minor_miss * (0.0 + sum(VKEEP[a][m][1] for a in VKEEP for m in VKEEP[a])),
            label="miss-penalty-term")
    modifies(model)


@contract("aldy.minor.solve_minor_model@objective-assembly", native=False)
def _(model, objective, o_penal, VPHASEERR, coverage):
    types(model="CBC", objective="LinExpr", o_penal="LinExpr", VPHASEERR="List[LinExpr]", coverage="Coverage")
    # C04 "the model objective (fit error + penalties for dropped, added and novel core variants + read-phase
    # disagreement)": the objective handed to the solver is the sum of the three terms, the phase term weighted by
    # minor_phase
    cut_after("aldy.lpinterface.CBC.setObjective")
    lp_setobjective(model, objective + o_penal + coverage.profile.minor_phase * (0.0 + sum(e for e in VPHASEERR)))
    modifies(model)


@contract("aldy.minor.solve_minor_model@selectors", native=False)
def _(model, alleles):
    types(model="CBC", alleles="Dict[Tuple[AlleleId, int], Set[Mutation]]")
    returns("Dict[Tuple[AlleleId, int], LinVar]")
    # one binary selector per candidate copy
    for a in alleles:
        newvar(model, "B", None, None, f"A_{a[0].major}_{a[0].minor}_{a[1]}")
    ensures(forall(lambda a="Tuple[AlleleId, int]": (a in result) == (a in alleles)), label="one-selector-per-candidate-copy")
    modifies(model)


@contract("aldy.minor.solve_minor_model@keepable", native=False)
def _(model, alleles):
    types(model="CBC", alleles="Dict[Tuple[AlleleId, int], Set[Mutation]]")
    returns("Dict[Tuple[AlleleId, int], Dict[Mutation, Tuple[LinVar, LinVar]]]")
    # a 'keep' selector (and its product with the candidate's selector) exists exactly for the variants the candidate defines
    for a in alleles:
        for m in alleles[a]:
            newvar(model, "B", None, None, f"K_{m.pos}_{m.op}_{a[0].major}_{a[0].minor}_{a[1]}")
            newvar(model, "B", None, None, f"MUL_K_{m.pos}_{m.op}_{a[0].major}_{a[0].minor}_{a[1]}")
    ensures(forall(lambda a="Tuple[AlleleId, int]": (a in result) == (a in alleles)), label="one-table-per-candidate")
    ensures(forall(lambda a="Tuple[AlleleId, int]", m=Mutation: implies(a in alleles, (m in result[a]) == (m in alleles[a]))),
            label="keepable-iff-defined")
    modifies(model)


# C14 (candidate isolation) / C04 mechanism "candidate minors and considered variants pooled over all major solutions"

@contract("aldy.minor.estimate_minor@considered-variants", native=False)
def _(gene, major_sols):
    types(gene="Gene", major_sols="List[MajorSolutionK]")
    returns("Set[Mutation]")
    requires(forall(lambda i=int, sa=AlleleId: implies(0 <= i and i < len(major_sols) and sa in major_sols[i].solution, sa.major in gene.alleles)))
    # what the code does (holds): the considered variants are pooled over ALL candidates handed over
    ensures(forall(lambda m=Mutation: (m in result) == (
        m in gene.random_mutations
        or exists(lambda i=int: 0 <= i and i < len(major_sols) and (
            m in set(major_sols[i].added)
            or exists(lambda sa=AlleleId: sa in major_sols[i].solution and (
                m in gene.alleles[sa.major].func_muts
                or exists(lambda mi=str: mi in gene.alleles[sa.major].minors and m in gene.alleles[sa.major].minors[mi].neutral_muts))))))),
        label="pooled-over-all-candidates")
    # C14: "the refinement computed for one candidate solution does not depend on which other candidates are refined
    # alongside it": the variants considered for candidate j are those of candidate j (its alleles' catalogued variants,
    # its novel variants, the gene's random variants).        KNOWN FINDING F6: they are pooled (clause above)
    ensures(forall(lambda j=int, m=Mutation: implies(0 <= j and j < len(major_sols), (m in result) == (
        m in gene.random_mutations or m in set(major_sols[j].added)
        or exists(lambda sa=AlleleId: sa in major_sols[j].solution and (
            m in gene.alleles[sa.major].func_muts
            or exists(lambda mi=str: mi in gene.alleles[sa.major].minors and m in gene.alleles[sa.major].minors[mi].neutral_muts)))))),
        label="considered-variants-of-this-candidate-only")
    modifies()


# C04: the read-out of ONE selected candidate copy (slice inside the solution loop of solve_minor_model): which variants
# are reported as added to / lost from the copy.


def is_bin(v):
    """an integer variable with bounds [0, 1] (what CBC.getValue reads back as a boolean)"""
    return lp_integer(v) and abs(lp_lb(v)) < 0.01 and abs(1 - lp_ub(v)) < 0.01


def chosen(v):
    """value of a binary variable in the solver's solution, as CBC.getValue reads it"""
    return round(lp_solution(v)) > 0


@contract("aldy.minor.solve_minor_model@read-out", native=False)
def _(model, allele, alleles, VKEEP, VNEW, coverage, major_sol):
    types(model="CBC", allele="Tuple[AlleleId, int]",
          alleles="Dict[Tuple[AlleleId, int], Set[Mutation]]",
          VKEEP="Dict[Tuple[AlleleId, int], Dict[Mutation, Tuple[LinVar, LinVar]]]",
          VNEW="Dict[Tuple[AlleleId, int], Dict[Mutation, Tuple[LinVar, LinVar]]]",
          coverage="Coverage", major_sol="MajorSolution")
    returns("Tuple[List[Mutation], List[Mutation]]")
    requires(allele in VKEEP and allele in VNEW and allele in alleles)
    requires(cn_wf(major_sol.cn_solution))
    # the keep / add selectors are binary variables (created with vtype="B": slices keepable / addable)
    requires(forall(lambda m=Mutation: implies(m in VKEEP[allele], is_bin(VKEEP[allele][m][0]))))
    requires(forall(lambda m=Mutation: implies(m in VNEW[allele], is_bin(VNEW[allele][m][0]))))
    # C04 "the reported alleles": a defined variant is reported LOST iff its keep selector is 0 in the solution ...
    ensures(forall(lambda m=Mutation: (m in set(result[1])) == (m in VKEEP[allele] and not chosen(VKEEP[allele][m][0]))),
            label="lost-iff-not-kept")
    # ... and a variant is reported ADDED iff its add selector is 1 ("the reported score equals the model objective ... of
    # the reported assignment").     KNOWN FINDING F29/F30: unselected variants observed at max_cn copies are added as well
    ensures(forall(lambda m=Mutation: (m in set(result[0])) == (m in VNEW[allele] and chosen(VNEW[allele][m][0]))),
            label="added-iff-selected")
    ensures(forall(lambda m=Mutation: implies(m in VNEW[allele] and chosen(VNEW[allele][m][0]), m in set(result[0]))),
            label="selected-additions-reported")
    modifies()
