# Contracts for aldy/gene.py


@contract("aldy.gene.Gene.region_at")
def _(self, pos):
    types(pos="int")
    returns("Optional[Tuple[int, str]]")
    ensures((result is None) == (pos not in self._region_at))
    ensures(implies(pos in self._region_at, result == self._region_at[pos]))
    modifies()


@contract("aldy.gene.Gene.__contains__")
def _(self, i):
    types(i="int")
    ensures(result == (i in self.chr_to_ref))
    modifies()
