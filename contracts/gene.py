# Contracts for aldy/gene.py


@contract("aldy.gene.Gene.region_at", pure=True)
def _(self, pos):
    types(pos="int")
    returns("Optional[Tuple[int, str]]")
    ensures((result is None) == (pos not in self._region_at))
    ensures(implies(pos in self._region_at, result == self._region_at[pos]))
    modifies()


@contract("aldy.gene.Gene.__contains__")
def _(self, i):
    types(i="int")
    ensures(result == (i in self.chr_to_ref))
    modifies()


@contract("aldy.gene.Gene.is_functional", assumed=True)
def _(self, mut, infer):
    # the effect table / amino-acid inference is data: an abstract predicate of (position, change)
    types(mut="Tuple[int, str]", infer="bool")
    ensures(result == opaque("is_functional", "bool", mut[0], mut[1], infer))
    modifies()


@contract("aldy.gene.Gene.has_coverage")
def _(self, a, pos):
    types(a="str", pos="int")
    requires(gene_wf(self))
    requires(a in self.alleles and self.alleles[a].cn_config in self.cn_configs)
    requires(forall(lambda c=str, g=int, r=str: implies(c in self.cn_configs and 0 <= g and g < len(self.regions) and r in self.regions[g],
                                                        g < len(self.cn_configs[c].cn) and r in self.cn_configs[c].cn[g])))
    # C09/C02: the allele's structure has at least one copy of the region that contains the position
    ensures(result == (pos in self._region_at and
                       self.cn_configs[self.alleles[a].cn_config].cn[self._region_at[pos][0]][self._region_at[pos][1]] > 0))
    modifies()


@contract("aldy.gene.Gene.deletion_allele", pure=True)
def _(self):
    returns("Optional[str]")
    # the (unique by construction) configuration of kind DELETION, None if there is none
    ensures((result is None) == (not any(self.cn_configs[c].kind == CNConfigType.DELETION for c in self.cn_configs)))
    ensures(implies(result is not None, result in self.cn_configs and self.cn_configs[result].kind == CNConfigType.DELETION))
    modifies()


# ------------------------------------------------------------------------------------------------
# The statement of Gene._init_regions that builds the position index (slice, config.SLICES): it ESTABLISHES the
# invariant gene_wf that every look-up contract assumes (region_at, has_coverage, position_cn, the model builders).

@contract("aldy.gene.Gene._init_regions@region-index", native=False)
def _(self):
    types(self="Gene")
    # every position of every region of every gene copy is indexed, with the copy and region it lies in
    ensures(gene_wf(self), label="index-well-formed")
    ensures(forall(lambda p=int: (p in self._region_at) == exists(
        lambda g=int, r=str: 0 <= g and g < len(self.regions) and r in self.regions[g]
        and self.regions[g][r].start <= p and p < self.regions[g][r].end)), label="indexed-iff-inside-a-region")
    ensures(forall(lambda p=int: implies(p in self._region_at,
                                         self.regions[self._region_at[p][0]][self._region_at[p][1]].start <= p
                                         and p < self.regions[self._region_at[p][0]][self._region_at[p][1]].end)),
            label="index-names-a-region-containing-the-position")
    modifies(self._region_at)
