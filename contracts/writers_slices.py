# C12: the variant set write_decomposition lists for one reported copy (slice inside its loop body, config.SLICES).


@contract("aldy.diplotype.write_decomposition@carried-variants", native=False)
def _(gene, a):
    types(gene="Gene", a="SolvedAllele")
    returns("Set[Mutation]")
    requires(a.minor != "", a.major in gene.alleles, a.minor in gene.alleles[a.major].minors)
    # C12: "the decomposition file lists, for every reported solution and allele copy, exactly the variants that copy is
    # reported to carry (definition plus additions minus losses)"
    ensures(forall(lambda m=Mutation: (m in result) == (
        (m in gene.alleles[a.major].func_muts or m in gene.alleles[a.major].minors[a.minor].neutral_muts or m in set(a.added))
        and m not in set(a.missing))), label="definition-plus-additions-minus-losses")
    # C14: computed on fresh sets - the catalogue and the solution are not modified
    modifies()


@contract("aldy.diplotype.write_vcf@carried-variants", native=False)
def _(gene, a):
    types(gene="Gene", a="SolvedAllele")
    returns("Set[Mutation]")
    requires(a.minor != "", a.major in gene.alleles, a.minor in gene.alleles[a.major].minors)
    # C12: "the VCF ... marks, per solution and copy, exactly the variants that copy is reported to carry": the same set
    # as in the decomposition file.     KNOWN FINDING F3b: write_vcf never removes the copy's LOST variants (a.missing)
    ensures(forall(lambda m=Mutation: (m in result) == (
        (m in gene.alleles[a.major].func_muts or m in gene.alleles[a.major].minors[a.minor].neutral_muts or m in set(a.added))
        and m not in set(a.missing))), label="definition-plus-additions-minus-losses")
    # what it does compute (holds): nothing outside definition + additions is marked
    ensures(forall(lambda m=Mutation: implies(m in result, m in gene.alleles[a.major].func_muts
                                              or m in gene.alleles[a.major].minors[a.minor].neutral_muts or m in set(a.added))),
            label="nothing-outside-definition-plus-additions")
    modifies()
