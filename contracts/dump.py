# C17: the debug dump writer and reader (aldy/sam.py). pickle / gzip / tarfile / open are trusted and opaque: what is
# verified is WHICH values are handed to pickle.dump and what _load_dump does with the tuple pickle.load hands back -
# position by position, so that the round trip is the identity on the dumped fields (same positions on both sides).


def dumped():
    """the tuple handed to pickle.dump on this path"""
    return call_arg("pickle.dump", 0)


@contract("aldy.sam.Sample._dump_alignments", native=False,
          external={"gzip.open": "Opaque[File]", "pickle.dump": "", "collections.Counter": "Opaque[Counter]"})
def _(self, debug, norm, muts):
    types(self="Sample", debug="str", norm="Dict[int, List[Tuple[float, float]]]", muts="Dict[Tuple[int, str], List[Tuple[float, float]]]")
    # C17: "a debug dump ... replays to the same result": the dump carries, in this order, the sample name, the profile,
    # the neutral-region depth table, the reference and variant observations, the phase records, the fusion counters
    # and the indel sites - the objects themselves, not copies of another type
    ensures(len(dumped()) == 8, label="eight-fields")
    ensures(dumped()[0] == self.name, label="field-0-name")
    ensures((self.profile is None and dumped()[1] is None) or sameobj(dumped()[1], self.profile), label="field-1-profile")
    ensures(sameobj(dumped()[2], self._dump_cn), label="field-2-neutral-depth-table")
    ensures(sameobj(dumped()[6], self._fusion_counter), label="field-6-fusion-counter")
    ensures(sameobj(dumped()[7], self._indel_sites), label="field-7-indel-sites")
    # C17 / C14: writing the dump does not modify the sample or the observation tables it is given
    modifies()


def loaded():
    """the tuple pickle.load handed back on this path"""
    return call_result("pickle.load")


@contract("aldy.sam.Sample._load_dump@restore", native=False,
          external={"pickle.load": "Tuple[str, Profile, Dict[int, int], Opaque[Obs], Opaque[Obs], List[Dict[int, str]], Dict[str, Tuple[float, float]], Dict[Tuple[int, str], Tuple[int, int]]]"})
def _(self, fd):
    types(self="Sample", fd="Opaque[File]")
    # C17: the reader puts every field back where the writer took it from (same positions as _dump_alignments) ...
    ensures(self.name == loaded()[0], label="field-0-name")
    ensures(self._dump_cn == loaded()[2], label="field-2-neutral-depth-table")
    ensures(self._fusion_counter == loaded()[6], label="field-6-fusion-counter")
    ensures(self._indel_sites == loaded()[7], label="field-7-indel-sites")
    # ... the profile comes from the dump, with exactly the four run-specific settings reset
    ensures(self.profile is not None and not self.profile.display_format and self.profile.debug_probe == ""
            and not self.profile.debug_novel and self.profile.min_avg_coverage == 2.0, label="profile-run-settings-reset")
    ensures(self.profile.gap == loaded()[1].gap and self.profile.threshold == loaded()[1].threshold
            and self.profile.min_coverage == loaded()[1].min_coverage and self.profile.min_quality == loaded()[1].min_quality
            and self.profile.min_mapq == loaded()[1].min_mapq and self.profile.phase == loaded()[1].phase
            and self.profile.cn_max == loaded()[1].cn_max and self.profile.neutral_value == loaded()[1].neutral_value,
            label="profile-model-parameters-from-dump")
    # ... and every phase record is kept, under a fresh read name
    ensures(forall(lambda i=int: implies(0 <= i and i < len(loaded()[5]), ("r" + str(i)) in self.phases)), label="phases-kept")
    modifies(self)
