# Contracts for aldy/coverage.py


@contract("aldy.coverage.Coverage.coverage")
def _(self, mut):
    types(mut="Mutation")
    ensures(result == support(self, mut))
    modifies()


@contract("aldy.coverage.Coverage.__getitem__")
def _(self, mut):
    types(mut="Mutation")
    ensures(result == support(self, mut))
    modifies()


@contract("aldy.coverage.Coverage.total")
def _(self, m):
    types(m="Union[Mutation, int]")
    if hasattr(m, "pos"):
        ensures(result == depth_at(self, m))
    else:
        ensures(result == depth(self, m))
    modifies()


@contract("aldy.coverage.Coverage.basic_filter")
def _(self, mut, cn, thres):
    types(mut="Mutation", cn="Optional[float]", thres="Optional[float]")
    # surfaced from `thres or default` / `cn or 1`: a zero argument silently means "default"
    requires(self.profile.threshold > 0, self.profile.min_coverage >= 0)
    requires(cn is None or cn > 0, thres is None or thres > 0)
    frac = self.profile.threshold if thres is None else thres
    copies = 1 if cn is None else cn
    # C15: "... supported by at least the configured minimum number of reads ... and passes the
    # configured single-copy fraction threshold" (the fraction is per copy: threshold / copies)
    ensures(result == (support(self, mut) >= self.profile.min_coverage
                       and support(self, mut) * copies >= depth_at(self, mut) * frac))
    modifies()


@contract("aldy.coverage.Coverage.quality_filter")
def _(self, mut):
    types(mut="Mutation")
    quals = self._coverage[mut.pos][mut.op] if in_pileup(self, mut.pos, mut.op) else []
    # C15: exactly the observations that meet the base- and mapping-quality thresholds, in order
    ensures(result == [ob for ob in quals if hq(self.profile, ob)])
    modifies()


@contract("aldy.coverage.Coverage.single_copy")
def _(self, m, cn_solution):
    types(m="Union[Mutation, int]", cn_solution="CNSolution")
    returns("float")
    requires(cn_wf(cn_solution))
    # depth of a single gene copy: total depth (at least 1) / copy number; 0 where the structure has no copy
    if hasattr(m, "pos"):
        ensures(result == single_depth(self, cn_solution, m.pos, depth_at(self, m)))
        ensures((result == 0) == (copies_at(cn_solution, m.pos) == 0), label="zero-iff-no-copy")
    else:
        ensures(result == single_depth(self, cn_solution, m, depth(self, m)))
        ensures((result == 0) == (copies_at(cn_solution, m) == 0), label="zero-iff-no-copy")
    ensures(result >= 0, label="nonneg")
    modifies()


@contract("aldy.coverage.Coverage.average_coverage", pure=True)
def _(self):
    returns("float")
    # C19: total depth over covered positions / (number of covered positions + 0.1); 0 for an empty table
    ensures(result * (len(self._coverage) + 0.1) == sum(depth(self, p) for p in self._coverage), label="total-depth-over-positions")
    modifies()


@contract("aldy.coverage.Coverage.diploid_avg_coverage")
def _(self):
    requires(self.profile.cn_region is not None)
    requires(self.profile.cn_region.end != self.profile.cn_region.start)
    w = self.profile.cn_region.end - self.profile.cn_region.start
    ensures(result * (w if w >= 0 else -w) == sum(self._cnv_coverage[i] for i in self._cnv_coverage))
    modifies()


def region_sum(cov, g, r):
    """Total depth over one gene region (C07: S_r)."""
    return sum(depth(cov, i) for i in range(cov.gene.regions[g][r].start, cov.gene.regions[g][r].end))


def neutral_sum(cov):
    """Sample depth summed over the copy-number-neutral region (C07: N_s)."""
    return sum((cov._cnv_coverage[i] if i in cov._cnv_coverage else 0)
               for i in range(cov.profile.cn_region.start, cov.profile.cn_region.end))


def profile_value(cov, g, r):
    return cov.profile.data[cov.gene.name][r][g]


def is_region(cov, g, r):
    return 0 <= g and g < len(cov.gene.regions) and r in cov.gene.regions[g]


@contract("aldy.coverage.Coverage._normalize_coverage")
def _(self):
    requires(self.profile.cn_region is not None, self.profile.data is not None)
    # data precondition (surfaced from the look-up profile.data[gene][region][gene index]):
    # the profile lists every region of every gene copy
    requires(self.gene.name in self.profile.data)
    requires(forall(lambda g=int, r=str: implies(is_region(self, g, r),
                                                 r in self.profile.data[self.gene.name]
                                                 and g < len(self.profile.data[self.gene.name][r]))))
    N = neutral_sum(self)
    V = self.profile.neutral_value
    # C07: "A sample with no reads in the copy-number-neutral region is rejected instead of being normalised."
    raises(AldyException, when=(N == 0 or V == 0))
    # C07: value = (profile neutral depth / sample neutral depth) * region depth / (profile region depth per copy);
    #      0.0 where the profile has no depth for the region
    ensures(forall(lambda g=int, r=str: implies(
        is_region(self, g, r),
        (g, r) in self._region_coverage
        and implies(profile_value(self, g, r) != 0,
                    self._region_coverage[g, r] == (V / N) * region_sum(self, g, r) / (profile_value(self, g, r) / 2))
        and implies(profile_value(self, g, r) == 0, self._region_coverage[g, r] == 0))), label="normalised")
    ensures(forall(lambda g=int, r=str: implies((g, r) in self._region_coverage, is_region(self, g, r))), label="only-regions")
    # reading a missing position of the defaultdict(int) depth table inserts a zero entry: allowed,
    # but no depth value may change
    ensures(forall(lambda i=int: (self._cnv_coverage[i] if i in self._cnv_coverage else 0)
                   == old(self._cnv_coverage[i] if i in self._cnv_coverage else 0)), label="neutral-depths-kept")
    modifies(self._region_coverage, self._cnv_coverage)


def keeps_list(f):
    """filter result that replaces the observations: a non-empty list"""
    return isinstance(f, list) and len(f) > 0


def keeps_all(f):
    """filter result that keeps the entry as it is: True"""
    return isinstance(f, bool) and f == True


@contract("aldy.coverage.Coverage.filtered")
def _(self, filter_fn):
    types(filter_fn="Callable[[Coverage, Mutation], Union[bool, List[Tuple[float, float]]]]")
    returns("Coverage")
    # the filter is a pure function of (coverage, variant) that does not modify the coverage
    # C14: "filtered coverage is a new object": the receiver is not modified
    modifies()
    ensures(not sameobj(result, self), label="fresh")
    ensures(not sameobj(result._coverage, self._coverage), label="fresh-table")
    # C15: an entry survives iff the filter returns a non-empty list (which then replaces the
    # observations) or True (observations kept)
    ensures(forall(lambda pos=int, o=str: in_pileup(result, pos, o) == (
        in_pileup(self, pos, o) and (keeps_list(filter_fn(self, Mutation(pos, o))) or keeps_all(filter_fn(self, Mutation(pos, o)))))),
        label="kept-entries")
    ensures(forall(lambda pos=int, o=str: implies(
        in_pileup(self, pos, o) and keeps_list(filter_fn(self, Mutation(pos, o))),
        result._coverage[pos][o] == filter_fn(self, Mutation(pos, o)))), label="replaced-observations")
    ensures(forall(lambda pos=int, o=str: implies(
        in_pileup(self, pos, o) and keeps_all(filter_fn(self, Mutation(pos, o))),
        result._coverage[pos][o] == self._coverage[pos][o])), label="kept-observations")
    # every position of the table stays a key (possibly with no entries)
    ensures(forall(lambda pos=int: (pos in result._coverage) == (pos in self._coverage)), label="positions")
    # indel-table entries are kept unless the filter returns exactly False
    ensures((result._indels is None) == (self._indels is None or not self._indels), label="indel-table-present")
    ensures(implies(result._indels is not None, forall(lambda pos=int, o=str: ((pos, o) in result._indels) == (
        (pos, o) in self._indels and not (isinstance(filter_fn(self, Mutation(pos, o)), bool) and filter_fn(self, Mutation(pos, o)) == False)))),
        label="indel-entries")
    ensures(implies(result._indels is not None, forall(lambda pos=int, o=str: implies(
        (pos, o) in result._indels, result._indels[pos, o] == self._indels[pos, o]))), label="indel-values")
    # everything else is shared with the receiver (shallow copy)
    shares(result, self, "gene", "profile", "sam", "_cnv_coverage", "_region_coverage")


# C06 / C16: what a Coverage object holds after construction

@contract("aldy.coverage.Coverage.__init__", native=False)
def _(self, gene, profile, sam, coverage, indel_coverage, cnv_coverage):
    types(gene="Gene", profile="Profile", sam="Optional[Sample]", coverage="Dict[int, Dict[str, List[Tuple[float, float]]]]",
          indel_coverage="Optional[Dict[Tuple[int, str], Tuple[float, float]]]", cnv_coverage="DefaultDict[int, int, 'int']")
    # every observation list of the table handed over is the observation list of the object ...
    ensures(forall(lambda pos=int, op=str: implies(pos in coverage and op in coverage[pos] and op[:3] != "ins",
                                                   in_pileup(self, pos, op) and self._coverage[pos][op] == coverage[pos][op])),
            label="non-insertions-kept")
    # ... including insertions (C16: "k alternate copies add 10k observations to the catalogued variant" - an insertion
    # parsed from a VCF / reads must keep its support).     KNOWN FINDING F5b: with a non-empty indel table, parsed
    # insertions are dropped from the pile-up, and table entries without on-target reads are dropped from the table
    ensures(forall(lambda pos=int, op=str: implies(pos in coverage and op in coverage[pos] and op[:3] == "ins",
                                                   in_pileup(self, pos, op) or (self._indels is not None and (pos, op) in self._indels))),
            label="insertions-kept")
    ensures(forall(lambda pos=int, op=str: implies(in_pileup(self, pos, op), pos in coverage and op in coverage[pos])), label="nothing-invented")
    modifies(self)
