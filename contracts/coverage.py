# Contracts for aldy/coverage.py


@contract("aldy.coverage.Coverage.coverage")
def _(self, mut):
    types(mut="Mutation")
    ensures(result == support(self, mut))
    modifies()


@contract("aldy.coverage.Coverage.__getitem__")
def _(self, mut):
    types(mut="Mutation")
    ensures(result == support(self, mut))
    modifies()


@contract("aldy.coverage.Coverage.total")
def _(self, m):
    types(m="Union[Mutation, int]")
    if hasattr(m, "pos"):
        ensures(result == depth_at(self, m))
    else:
        ensures(result == depth(self, m))
    modifies()


@contract("aldy.coverage.Coverage.basic_filter")
def _(self, mut, cn, thres):
    types(mut="Mutation", cn="Optional[float]", thres="Optional[float]")
    # surfaced from `thres or default` / `cn or 1`: a zero argument silently means "default"
    requires(self.profile.threshold > 0, self.profile.min_coverage >= 0)
    requires(cn is None or cn > 0, thres is None or thres > 0)
    frac = self.profile.threshold if thres is None else thres
    copies = 1 if cn is None else cn
    # C15: "... supported by at least the configured minimum number of reads ... and passes the
    # configured single-copy fraction threshold" (the fraction is per copy: threshold / copies)
    ensures(result == (support(self, mut) >= self.profile.min_coverage
                       and support(self, mut) * copies >= depth_at(self, mut) * frac))
    modifies()


@contract("aldy.coverage.Coverage.quality_filter")
def _(self, mut):
    types(mut="Mutation")
    quals = self._coverage[mut.pos][mut.op] if in_pileup(self, mut.pos, mut.op) else []
    # C15: exactly the observations that meet the base- and mapping-quality thresholds, in order
    ensures(result == [ob for ob in quals if hq(self.profile, ob)])
    modifies()


@contract("aldy.coverage.Coverage.single_copy")
def _(self, m, cn_solution):
    types(m="Union[Mutation, int]", cn_solution="CNSolution")
    pos = m.pos if hasattr(m, "pos") else m
    requires(cn_solution.position_cn(pos) >= 0)
    d = depth_at(self, m) if hasattr(m, "pos") else depth(self, m)
    ensures(implies(cn_solution.position_cn(pos) == 0, result == 0))
    ensures(implies(cn_solution.position_cn(pos) > 0,
                    result * cn_solution.position_cn(pos) == (d if d >= 1 else 1)))
    modifies()


@contract("aldy.coverage.Coverage.average_coverage")
def _(self):
    # C19: total depth over covered positions / (number of covered positions + 0.1); 0 for an empty table
    ensures(result * (len(self._coverage) + 0.1) == sum(depth(self, p) for p in self._coverage))
    modifies()


@contract("aldy.coverage.Coverage.diploid_avg_coverage")
def _(self):
    requires(self.profile.cn_region is not None)
    requires(self.profile.cn_region.end != self.profile.cn_region.start)
    w = self.profile.cn_region.end - self.profile.cn_region.start
    ensures(result * (w if w >= 0 else -w) == sum(self._cnv_coverage[i] for i in self._cnv_coverage))
    modifies()
