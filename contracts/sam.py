# Contracts for the read / evidence layer: aldy/sam.py (+ the CIGAR walk of Profile.get_sam_profile_data).
#
# All contracts here are NATIVE ONLY (symbolic=False): they are executed by /verif/replay/native.py on
# generated inputs (hooks in /verif/replay/inputs_sam.py, constructors in /verif/replay/factories_sam.py).
# Spec functions are prefixed `sam_`; they are plain Python (an independent CIGAR / VCF interpreter).
# Properties: C06 (pileup), C07 (neutral-region walk), C16 (VCF evidence), C17 (dump round trip).

SAM_MATCH_OPS = [0, 7, 8]            # M, =, X : consume reference and read
SAM_CIGAR_OPS = [0, 1, 2, 4, 7, 8]   # M I D S = X
SAM_BIN_VALUES = [0, 1, 6, 15, 25, 35, 40]
# parameters the dump reader resets on purpose; they are re-applied from the command line
# (genotype.py: `if kind == "dump": profile.update(params)`, C17 anchor "parameter re-application for dumps")
SAM_PROFILE_REAPPLIED = ["display_format", "debug_probe", "debug_novel", "min_avg_coverage"]


# ----------------------------------------------------------------------------------------------------
# quality binning (C06, "quality binning" sam.py:639-654)

def sam_bin(q):
    """value table: 0/1 -> itself (as int), <10 -> 6, <20 -> 15, <29 -> 25, <39 -> 35, else 40"""
    return int(q) if q < 2 else 6 if q < 10 else 15 if q < 20 else 25 if q < 29 else 35 if q < 39 else 40


@contract("aldy.sam.Sample._parse_read.bin_quality")
def _(q):
    # q is a mapping quality (int), a base quality (int) or the mean base quality of an insertion (float)
    types(q="float")
    requires(q >= 0)
    ensures(result == sam_bin(q), label="table")
    ensures(typed(result, "int"), label="int")
    # monotone: no lower quality is binned above, no higher quality below
    ensures(all((sam_bin(x) <= result if x <= q else sam_bin(x) >= result) for x in range(0, 70)), label="monotone")
    modifies()


# ----------------------------------------------------------------------------------------------------
# read eligibility (C06, "read eligibility rules" sam.py:1026-1036)

@contract("aldy.sam._in_region")
def _(region, read, prefix):
    types(read="AlignedSegment")
    requires(region.start <= region.end)
    requires(read.reference_end is None or read.reference_start <= read.reference_end)
    aligned = read.reference_id != -1 and read.reference_end is not None
    # "Reads that are unaligned ... or outside the gene region contribute nothing": True iff the read is aligned
    # to the region's chromosome and the closed intervals [reference_start, reference_end] and
    # [region.start, region.end] intersect.
    ensures(result == (aligned and read.reference_name == prefix + region.chr
                       and max(read.reference_start, region.start) <= min(read.reference_end, region.end)),
            label="closed-interval-overlap")
    modifies()


# ----------------------------------------------------------------------------------------------------
# independent CIGAR interpreter

def sam_walk(ref_start, cigar):
    """[(op, reference position, read index, size)] with running coordinates (SAM specification:
    M,=,X consume reference and read; I,S the read only; D the reference only)."""
    out = []
    r = ref_start
    i = 0
    for op, n in cigar:
        out.append((op, r, i, n))
        if op in (0, 7, 8):
            r += n
            i += n
        elif op == 2:
            r += n
        elif op in (1, 4):
            i += n
    return out


def sam_ref_end(ref_start, cigar):
    return ref_start + sum(n for op, n in cigar if op in (0, 2, 7, 8))


def sam_aligned(ref_start, cigar):
    """{reference position: read index} of the matched / mismatched bases"""
    return {r + k: i + k for op, r, i, n in sam_walk(ref_start, cigar) if op in (0, 7, 8) for k in range(n)}


def sam_deleted(ref_start, cigar):
    """reference positions of the deleted bases"""
    return {r + k for op, r, i, n in sam_walk(ref_start, cigar) if op == 2 for k in range(n)}


def sam_insertions(ref_start, cigar, seq):
    """[(reference position of the next reference base, inserted sequence, read index, size)]"""
    return [(r, seq[i:i + n], i, n) for op, r, i, n in sam_walk(ref_start, cigar) if op == 1]


def sam_pileup(reads):
    """{position: number of reads spanning it} for reads (start, cigar): M,=,X,D count, I,S do not"""
    out = {}
    for start, cigar in reads:
        for p in list(sam_aligned(start, cigar)) + list(sam_deleted(start, cigar)):
            out[p] = out.get(p, 0) + 1
    return out


def sam_shown(gene, p, base):
    """what an aligned base shows at p: '_' (the reference base; also everything outside the RefSeq-mapped
    part, where substitutions are not called) or the substitution 'R>B'"""
    return "_" if (p not in gene.chr_to_ref or gene[p] == base) else f"{gene[p]}>{base}"


def sam_is_sub(op):
    return len(op) == 3 and op[1] == ">"


def sam_is_mnp(op):
    return ">" in op and len(op) > 3


def sam_mnps(gene, functional):
    """catalogued multi-nucleotide substitutions; functional = part of the definition of a major allele"""
    func = {(m.pos, m.op) for a in gene.alleles.values() for m in a.func_muts}
    return sorted((p, op) for (p, op) in gene.mutations if sam_is_mnp(op) and ((p, op) in func) == functional)


def sam_mnp_parts(p, op):
    l, r = op.split(">")
    return [(p + k, f"{l[k]}>{r[k]}") for k in range(len(l)) if l[k] != "."]


def sam_shows_mnp(gene, al, seq, p, op):
    """the read shows every component substitution of the catalogued MNP (p, op)"""
    return all(q in al and sam_shown(gene, q, seq[al[q]]) == sub for q, sub in sam_mnp_parts(p, op))


def sam_mnp_absorbed(gene, al, seq):
    """positions whose observation belongs to a complete catalogued MNP shown by the read"""
    return {q for (p, op) in gene.mutations if sam_is_mnp(op) and sam_shows_mnp(gene, al, seq, p, op)
            for q, _ in sam_mnp_parts(p, op)}


def sam_obs(table, key):
    return list(table[key]) if key in table else []


def sam_delta(new, old_, key):
    return len(sam_obs(new, key)) - len(sam_obs(old_, key))


def sam_appended(new, old_, key):
    return sam_obs(new, key)[len(sam_obs(old_, key)):]


def sam_depth(norm, muts, p):
    """C06: number of non-insertion observations at p"""
    return len(sam_obs(norm, p)) + sum(len(v) for (q, op), v in muts.items() if q == p and op[:3] != "ins")


def sam_positions(norm, muts):
    return set(norm) | {q for q, _ in muts}


def sam_phase_alleles(gene, ref_start, cigar, seq):
    """{site: alleles the read shows there}: the aligned base ('_' / 'R>B'), a deletion starting there
    ('del' + deleted reference bases), an insertion placed there ('ins' + inserted bases)"""
    out = {}
    for op, r, i, n in sam_walk(ref_start, cigar):
        if op in (0, 7, 8):
            for k in range(n):
                out.setdefault(r + k, set()).add(sam_shown(gene, r + k, seq[i + k]))
        elif op == 2:
            out.setdefault(r, set()).add("del" + gene[r:r + n])
        elif op == 1:
            out.setdefault(r, set()).add("ins" + seq[i:i + n])
    return out


def sam_canonical_cigar(cigar):
    """=/X written as M and adjacent match runs merged"""
    out = []
    for op, n in cigar:
        op = 0 if op in (0, 7, 8) else op
        if out and out[-1][0] == op and op == 0:
            out[-1] = (0, out[-1][1] + n)
        else:
            out.append((op, n))
    return out


def sam_split_cigar(cigar):
    """every match run split into one-base runs"""
    return [x for op, n in cigar for x in ([(op, 1)] * n if op in (0, 7, 8) else [(op, n)])]


def sam_clone(s):
    """copy of a Sample that shares the gene and the profile (not written by the walk)"""
    dc = __import__("copy").deepcopy
    n = object.__new__(type(s))
    n.__dict__.update({k: (v if k in ("gene", "profile") else dc(v)) for k, v in s.__dict__.items()})
    return n


def sam_tables(s, norm, muts, exact):
    """(reference table, variant table, phase records); observation lists in order (exact) or as multisets"""
    f = (lambda v: list(v)) if exact else (lambda v: sorted(v))
    return ({p: f(v) for p, v in norm.items() if len(v)}, {k: f(v) for k, v in muts.items() if len(v)},
            {fr: dict(v) for fr, v in s.phases.items()})


def sam_replay(s, norm, muts, reads, exact):
    """run the real walk for `reads` on copies of the given pre-state"""
    dc = __import__("copy").deepcopy
    s2, n2, m2 = sam_clone(s), dc(norm), dc(muts)
    for fragment, ref_start, cigar, seq, mq, qual in reads:
        s2._parse_read(fragment, ref_start, list(cigar), seq, n2, m2, mq, qual)
    return sam_tables(s2, n2, m2, exact)


@contract("aldy.sam.Sample._parse_read", symbolic=False)
def _(self, fragment, ref_start, cigar, seq, norm, muts, mq, qual, other):
    # `other` (not a parameter of the function): a second read, used by the read-order clause only
    requires(all(op in SAM_CIGAR_OPS and n > 0 for op, n in cigar))
    requires(sum(n for op, n in cigar if op in (0, 1, 4, 7, 8)) == len(seq))
    requires(qual is None or len(qual) == len(seq))
    requires(not self._indel_sites_eqs)        # short-read path (no long-read equivalence table)
    al = sam_aligned(ref_start, cigar)
    dels = sam_deleted(ref_start, cigar)
    end = sam_ref_end(ref_start, cigar)
    window = list(range(ref_start - 3, end + 4))
    absorbed = sam_mnp_absorbed(self.gene, al, seq)
    ins = sam_insertions(ref_start, cigar, seq)

    # C06: "at every position ... the number of non-insertion observations equals the number of eligible reads
    # whose alignment spans that position (matches, mismatches and deleted bases each count once; soft clips and
    # insertions consume no reference)"   [one read: +1 exactly on the spanned positions]
    ensures(all(sam_depth(norm, muts, p) - sam_depth(old(norm), old(muts), p) == (1 if (p in al or p in dels) else 0)
                for p in sam_positions(norm, muts) | set(window)), label="depth")
    ensures(all(sam_delta(muts, old(muts), (p, op)) == (1 if p in dels else 0)
                for (p, op) in set(muts) | {(d, "-") for d in dels} if op == "-"), label="deleted-base-count")
    ensures(all(sam_delta(muts, old(muts), (p, op)) == len([1 for r, s, i, n in ins if (r, "ins" + s) == (p, op)])
                for (p, op) in set(muts) | {(r, "ins" + s) for r, s, i, n in ins} if op[:3] == "ins"),
            label="insertion-count")
    # C06: "within the RefSeq-mapped part the count recorded for a substitution equals the number of eligible reads
    # showing that base there and the reference count the number showing the reference base"
    # (positions absorbed by a complete catalogued MNP are governed by the mnp-once clauses)
    ensures(all(sam_delta(muts, old(muts), (p, op)) == (1 if (p in al and sam_shown(self.gene, p, seq[al[p]]) == op) else 0)
                for (p, op) in set(muts) | {(q, sam_shown(self.gene, q, seq[al[q]])) for q in al}
                if sam_is_sub(op) and p not in absorbed), label="subst-count")
    ensures(all(sam_delta(norm, old(norm), p) == (1 if (p in al and sam_shown(self.gene, p, seq[al[p]]) == "_") else 0)
                for p in set(norm) | set(window) if p not in absorbed), label="ref-count")
    # C06: "(a read showing a complete catalogued multi-nucleotide substitution is counted once, under that
    # variant, at its first position)"
    for functional in [True, False]:
        ensures(all(sam_delta(muts, old(muts), (p, op)) == (1 if sam_shows_mnp(self.gene, al, seq, p, op) else 0)
                    and (not sam_shows_mnp(self.gene, al, seq, p, op)
                         or all(sam_delta(muts, old(muts), part) == 0 for part in sam_mnp_parts(p, op)))
                    for (p, op) in sam_mnps(self.gene, functional)),
                label="mnp-once/" + ("functional" if functional else "silent"))
    # nothing else is touched: other variant keys keep their observations, existing observations are kept
    ensures(all(sam_delta(muts, old(muts), (p, op)) == 0 for (p, op) in muts
                if not (op == "-" or op[:3] == "ins" or sam_is_sub(op) or sam_is_mnp(op))), label="no-other-evidence")
    ensures(all(sam_obs(norm, p)[:len(v)] == list(v) for p, v in old(norm).items())
            and all(sam_obs(muts, k)[:len(v)] == list(v) for k, v in old(muts).items()), label="existing-kept")

    # C06: "each observation keeps its read's mapping quality and (binned) base quality"
    ensures(all(o[0] == mq for p in norm for o in sam_appended(norm, old(norm), p))
            and all(o[0] == mq for k in muts for o in sam_appended(muts, old(muts), k)), label="mapq-kept")
    if qual is not None:
        # a single aligned base: exactly its binned quality
        ensures(all(o[1] == sam_bin(qual[al[p]])
                    for p in al if p not in absorbed
                    for o in (sam_appended(norm, old(norm), p) if sam_shown(self.gene, p, seq[al[p]]) == "_"
                              else sam_appended(muts, old(muts), (p, sam_shown(self.gene, p, seq[al[p]]))))),
                label="baseq-binned")
        # several bases (insertion): between the binned qualities of its bases
        ensures(all(min(sam_bin(x) for x in qual[i:i + n]) <= o[1] <= max(sam_bin(x) for x in qual[i:i + n])
                    for r, s, i, n in ins for o in sam_appended(muts, old(muts), (r, "ins" + s))
                    if len([1 for r2, s2, i2, n2 in ins if (r2, s2) == (r, s)]) == 1), label="baseq-binned/insertion")
    # any observation: base quality within the range of the bin values
    ensures(all(0 <= o[1] <= 40 for p in norm for o in sam_appended(norm, old(norm), p))
            and all(0 <= o[1] <= 40 for k in muts for o in sam_appended(muts, old(muts), k)), label="baseq-range")

    # C06: "the per-fragment phase record states, for every catalogued variant site a fragment covers, an allele
    # that one of the fragment's reads shows there"
    shown = sam_phase_alleles(self.gene, ref_start, cigar, seq)
    before = dict(self.phases[fragment]) if fragment in self.phases else {}
    ensures(fragment in self.phases
            and all(self.phases[fragment].get(p) in shown[p] for p in self.phaseable if p in shown), label="phase")
    ensures(all(self.phases[fragment].get(p) == before.get(p)
                for p in set(self.phases[fragment]) | set(before) if p not in shown), label="phase/uncovered-kept")
    ensures(set(self.phases) == set(old(self.phases)) | {fragment}
            and all(self.phases[f] == v for f, v in old(self.phases).items() if f != fragment), label="phase/other-fragments")

    # C06: "the result does not depend on ... how a match run is split into CIGAR operations"
    this = (fragment, ref_start, cigar, seq, mq, qual)
    ensures(sam_replay(old(self), old(norm), old(muts),
                       [(fragment, ref_start, sam_canonical_cigar(cigar), seq, mq, qual)], True)
            == sam_tables(self, norm, muts, True), label="cigar-split/merged")
    ensures(sam_replay(old(self), old(norm), old(muts),
                       [(fragment, ref_start, sam_split_cigar(cigar), seq, mq, qual)], True)
            == sam_tables(self, norm, muts, True), label="cigar-split/single-bases")
    # C06: "the result does not depend on read order" (observations as multisets; phase records are compared
    # when the two reads belong to different fragments - mates may legitimately disagree)
    ensures(sam_replay(old(self), old(norm), old(muts), [this, other], False)[:2]
            == sam_replay(old(self), old(norm), old(muts), [other, this], False)[:2], label="read-order")
    if other[0] != fragment:
        ensures(sam_replay(old(self), old(norm), old(muts), [this, other], False)[2]
                == sam_replay(old(self), old(norm), old(muts), [other, this], False)[2], label="read-order/phases")
    # extent of the read on the reference
    ensures(result[0] == (ref_start, end, len(seq)), label="read-extent")
    modifies(norm, muts, self.phases)


# ----------------------------------------------------------------------------------------------------
# assembly of the coverage table (C06 "assembly of the coverage table, out-of-gene substitutions folded into
# reference" sam.py:579-608; C17: the tables are dumped AFTER the assembly, so it must not change them)

def sam_cov_count(cov, p, op):
    return len(cov._coverage[p][op]) if (p in cov._coverage and op in cov._coverage[p]) else 0


@contract("aldy.sam.Sample._make_coverage", symbolic=False)
def _(self, norm, muts):
    requires(self.profile is not None)
    lo = min(self.gene.chr_to_ref)
    hi = max(self.gene.chr_to_ref)
    ensures(sameobj(result, self.coverage), label="result-stored")
    shares(result, self, "gene", "profile")
    # depth is preserved by the assembly (insertions are not part of the depth)
    ensures(all(result.total(p) == sam_depth(old(norm), old(muts), p)
                for p in sam_positions(old(norm), old(muts)) | set(result._coverage)), label="depth-preserved")
    # inside the RefSeq-mapped part every entry keeps its observations
    ensures(all(sam_cov_count(result, p, "_") == len(sam_obs(old(norm), p))
                for p in set(old(norm)) | set(result._coverage) if lo <= p <= hi), label="inside/reference")
    ensures(all(sam_cov_count(result, p, op) == len(v)
                for (p, op), v in old(muts).items() if lo <= p <= hi and op[:3] != "ins"), label="inside/variants")
    ensures(all(sorted(sam_obs(result._coverage[p], op)) == sorted(sam_obs(old(muts), (p, op)))
                for p in result._coverage for op in result._coverage[p] if lo <= p <= hi and op != "_"),
            label="inside/observations")
    # outside, substitutions are folded into the reference entry
    ensures(all((op == "_" or op[:3] == "ins") for p in result._coverage if not lo <= p <= hi
                for op in result._coverage[p]), label="outside/folded")
    ensures(all(sam_cov_count(result, p, "_") == sam_depth(old(norm), old(muts), p)
                for p in sam_positions(old(norm), old(muts)) if not lo <= p <= hi), label="outside/reference")
    # FRAME: the caller's tables are not modified (they are written to the debug dump afterwards)
    ensures(norm == old(norm), label="norm-unchanged")
    ensures(muts == old(muts), label="muts-unchanged")
    modifies(self.coverage)


# ----------------------------------------------------------------------------------------------------
# neutral-region depth of the sample and the profile's CIGAR walk (C07)

def sam_bam_reads(path):
    """every record of the file: (contig name or None, start, cigar tuples or None, flag)"""
    pysam = __import__("pysam")
    with pysam.AlignmentFile(path) as f:
        return [(r.reference_name, r.reference_start, None if r.cigartuples is None else [tuple(x) for x in r.cigartuples],
                 r.flag) for r in f.fetch(until_eof=True)]


def sam_bam_contig(path, ch):
    """name of chromosome `ch` in the file ('chr' prefix or not)"""
    pysam = __import__("pysam")
    with pysam.AlignmentFile(path) as f:
        names = list(f.references)
    return ch if ch in names else "chr" + ch


def sam_nonzero(d):
    return {k: v for k, v in d.items() if v != 0}


@contract("aldy.sam.Sample._load_cn_region", symbolic=False)
def _(self, path, reference, cn_region):
    requires(cn_region.start <= cn_region.end)
    reads = sam_bam_reads(path)
    contig = sam_bam_contig(path, cn_region.chr)
    # C07 "neutral-region depth of the sample": per-position count = number of aligned, non-supplementary reads
    # intersecting the region ([start, end] closed, see _in_region) that span the position
    # (M,=,X,D count; I,S do not)
    eligible = [(s, c) for (name, s, c, flag) in reads
                if name == contig and c is not None and not (flag & 4) and not (flag & 2048)
                and max(s, cn_region.start) <= min(sam_ref_end(s, c), cn_region.end)]
    ensures(sam_nonzero(result) == sam_pileup(eligible), label="neutral-depth")
    ensures(sameobj(result, self._dump_cn), label="result-stored")
    ensures(typed(result, "defaultdict") and result.default_factory is int, label="uncovered-reads-as-zero")
    modifies(self._dump_cn, self._prefix)


@contract("aldy.profile.Profile.get_sam_profile_data", symbolic=False)
def _(sam_path, ref_path, regions, cn_region, genome, params):
    requires(len(regions) > 0, cn_region is not None, sam_path != "<illumina>", not params)
    requires(all(s <= e for (c, s, e) in regions.values()))
    reads = sam_bam_reads(sam_path)
    # C07 "profile generation: per-base depth summed per region and for the neutral region": every fetched read
    # (one fetch per chromosome, so every read once) counts once on each position it spans (M,=,X,D; not I,S)
    depth = {c: sam_pileup([(s, cg) for (name, s, cg, flag) in reads if name == sam_bam_contig(sam_path, c) and cg])
             for c in {r.chr for r in regions.values()} | {cn_region.chr}}
    ensures(all(result[g][r][ri] == sum(depth[c].get(i, 0) for i in range(s, e))
                for (g, r, ri), (c, s, e) in old(regions).items()), label="region-depth")
    ensures(result["neutral"]["value"] == sum(depth[cn_region.chr].get(i, 0) for i in range(cn_region.start, cn_region.end)),
            label="neutral-depth")
    ensures(result["neutral"][genome or "hg19"] == [cn_region.chr, cn_region.start, cn_region.end], label="neutral-region")
    # the function stores the neutral region in the caller's dictionary (code, not statement)
    modifies(regions)


# ----------------------------------------------------------------------------------------------------
# VCF evidence (C16)

def sam_vcf_samples(path):
    pysam = __import__("pysam")
    with pysam.VariantFile(path) as v:
        return list(v.header.samples)


def sam_vcf_records(path, sample_idx):
    """[(contig, 0-based position, REF, [ALT...], genotype tuple of the chosen sample)]"""
    pysam = __import__("pysam")
    with pysam.VariantFile(path) as v:
        s = list(v.header.samples)[sample_idx]
        return [(r.contig, r.pos - 1, r.ref, list(r.alts or []), tuple(r.samples[s]["GT"])) for r in v.fetch()]


def sam_allele_variant(gene, pos0, ref, allele, is_ref):
    """The variant an allele of a left-anchored VCF record denotes RELATIVE TO THE REFSEQ-DERIVED REFERENCE:
    (pos, '_') reference, (pos, 'R>B'), (pos, 'delXY'), (pos, 'insXY'), (pos, 'L>R') for a multi-nucleotide
    substitution ('.' where the base is unchanged), or None for any other shape."""
    k = 0
    while k < len(ref) and k < len(allele) and ref[k] == allele[k]:
        k += 1
    if is_ref or (len(ref) == 1 and len(allele) == 1):
        # the record's own REF / a single base: compare the carried base with the RefSeq-derived base
        return ((pos0, "_") if (len(ref) != 1 or allele == gene[pos0]) else (pos0, f"{gene[pos0]}>{allele}"))
    if len(ref) == len(allele):
        l = "".join(gene[pos0 + i] if ref[i] != allele[i] else "." for i in range(k, len(ref))).rstrip(".")
        r = "".join(allele[i] if ref[i] != allele[i] else "." for i in range(k, len(ref))).rstrip(".")
        return (pos0 + k, f"{l}>{r}") if len(l) > 1 else ((pos0 + k, "_") if gene[pos0 + k] == r else (pos0 + k, f"{l}>{r}"))
    if len(allele) == k and len(ref) > k:
        return (pos0 + k, "del" + gene[pos0 + k:pos0 + len(ref)])
    if len(ref) == k and len(allele) > k:
        return (pos0 + k, "ins" + allele[k:])
    return None


def sam_vcf_copies(gene, contig, records):
    """{(pos, op): number of called copies} over the diploid calls of the gene's chromosome whose alleles have a
    recognised shape (reference alleles are not listed)"""
    out = {}
    for (c, pos0, ref, alts, gt) in records:
        called = [g for g in gt if g is not None]
        if c != contig or len(called) != 2 or gene[pos0] == "N":
            continue        # "non-diploid or missing genotypes ... are ignored"; no RefSeq base to compare with
        for g in called:
            v = sam_allele_variant(gene, pos0, ref, ref if g == 0 else alts[g - 1], g == 0)
            if v is not None and v[1] != "_":
                out[v] = out.get(v, 0) + 1
    return out


def sam_kind(op):
    return ("mnp" if sam_is_mnp(op) else "substitution" if ">" in op else "insertion" if op[:3] == "ins"
            else "deletion" if op[:3] == "del" and "ins" not in op else "other")


def sam_assemble(s, norm, muts):
    """the evidence the sample hands to the callers (Sample.coverage, C16 observe_at): the tables assembled
    (on copies) by the real _make_coverage; support of a variant = coverage(Mutation)"""
    s2 = sam_clone(s)
    return s2._make_coverage({p: list(v) for p, v in norm.items()}, {k: list(v) for k, v in muts.items()})


def sam_supports(cov, gene, kind, expected):
    """every catalogued variant of the kind has exactly the expected support: expected(p, op)"""
    return all(cov.coverage(Mutation(p, op)) == expected(p, op) for (p, op) in gene.mutations if sam_kind(op) == kind)


def sam_mnp_copies(copies, p, op):
    """copies of a catalogued MNP: written as one record, or as adjacent records (every component called)"""
    return copies.get((p, op), 0) + min(copies.get(part, 0) for part in sam_mnp_parts(p, op))


@contract("aldy.sam.Sample._load_vcf", symbolic=False)
def _(self, vcf_path, sample_idx):
    requires(sample_idx >= 0)
    samples = sam_vcf_samples(vcf_path)
    raises(AldyException, when=sample_idx >= len(samples))
    records = sam_vcf_records(vcf_path, sample_idx) if sample_idx < len(samples) else []
    contig = self.gene.chr if self.gene.chr in {c for c, _, _, _, _ in records} else "chr" + self.gene.chr
    copies = sam_vcf_copies(self.gene, contig, records)
    wide = self.gene.get_wide_region()
    mnp_sites = {q for (p, op) in self.gene.mutations if sam_is_mnp(op) for q, _ in sam_mnp_parts(p, op)}
    # C16: "every diploid genotype call whose alternate allele corresponds to a catalogued variant - substitution,
    # deletion, insertion ... - gives that variant support proportional to the number of alternate copies (none, one
    # copy's worth, two copies' worth)"     [one copy's worth = 10 observations]
    for kind in ["substitution", "deletion", "insertion"]:
        ensures(all(len(sam_obs(result[1], (p, op))) == 10 * copies.get((p, op), 0)
                    for (p, op) in self.gene.mutations if sam_kind(op) == kind), label="observations/" + kind)
        ensures(sam_supports(sam_assemble(self, result[0], result[1]), self.gene, kind,
                             lambda p, op: 10 * copies.get((p, op), 0)), label="support/" + kind)
    # C16: "... or a multi-nucleotide substitution written as one record or as adjacent records"
    ensures(sam_supports(sam_assemble(self, result[0], result[1]), self.gene, "mnp",
                         lambda p, op: 10 * sam_mnp_copies(copies, p, op)), label="support/mnp")
    # C16: "and reduces the reference support at that site accordingly, sites without a record count as
    # homozygous reference"   (component sites of catalogued MNPs are left to the MNP clause)
    ensures(all(p in result[0] for p in range(wide.start, wide.end)), label="all-sites-present")
    # (an MNP-shaped allele that is not a catalogued MNP is a record "of any other shape": ignored)
    ensures(all(len(result[0][p]) == max(0, 20 - 10 * sum(n for (q, op), n in copies.items() if q == p and not sam_is_mnp(op)))
                for p in result[0] if p not in mnp_sites), label="reference-reduced")
    # C16: "records whose REF differs from the RefSeq-derived reference are re-expressed against it" is part of
    # sam_allele_variant (reference allele of a single-base record)
    # C16: "non-diploid or missing genotypes and records of any other shape are ignored without failing the run"
    # = no exception other than the one declared above; and no key without a change is stored
    ensures(all(typed(op, "str") for (_, op) in result[1]), label="no-none-key")
    ensures(all(o == (40, 40) for v in result[0].values() for o in v)
            and all(o == (40, 40) for v in result[1].values() for o in v), label="pseudo-read-quality")
    ensures(self.name == samples[sample_idx], label="sample-name")
    modifies(self.name, self._prefix)


# ----------------------------------------------------------------------------------------------------
# debug dump round trip (C17)

def sam_multisets(table):
    return {k: sorted(v) for k, v in table.items() if len(v)}


def sam_phase_sets(phases):
    """fragments with at least two sites, up to renaming of the fragments"""
    return sorted(sorted(v.items()) for v in phases.values() if len(v) > 1)


def sam_profile_params(profile):
    return {k: v for k, v in profile.__dict__.items() if k not in SAM_PROFILE_REAPPLIED}


def sam_depth_lookup(table, p):
    """what a consumer reading position p of a neutral-depth table gets (on a copy: reading may insert)"""
    t = __import__("copy").copy(table)
    try:
        return t[p]
    except KeyError:
        return "KeyError"


@contract("aldy.sam.Sample._load_dump", symbolic=False)
def _(self, dump_path, src, src_norm, src_muts):
    # `src`, `src_norm`, `src_muts` (not parameters of the function): the sample and tables from which the input
    # hook produced `dump_path` with the real `src._dump_alignments(prefix, src_norm, src_muts)`.
    # C17: "Genotyping the debug archive written for a run reproduces that run": the eight dumped fields agree.
    ensures(self.name == src.name, label="name")
    ensures(sam_profile_params(self.profile) == sam_profile_params(src.profile), label="profile")
    ensures(self._dump_cn == src._dump_cn, label="neutral-depth")
    ensures(all(sam_depth_lookup(self._dump_cn, p) == sam_depth_lookup(src._dump_cn, p)
                for k in list(src._dump_cn) + [0] for p in (k - 1, k, k + 1)), label="neutral-depth/uncovered")
    ensures(sam_multisets(result[0]) == sam_multisets(src_norm), label="reference-table")
    ensures(sam_multisets(result[1]) == sam_multisets(src_muts), label="variant-table")
    ensures(sam_phase_sets(self.phases) == sam_phase_sets(src.phases), label="phases")
    ensures(self._fusion_counter == src._fusion_counter, label="fusion-support")
    ensures(self._indel_sites == src._indel_sites, label="indel-support")
    modifies(self.name, self.profile, self._dump_cn, self.phases, self._fusion_counter, self._indel_sites)
