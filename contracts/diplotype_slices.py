# C11: the deletion-placeholder block of estimate_diplotype (slice, config.SLICES).


@contract("aldy.diplotype.estimate_diplotype@deletion-placeholders", native=False)
def _(del_allele, solution, major_dict):
    types(del_allele="Optional[str]", solution="MinorSolution", major_dict="DefaultDict[str, List[int], 'list']")
    has_del = del_allele is not None and del_allele != ""
    n = len(solution.solution)
    missing = (2 - n) if n < 2 else 0
    # C11: "a gene with a whole-gene deletion allele shows one deletion placeholder per missing copy: two for no copy, one
    # for a single copy, none otherwise" (placeholders are the index -1 under the deletion allele's name)
    ensures(implies(has_del, len(major_dict[del_allele]) == old(len(major_dict[del_allele]) if del_allele in major_dict else 0) + missing),
            label="one-placeholder-per-missing-copy")
    ensures(implies(has_del and missing >= 1, major_dict[del_allele][len(major_dict[del_allele]) - 1] == -1), label="placeholder-is-minus-one")
    ensures(forall(lambda k=str: implies(k in old(major_dict) and not (has_del and k == del_allele), k in major_dict and major_dict[k] == old(major_dict[k]))),
            label="other-alleles-untouched")
    ensures(implies(not has_del, forall(lambda k=str: (k in major_dict) == (k in old(major_dict)))), label="no-deletion-allele-no-placeholder")
    modifies(major_dict)
