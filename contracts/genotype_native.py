# Contracts for the top-level driver aldy/genotype.py (aldy.genotype.genotype) and the profile loader
# (aldy.profile.Profile.load).
#
# All contracts here are NATIVE ONLY (symbolic=False): they are executed by /verif/replay/native.py on generated
# inputs (hooks in /verif/replay/inputs_genotype.py, constructors in /verif/replay/factories_genotype.py: small
# indexed BAM files over generated mini-gene databases).  Variant-tagged keys `qualname#tag` run the real function
# `qualname` against that contract.  Spec functions are prefixed `gt_`; they are plain Python.  Relational
# properties (multi-gene vs. alone, archive replay, hg19 vs. hg38) are stated with `gt_run`, which runs the real
# driver once more on other arguments (as `sam_replay` does for the read walk).
# Properties: C19 (no data), C10 (selection), C14 (multi-gene / repetition), C17 (dump replay), C13 (builds),
# C18 (parameters through the profile loader; C07 neutral region of a written profile).
#
# Extra (non-parameter) names bound by the hooks: `scenario` (description of the generated input, unused by the
# clauses), `rec` (stage recorder), `other` (arguments of the run against the other build), `written` (what the
# profile file was written from).

GT_SLACK = 1             # "(cn_score + 1) / (min_cn_score + 1)"
GT_PRECISION = 0.01      # C10 "(plus the solution precision)"
GT_TOL = 0.0001          # scores are compared up to this (ILP objective values; aldy's own tie-breaking terms are 1e-6 each)
GT_CACHE = {}            # results of gt_run, one entry per (label, file): a case never repeats a file name


# ----------------------------------------------------------------------------------------------------
# running the driver, comparable views of its results

def gt_buffer(name):
    """in-memory output file with a name (None: no output)"""
    o = None if name is None else __import__("io").StringIO()
    if o is not None:
        o.name = name
    return o


def gt_text(f):
    return "" if f is None else (f.text() if hasattr(f, "text") else f.getvalue())


def gt_run(gene_db, sam_path, profile_name, out_name, cn_region, cn_solution, genome, is_simple, debug, params):
    """one run of the real driver: (result or None, error text or None, output text)"""
    o = gt_buffer(out_name)
    fn = __import__("aldy.genotype", fromlist=["genotype"]).genotype
    try:
        res = fn(gene_db, sam_path, profile_name, o, cn_region, None if cn_solution is None else list(cn_solution),
                 debug=debug, genome=genome, is_simple=bool(is_simple), **dict(params))
        return (res, None, gt_text(o))
    except AldyException as e:
        return (None, str(e) or "AldyException", gt_text(o))


def gt_build(path, genome):
    """the build of a run: the one asked for, else recognised by the lengths of chromosomes 1, 10 and 22 in the
    header of the alignment file (hg19 when undecided)"""
    pysam = __import__("pysam")
    with pysam.AlignmentFile(path) as f:
        lens = dict(zip(f.references, f.lengths))
    hg38 = {"1": 248956422, "10": 133797422, "22": 50818468}
    seen = [(lens[n], hg38[c]) for c in hg38 for n in (c, "chr" + c) if n in lens]
    return genome if genome else ("hg38" if seen and all(a == b for a, b in seen) else "hg19")


def gt_cached(key, thunk):
    if key not in GT_CACHE:
        GT_CACHE[key] = thunk()
    return GT_CACHE[key]


def gt_same(a, b):
    """structural equality; numbers up to GT_TOL"""
    if isinstance(a, float) or isinstance(b, float):
        return isinstance(a, (int, float)) and isinstance(b, (int, float)) and abs(a - b) <= GT_TOL
    if isinstance(a, dict):
        return isinstance(b, dict) and sorted(a) == sorted(b) and all(gt_same(a[k], b[k]) for k in a)
    if isinstance(a, (list, tuple)):
        return isinstance(b, (list, tuple)) and len(a) == len(b) and all(gt_same(x, y) for x, y in zip(a, b))
    return a == b


def gt_refseq(gene, m):
    """a variant in RefSeq terms (C13: 'when these are expressed in RefSeq terms'); variants outside the catalogue by
    their RefSeq position"""
    return gene.get_refseq(m.pos, m.op) if (m.pos, m.op) in gene.mutations else ("novel", gene.chr_to_ref.get(m.pos))


def gt_allele(gene, a):
    return (a.major, a.minor, sorted(map(str, (gt_refseq(gene, m) for m in a.added))),
            sorted(map(str, (gt_refseq(gene, m) for m in a.missing))))


def gt_structure(c):
    return (float(c.score), sorted((k, v) for k, v in c.solution.items() if v))


def gt_major(ma):
    gene = ma.cn_solution.gene
    return (sorted((gt_allele(gene, a), n) for a, n in ma.solution.items()), sorted(map(str, (gt_refseq(gene, m) for m in ma.added))))


def gt_minor(s):
    """alleles of a reported solution and its diplotype (by allele, not by index)"""
    gene = s.major_solution.cn_solution.gene
    return (sorted(gt_allele(gene, a) for a in s.solution),
            [sorted(("deletion" if i < 0 else gt_allele(gene, s.solution[i])) for i in d) for d in s.get_diplotype()])


def gt_view(result, what):
    """{database: [per reported solution ...]} for what in structures / majors / major-scores / minors / scores / all"""
    pick = {"structures": lambda s: gt_structure(s.major_solution.cn_solution),
            "majors": lambda s: gt_major(s.major_solution),
            "major-scores": lambda s: float(s.major_solution.score),
            "minors": gt_minor,
            "scores": lambda s: float(s.score),
            "all": lambda s: (gt_structure(s.major_solution.cn_solution), gt_major(s.major_solution),
                              float(s.major_solution.score), gt_minor(s), float(s.score))}[what]
    return None if result is None else {k: [pick(s) for s in v] for k, v in result.items()}


# ----------------------------------------------------------------------------------------------------
# C19  "No genotype is reported from no data"

def gt_locus_positions(gene):
    """C19: 'the gene locus (the gene and its pseudogene regions)'"""
    return {p for g in gene.regions for r in g.values() for p in range(r.start, r.end)}


def gt_gene_positions(gene):
    return {p for r in gene.regions[0].values() for p in range(r.start, r.end)}


def gt_fetched_depth(gene, path):
    """{position: depth} of the reads of the file that reach the gene's wide region (the reads the pileup of the
    sample is built from, C06): aligned, non-supplementary, on the gene's chromosome, intersecting it"""
    w = gene.get_wide_region()
    contig = sam_bam_contig(path, gene.chr)
    return sam_pileup([(s, c) for (name, s, c, flag) in sam_bam_reads(path)
                       if name == contig and c is not None and not (flag & 4) and not (flag & 2048)
                       and max(s, w.start) <= min(sam_ref_end(s, c), w.end)])


def gt_region_depth(path, region):
    """total depth over [start, end) of a region"""
    contig = sam_bam_contig(path, region.chr)
    d = sam_pileup([(s, c) for (name, s, c, flag) in sam_bam_reads(path)
                    if name == contig and c is not None and not (flag & 4) and not (flag & 2048)])
    return sum(d.get(p, 0) for p in range(region.start, region.end))


def gt_profile_region(profile_name, cn_region, genome):
    """the copy-number-neutral region of the run: -n, else the one the profile file names"""
    return cn_region if cn_region is not None else GRange(*__import__("yaml").safe_load(open(profile_name))["neutral"][genome])


def gt_empty_result_line(text, sample, gene_name):
    """C19 '(and an empty result line in simple output)': one line naming the sample and the gene, no call"""
    cols = text[:-1].split("\t") if text.endswith("\n") else None
    return cols is not None and "\n" not in text[:-1] and cols[:2] == [sample, gene_name] and all(c == "" for c in cols[2:])


def gt_is_deletion_call(gene, sols):
    """every reported solution is the whole-gene deletion on both chromosomes: structure, alleles and diplotype"""
    return len(sols) > 0 and all(
        all(gene.cn_configs[c].kind == CNConfigType.DELETION for c, n in s.major_solution.cn_solution.solution.items() if n)
        and all(gene.cn_configs[gene.alleles[a.major].cn_config].kind == CNConfigType.DELETION for a in s.solution)
        and [s.get_major_name(i) for d in s.get_diplotype() for i in d] == [gene.deletion_allele()] * 2
        for s in sols)


@contract("aldy.genotype.genotype#no-data", symbolic=False)
def _(gene_db, sam_path, profile_name, output_file, cn_region, cn_solution, genome, is_simple, params, scenario):
    build = gt_build(sam_path, genome)
    gene = Gene(gene_db, genome=build)
    depth = gt_fetched_depth(gene, sam_path)
    covered = [p for p in depth if depth[p] > 0]
    in_locus = any(depth.get(p, 0) > 0 for p in gt_locus_positions(gene))
    in_gene = any(depth.get(p, 0) > 0 for p in gt_gene_positions(gene))
    average = (sum(depth[p] for p in covered) / len(covered)) if covered else 0.0
    minimum = float(params.get("min_avg_coverage", 2.0))
    estimated = not cn_solution
    # the neutral region takes part in the run only when the structure is estimated (a user-supplied structure
    # makes genotype() build a profile without neutral region)
    region = gt_profile_region(profile_name, cn_region, build) if estimated else None
    neutral = gt_region_depth(sam_path, region) if estimated else None
    # the +0.1 smoothing of the average and the 2x minimum of the neutral depth are not part of the statement
    requires(abs(average - minimum) > 0.5, neutral is None or neutral == 0 or neutral >= 2 * (region.end - region.start))
    # C19: "When the alignments contain no reads anywhere in the gene locus (the gene and its pseudogene regions), or
    # the average depth over the covered locus is below the configured minimum, or the copy-number-neutral region is
    # empty, no star-allele call is produced: the run ends with an explanatory error for that gene ... regardless of
    # whether the gene structure is estimated or supplied by the user."
    no_data = (not in_locus) or average < minimum or (estimated and neutral == 0)
    # which of the three: neutral region empty / nothing fetched / fetched reads lie outside every gene and pseudogene
    # region (between the two) / too shallow
    cause = ("neutral-region-empty" if (estimated and neutral == 0) else "no-reads" if not covered
             else "reads-outside-regions" if not in_locus else "low-depth")
    raises(AldyException, when=no_data,
           label="no-data" + ("/user-structure/reads-outside-regions" if (cause == "reads-outside-regions" and not estimated) else ""))
    ensures(len(str(raised)) > 0, on_raise=True, label="explanatory-error")
    # "no star-allele call is produced ... (and an empty result line in simple output)"
    simple = is_simple or (output_file is not None and output_file.name.endswith(".simple"))
    sample = __import__("os").path.basename(sam_path).split(".")[0]
    ensures("*" not in gt_text(output_file), on_raise=True, label="no-star-allele-line")
    if simple:
        ensures(gt_empty_result_line(gt_text(output_file), sample, gene.name), on_raise=True,
                label="empty-simple-line/" + cause)
    else:
        ensures(gt_text(output_file) == "", on_raise=True, label="nothing-written")
    # "In particular reference or variant alleles are never reported for a locus no read covers": the raises clause
    # "while a sample whose reads cover only the pseudogene is still called as a whole-gene deletion"
    # (with a user-supplied structure: when that structure is the deletion)
    if in_locus and not in_gene and not no_data and (estimated or all(gene.cn_configs[c].kind == CNConfigType.DELETION for c in cn_solution)):
        ensures(gt_is_deletion_call(gene, result[gene_db]), label="pseudogene-only-is-deletion")
        ensures(output_file is None or not simple or "*" in gt_text(output_file), label="pseudogene-only-is-deletion/output")
    modifies(output_file)


# ----------------------------------------------------------------------------------------------------
# C10  "Reported solutions are the best candidates and are internally consistent"

def gt_order(cands):
    """'listed best first': non-decreasing int(1000 * score), ties by text; cands: (structure, major, minor, score)"""
    return sorted(cands, key=lambda x: (int(1000 * x[3]), x[2]))


def gt_round(cands):
    return [tuple(x[:-1]) + (float(x[-1]),) for x in cands]


def gt_expected_majors(rec, gap):
    """the major candidates handed on: the recorded major solutions, each carrying over the score difference of its
    structure, within the gap of the best, best first"""
    cn = dict(rec.cn)
    lo = min(cn.values())
    c = [(s, m, sc + cn[s] - lo) for (s, m, sc) in rec.major]
    best = min(x[2] for x in c)
    return sorted([x for x in c if x[2] - best - gap < GT_PRECISION], key=lambda x: (int(1000 * x[2]), x[1]))


def gt_expected_refined(rec):
    """the refined candidates: raw model score + the score difference of the major solution it was derived from"""
    best = min(sc for (_, _, sc) in rec.minor_in)
    ms = {(s, m): sc for (s, m, sc) in rec.minor_in}
    return sorted(gt_round([(s, m, mi, raw + ms[s, m] - best) for (s, m, mi, raw) in rec.minor_raw]))


def gt_expected_selection(rec, gap):
    """C10: 'exactly those refined candidates whose combined score lies within the gap (plus the solution precision)
    of the best combined score, listed best first'; combined = refined score scaled by the structure score"""
    cn = dict(rec.cn)
    lo = min(cn.values())
    c = [(s, m, mi, sc * (cn[s] + GT_SLACK) / (lo + GT_SLACK)) for (s, m, mi, sc) in rec.minor]
    best = min(x[3] for x in c)
    return gt_order([x for x in c if x[3] - best - gap < GT_PRECISION])


def gt_reported(sols):
    return [(s.major_solution.cn_solution._solution_nice(), s.major_solution._solution_nice(), s._solution_nice(), s.score)
            for s in sols]


def gt_counter(xs):
    return dict(Counter(xs))


def gt_chain_structure(gene, s):
    """'its alleles' structural configurations match its gene structure copy for copy' (a copy that is the whole-gene
    deletion may be listed as the deletion allele or left without allele)"""
    alleles = gt_counter(gene.alleles[a.major].cn_config for a in s.solution)
    structure = {c: n for c, n in s.major_solution.cn_solution.solution.items() if n}
    return (all(c in structure for c in alleles)
            and all((alleles.get(c, 0) == n) or (gene.cn_configs[c].kind == CNConfigType.DELETION and alleles.get(c, 0) == 0)
                    for c, n in structure.items()))


def gt_chain_majors(gene, s):
    """'its minor alleles refine its major alleles one to one'"""
    return (gt_counter(a.major for a in s.solution)
            == gt_counter(a.major for a, n in s.major_solution.solution.items() for _ in range(n))
            and all(a.minor in gene.alleles[a.major].minors for a in s.solution))


def gt_chain_diplotype(s):
    """'its diplotype lists each allele once' (-1 stands for a deleted copy)"""
    return sorted(i for d in s.get_diplotype() for i in d if i >= 0) == list(range(len(s.solution)))


@contract("aldy.genotype.genotype#selection", symbolic=False)
def _(gene_db, sam_path, profile_name, output_file, cn_region, cn_solution, genome, params, rec, scenario):
    gap = float(params.get("gap", 0.0))
    gene = Gene(gene_db, genome=gt_build(sam_path, genome))
    may_raise(AldyException)
    # C10: "The solutions finally reported for a gene are exactly those refined candidates whose combined score lies
    # within the gap (plus the solution precision) of the best combined score, listed best first"
    ensures(gt_same(gt_round(gt_reported(result[gene_db])), gt_round(gt_expected_selection(rec, gap))), label="selection")
    ensures(all(int(1000 * a.score) <= int(1000 * b.score) for a, b in zip(result[gene_db], result[gene_db][1:])),
            label="best-first")
    # "where a candidate's score carries over the score differences of the structure and major-allele solutions it was
    # derived from"
    ensures(gt_same(gt_round(rec.minor_in), gt_round(gt_expected_majors(rec, gap))), label="carry-over/structure-to-major")
    ensures(gt_same(sorted(gt_round(rec.minor)), gt_expected_refined(rec)), label="carry-over/major-to-refined")
    # "Every reported solution is a consistent chain: its alleles' structural configurations match its gene structure
    # copy for copy, its minor alleles refine its major alleles one to one, and its diplotype lists each allele once."
    ensures(all(gt_chain_structure(gene, s) for s in result[gene_db]), label="chain/structure")
    ensures(all(gt_chain_majors(gene, s) for s in result[gene_db]), label="chain/major-minor")
    ensures(all(gt_chain_diplotype(s) for s in result[gene_db]), label="chain/diplotype")
    ensures(list(result) == [gene_db] and len(result[gene_db]) > 0, label="reported")
    # "When no admissible solution exists at some stage, no genotype is reported and an error says so."
    ensures(bool(rec.cn) and bool(rec.major) and bool(rec.minor), label="no-report-from-an-empty-stage")
    # (an error of this well-covered input: a stage came back empty, or did not come back)
    ensures(typed(raised, "AldyException") and len(str(raised)) > 0
            and (not rec.cn or not rec.major or not rec.minor), on_raise=True, label="error-names-the-empty-stage")
    modifies(output_file, rec)


# ----------------------------------------------------------------------------------------------------
# C14  "Genotyping is deterministic, isolated ..." (driver level: alone vs. multi-gene run, failing gene, repetition)

def gt_merge(runs):
    out = {}
    for res, err, text in runs:
        out.update(res or {})
    return out


@contract("aldy.genotype.genotype#multi-gene", symbolic=False)
def _(gene_db, sam_path, profile_name, output_file, cn_region, cn_solution, genome, is_simple, params, scenario):
    names = gene_db.split(",")
    requires(len(names) > 1, gene_db == gene_db.lower())
    out_name = output_file.name
    # every gene of the list genotyped alone, with identical parameters (before the multi-gene run)
    alone = [gt_run(n, sam_path, profile_name, out_name, cn_region, cn_solution, genome, is_simple, None, params) for n in names]
    # C14: "Genotyping the same input with the same parameters gives identical results and output files ... whether a
    # gene is processed alone or as part of a multi-gene run"
    ensures(gt_same(gt_view(result, "all"), gt_view(gt_merge(alone), "all")), label="alone-vs-multi/results")
    ensures(gt_text(output_file) == "".join(text for _, _, text in alone), label="alone-vs-multi/output")
    # "a gene that cannot be genotyped (reported error) in a multi-gene run does not change the results of the others"
    ensures(sorted(result) == sorted(k for res, _, _ in alone if res for k in res), label="failing-gene/isolated")
    ensures(all(k in result and gt_same(gt_view(res, "all")[k], gt_view(result, "all")[k]) for res, _, _ in alone if res for k in res),
            label="failing-gene/others-unchanged")
    # "gives identical results and output files when repeated in the same process ... after other genes or samples
    # have been processed"
    ensures(gt_same(gt_view(gt_cached(("again", sam_path), lambda: gt_run(gene_db, sam_path, profile_name, out_name, cn_region,
                                                                       cn_solution, genome, is_simple, None, params))[0], "all"),
                    gt_view(result, "all")), label="repeated/results")
    ensures(gt_cached(("again", sam_path), lambda: gt_run(gene_db, sam_path, profile_name, out_name, cn_region,
                                                          cn_solution, genome, is_simple, None, params))[2]
            == gt_text(output_file), label="repeated/output")
    modifies(output_file)


# ----------------------------------------------------------------------------------------------------
# C17  "A debug dump replays to the same result"

def gt_archive(debug):
    """aldy/__main__.py, _genotype(): after the run  `tar czf <debug>.tar.gz -C <directory of the prefix> .`"""
    path = __import__("os").path.dirname(debug) + ".tar.gz"          # next to (not inside) the archived directory
    if not __import__("os").path.exists(path):
        __import__("subprocess").run(["tar", "czf", path, "-C", __import__("os").path.dirname(debug), "."], check=True)
    return path


def gt_archive_names(path):
    with __import__("tarfile").open(path, "r:gz") as t:
        return sorted(t.getnames())


@contract("aldy.genotype.genotype#dump-replay", symbolic=False)
def _(gene_db, sam_path, profile_name, output_file, cn_region, cn_solution, genome, is_simple, debug, params, scenario):
    requires(debug is not None)
    out_name = output_file.name
    gene_name = Gene(gene_db, genome=gt_build(sam_path, genome)).name
    sample = __import__("os").path.basename(sam_path).split(".")[0]
    may_raise(AldyException)
    # the run with the debug option leaves the dump of the gene and the genome marker
    ensures(any(n.endswith(f"{sample}.{gene_name}.dump") for n in gt_archive_names(gt_archive(debug)))
            and any(n.endswith(".genome") for n in gt_archive_names(gt_archive(debug))), label="dump-written")
    # C17: "Genotyping the debug archive written for a run reproduces that run: the same sample name, gene structures,
    # major and minor solutions, scores and output file as genotyping the original alignment file with the same
    # parameters"
    for what in ["structures", "majors", "major-scores", "minors", "scores"]:
        ensures(gt_same(gt_view(gt_cached(("replay", debug), lambda: gt_run(gene_db, gt_archive(debug), profile_name, out_name,
                                                                           cn_region, cn_solution, genome, is_simple, None,
                                                                           params))[0], what),
                        gt_view(result, what)), label="replay/" + what)
    ensures(gt_cached(("replay", debug), lambda: gt_run(gene_db, gt_archive(debug), profile_name, out_name, cn_region,
                                                        cn_solution, genome, is_simple, None, params))[2]
            == gt_text(output_file), label="replay/output")          # (the sample name is part of every output line)
    modifies(output_file)


# ----------------------------------------------------------------------------------------------------
# C13  "Calls do not depend on genome build or gene strand"

def gt_reads(path, ch):
    """[(start, cigar, sequence)] of the aligned reads of chromosome `ch`"""
    pysam = __import__("pysam")
    contig = sam_bam_contig(path, ch)
    with pysam.AlignmentFile(path) as f:
        return [(r.reference_start, [tuple(x) for x in r.cigartuples], r.query_sequence) for r in f.fetch(until_eof=True)
                if r.reference_name == contig and r.cigartuples and not r.is_unmapped]


def gt_strand_anchor(gene, path):
    """Defect class /strand-anchor of the build comparison.  The evidence of a catalogued variant that spans more than
    one base is kept at ONE genome position (multi-nucleotide substitution and multi-base deletion: the lowest position
    of the span; insertion [p, insX]: the base before it), which is the other end of the variant on the other strand.
    The reference support of the site is read at that base, so a read that shows something else than the reference on
    a base of the span without showing the complete variant (it ends inside a multi-nucleotide substitution, or has a
    mismatch / deleted base there) changes the fit on one strand only.
    True iff such a read exists (computed from the file and the catalogue only).
    Witnesses (unchanged tree, identical evidence in RefSeq terms, same solutions):
      GTB *1.002 + *5.001 + extra *2.001 (6x), phase=false: a read ends inside 34T.C>A.A -> major score 22.31 (hg38) vs 22.23;
      GTB *2.001 + *6.001, phase=false, one read with a mismatch on the first base of 11delGT -> 0.743 (hg38) vs 0.690 (hg19)."""
    spans = []
    for (p, op) in gene.mutations:
        if sam_is_mnp(op):
            spans.append((p, op, [q for q, _ in sam_mnp_parts(p, op)]))
        elif op[:3] == "del" and "ins" not in op and len(op) > 4:
            spans.append((p, op, list(range(p, p + len(op) - 3))))
        elif op[:3] == "ins":
            spans.append((p, op, [p, p + 1]))
    out = False
    for start, cigar, seq in gt_reads(path, gene.chr):
        al = sam_aligned(start, cigar)
        dels = sam_deleted(start, cigar)
        for p, op, span in spans:
            complete = (sam_shows_mnp(gene, al, seq, p, op) if sam_is_mnp(op)
                        else (all(q in dels for q in span) and (p - 1) not in dels and (span[-1] + 1) not in dels) if op[:3] == "del"
                        else False)
            if not complete and any((q in dels) or (q in al and seq[al[q]] != gene[q]) for q in span):
                out = True
    return out


def gt_contains(big, small):
    return all(any(gt_same(x, y) for y in big) for x in small)


def gt_same_solutions(a, b):
    """the same solutions (C13): every solution of one run is a solution of the other one; the order among equally
    good solutions and a solution listed twice are not compared here (C10)"""
    return (a is None and b is None) or (a is not None and b is not None and sorted(a) == sorted(b)
                                         and all(gt_contains(a[k], b[k]) and gt_contains(b[k], a[k]) for k in a))


@contract("aldy.genotype.genotype#build", symbolic=False)
def _(gene_db, sam_path, profile_name, output_file, cn_region, cn_solution, genome, params, other, scenario):
    # `other`: sam_path / profile_name / cn_region / cn_solution / genome of the SAME reads aligned against the other
    # build of the generated database (opposite strand, different offset)
    requires(other["genome"] != genome)
    phased = gt_typed(True, params.get("phase", True))
    # own label for the inputs of the defect class /strand-anchor (see gt_strand_anchor); evaluated on the '+' strand
    # build of the pair, whose catalogue the loader takes over from the database without strand conversion
    plus = [(g, p) for g, p in [(genome, sam_path), (other["genome"], other["sam_path"])] if Gene(gene_db, genome=g).strand > 0]
    partial = gt_strand_anchor(Gene(gene_db, genome=plus[0][0]), plus[0][1])
    may_raise(AldyException)
    # C13: "The same sample evidence expressed against either supported genome build - and, for a gene database that
    # maps the gene to opposite strands in two builds, against either strand - yields the same gene structures, the
    # same major and minor star-allele solutions with the same scores, and the same added/lost variants when these
    # are expressed in RefSeq terms."
    ensures(gt_same_solutions(gt_view(gt_cached(("other", sam_path), lambda: gt_run(gene_db, other["sam_path"], other["profile_name"], None,
                                                                         other["cn_region"], other["cn_solution"],
                                                                         other["genome"], False, None, params))[0], "structures"),
                    gt_view(result, "structures")), label="build/structures")
    for what in ["majors", "major-scores"]:
        ensures(gt_same_solutions(gt_view(gt_cached(("other", sam_path), lambda: gt_run(gene_db, other["sam_path"], other["profile_name"], None,
                                                                             other["cn_region"], other["cn_solution"],
                                                                             other["genome"], False, None, params))[0], what),
                        gt_view(result, what)), label="build/" + what + ("/strand-anchor" if partial else ""))
    # /several-refinements (max_minor_solutions > 1): the refinement stage lists the first k of the equally good
    # refinements of a major solution in the order its solver enumerates them, which follows genome positions, so the
    # two strands list different members of a tie.  Witness: GTA, user structure 2x*1, *1.001 + *3.001 + 0.6 x *3.002,
    # k = 2, phase=false: hg38 *(1.001 +48_49ins), *3.002 | *(1.001 +38G>T), *3.001; hg19 *(1.001 +38G>T), *3.001 |
    # *1.001, *(3.001 +38G>T); all four score 3.0242.
    several = int(params.get("max_minor_solutions", 1)) > 1
    # the refinement: with and without read phasing (own label: the phase term is keyed by genome positions)
    for what in ["minors", "scores"]:
        ensures(gt_same_solutions(gt_view(gt_cached(("other", sam_path), lambda: gt_run(gene_db, other["sam_path"], other["profile_name"], None,
                                                                             other["cn_region"], other["cn_solution"],
                                                                             other["genome"], False, None, params))[0], what),
                        gt_view(result, what)),
                label="build/" + what + ("/strand-anchor" if partial else "") + ("/phased" if phased else "")
                + ("/several-refinements" if (several and what == "minors") else ""))
    ensures(gt_cached(("other", sam_path), lambda: gt_run(gene_db, other["sam_path"], other["profile_name"], None,
                                                          other["cn_region"], other["cn_solution"], other["genome"],
                                                          False, None, params))[0] is None, on_raise=True, label="build/error")
    modifies(output_file)


# ----------------------------------------------------------------------------------------------------
# C18  "Model parameters take the values the user gave, through every route" (profile loader; C07 written profile)

def gt_typed(default, v):
    """C18: 'takes exactly the given value with the documented type: booleans accept true/false in any letter case,
    1/0 and real booleans; numbers are parsed as numbers'"""
    return ((v.lower() in ("true", "1")) if isinstance(v, str) else bool(v)) if isinstance(default, bool) \
        else type(default)(v)


def gt_param_ok(p, defaults, k, v):
    return getattr(p, k) == gt_typed(getattr(defaults, k), v) and type(getattr(p, k)) is type(getattr(defaults, k))


def gt_file_options(path):
    d = __import__("yaml").safe_load(open(path)) if path.endswith(".yml") else {}
    return dict(d.get("options") or {})


@contract("aldy.profile.Profile.load", symbolic=False)
def _(gene, profile, cn_region, params, written, scenario):
    defaults = Profile("defaults")
    known = [k for k in defaults.__dict__ if k not in ("name", "cn_region", "data", "neutral_value", "cn_solution")]
    requires(all(k in known for k in params))
    options = gt_file_options(profile)
    # C18: "Every documented model parameter set through ... the programming interface or the options section of a
    # profile file takes exactly the given value with the documented type"; an explicitly given parameter wins over
    # the profile's options section
    ensures(all(gt_param_ok(result, defaults, k, v) for k, v in params.items()), label="explicit-overrides-options")
    ensures(all(gt_param_ok(result, defaults, k, v) for k, v in options.items() if k not in params and k in known),
            label="options-applied")
    ensures(all(getattr(result, k) == getattr(defaults, k) for k in known if k not in params and k not in options),
            label="others-default")
    if written is not None:
        # "A profile written by the profile command with parameters and loaded again carries the same parameter values."
        ensures(all(gt_param_ok(result, defaults, k, v) for k, v in written["params"].items() if k not in params),
                label="round-trip/parameters")
        ensures(sorted(options) == sorted(k for k in written["params"] if k in known), label="round-trip/options-section")
        # C07 (profile file with a custom neutral region): the region the file names is the one the neutral depth was
        # summed over, so the sample is normalised over that region
        ensures(tuple(result.cn_region) == tuple(written["cn_region"]), label="round-trip/neutral-region")
        ensures(result.neutral_value == gt_region_depth(written["bam"], written["cn_region"]), label="round-trip/neutral-value")
        ensures(all(result.data[gene.name][r][gi] == gt_region_depth(written["bam"], rng)
                    for gi, g in enumerate(gene.regions) for r, rng in g.items()), label="round-trip/region-depth")
    else:
        # a BAM as profile: the given neutral region is used as is
        ensures(tuple(result.cn_region) == tuple(cn_region), label="bam/neutral-region")
        ensures(result.neutral_value == gt_region_depth(profile, cn_region), label="bam/neutral-value")
    modifies()


# ----------------------------------------------------------------------------------------------------
# C01  "A sample simulated from catalogued star-alleles is called as planted"

def gt_is_deletion(gene, config):
    return gene.cn_configs[config].kind == CNConfigType.DELETION


def gt_planted_structure(gene, planted):
    """planted: [(structure configuration, minor allele or None)] -> {configuration: copies}; the whole-gene deletion is
    a copy without a configuration of its own in the structure stage's results"""
    return gt_counter(c for c, _ in planted if not gt_is_deletion(gene, c))


def gt_major_of(gene, minor):
    return [name for name, a in gene.alleles.items() if minor in a.minors][0]


def gt_definition(gene, major, minor):
    """variants of a catalogued allele: those of its major allele and of the minor allele"""
    return sorted({(m.pos, m.op) for m in gene.alleles[major].func_muts}
                  | {(m.pos, m.op) for m in gene.alleles[major].minors[minor].neutral_muts})


def gt_planted_majors(gene, planted):
    return gt_counter(gt_major_of(gene, m) for c, m in planted if m is not None)


def gt_planted_variants(gene, planted):
    """'the variants of the simulated haplotypes', counted with multiplicity"""
    return gt_counter(v for c, m in planted if m is not None for v in gt_definition(gene, gt_major_of(gene, m), m))


def gt_called(gene, s):
    """the alleles a solution reports (a deleted copy may be listed as the deletion allele: it carries nothing)"""
    return [a for a in s.solution if not gt_is_deletion(gene, gene.alleles[a.major].cn_config)]


def gt_called_variants(gene, s):
    """variants of a reported solution with multiplicity: definition of each called minor allele + added - missing"""
    return gt_counter(v for a in gt_called(gene, s)
                      for v in (set(gt_definition(gene, a.major, a.minor)) | {(m.pos, m.op) for m in a.added})
                      - {(m.pos, m.op) for m in a.missing})


def gt_structure_of(s):
    return {c: n for c, n in s.major_solution.cn_solution.solution.items() if n}


def gt_indel_classes(gene, planted, realign, phased):
    """defect classes (label suffixes) of a planted combination that carries catalogued indels:
    /phase-record              (phase=true; the combination carries an insertion or a multi-nucleotide substitution)
                               the per-read phase record can never agree with such a catalogued variant: an insertion is
                               recorded at the NEXT reference base while the catalogue (and the realignment) place
                               [p, insX] after base p, and a multi-nucleotide substitution is recorded as its single-base
                               parts.  Every read of a carrying copy therefore contradicts that copy in the phasing term;
                               the refinement then drops the variant from a copy or prefers another major combination.
                               Witnesses: PTA hg38, 3 copies of *3.001 -> *3.001, *3.001, *(3.001 -48_49insC), score 2.5
                               (exact, score 0 with phase=false); PTA hg38 *3.002 + *7#6.001 + extra *5.001 (34G.C>T.A):
                               planted refinement 7.31 loses against *5.001, *7#1.001, *(9.001 +2 variants) 6.11
                               (0.11 vs 2.11 with phase=false).
    /neighbouring-indels       (realignment on)  one allele has two indels within 12 bp: the realignment step phases them
                               into one complex variant and its "subsumed indel" guard drops both (zero support although
                               the reads support both).  Witness: PTA hg19, *1.001 + *2.001 (11delAG, 19_20insGT), 20x per
                               copy, 25 or 50 bp reads -> reported *1.001/*1.001, score 0.
    /indels-without-realignment (indelpost=false) reads supporting an indel are also counted as not supporting it
                               (sam.py: spanning-read count without the "off - on" correction of the long-read path), so
                               an indel on 2 of 3 copies reads as 38/(57+38) = 1.2 copies.  Witness: PTA hg38,
                               *3.001 + *7#11.001 + extra *11.001 -> *1.001,*3.001,*7#11.001 | *3.001,*7#1.001,*11.001."""
    defs = [gt_definition(gene, gt_major_of(gene, m), m) for c, m in planted if m is not None]
    indels = [[(p, op) for p, op in d if op[:3] in ("ins", "del")] for d in defs]
    near = any(a < b and abs(a[0] - b[0]) <= 12 for d in indels for a in d for b in d)
    return ("/neighbouring-indels" if (realign and near) else "") + \
        ("/indels-without-realignment" if (not realign and any(indels)) else "") + \
        ("/phase-record" if (phased and any(op[:3] == "ins" or sam_is_mnp(op) for d in defs for _, op in d)) else "")


def gt_silent_mnp_class(gene, planted):
    """/silent-mnp: the combination carries a catalogued multi-nucleotide substitution that is not function-altering;
    it is never merged from its single-base observations (known finding F18), so the allele is reported without it.
    Witness: PTA, *1.002 (44GT>TC) -> *(1.002 -rs44)."""
    return "/silent-mnp" if any(sam_is_mnp(op) and not gene.is_functional((p, op)) for c, m in planted if m is not None
                                for p, op in gt_definition(gene, gt_major_of(gene, m), m)) else ""


@contract("aldy.genotype.genotype#planted", symbolic=False)
def _(gene_db, sam_path, profile_name, output_file, cn_region, genome, params, rec, planted, scenario):
    # `planted`: [(structure configuration, minor allele or None)] the error-free, uniformly deep reads were simulated from
    gene = Gene(gene_db, genome=gt_build(sam_path, genome))
    structure = gt_planted_structure(gene, planted)
    majors = gt_planted_majors(gene, planted)
    variants = gt_planted_variants(gene, planted)
    indel_class = gt_indel_classes(gene, planted, gt_typed(True, params.get("indelpost", True)),
                                   gt_typed(True, params.get("phase", True)))
    mnp_class = gt_silent_mnp_class(gene, planted)
    # C01: "genotyping its alignments reports that combination of major star-alleles among its best solutions whenever
    # the planted gene structure is an optimal explanation of the region depths"
    # (antecedent: the planted structure is among the structures the structure stage returned; gap = 0: the reported
    # solutions are the best ones)
    ensures(implies(structure in rec.cn_dicts,
                    any(gt_counter(a.major for a in gt_called(gene, s)) == majors for s in result[gene_db])),
            label="planted-majors-among-best" + indel_class)
    # "Every best solution reports alleles whose variants, counted with multiplicity, are exactly the variants of the
    # simulated haplotypes: nothing is added and nothing is lost."
    ensures(all(gt_called_variants(gene, s) == variants for s in result[gene_db] if gt_structure_of(s) == structure),
            label="variants-exact" + indel_class + mnp_class)
    # no error for a planted, adequately covered sample (no raises / may_raise clause: any exception is a violation)
    modifies(output_file, rec)
