# Contracts for aldy/solutions.py


@contract("aldy.solutions.CNSolution.position_cn")
def _(self, pos):
    types(pos="int")
    requires(cn_wf(self))
    ensures(result == copies_at(self, pos))
    ensures(result >= 0)
    modifies()


@contract("aldy.solutions.CNSolution.max_cn")
def _(self):
    ensures(result == sum(self.solution[c] for c in self.solution))
    modifies()
