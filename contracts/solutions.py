# Contracts for aldy/solutions.py


@contract("aldy.solutions.CNSolution.position_cn")
def _(self, pos):
    types(pos="int")
    requires(cn_wf(self))
    ensures(result == copies_at(self, pos))
    ensures(result >= 0)
    modifies()


@contract("aldy.solutions.CNSolution.max_cn")
def _(self):
    ensures(result == sum(self.solution[c] for c in self.solution))
    modifies()


@contract("aldy.solutions.CNSolution.__init__")
def _(self, gene, score, solution):
    types(self="CNSolution", gene="Gene", score="float", solution="List[str]")
    requires("1" in gene.cn_configs, len(gene.regions) > 0)
    requires(forall(lambda i=int: implies(0 <= i and i < len(solution), solution[i] in gene.cn_configs)))
    # every configuration has one table per gene copy of the default configuration, over the region names of regions[0]
    requires(forall(lambda c=str, g=int, r=str: implies(c in gene.cn_configs and 0 <= g and g < len(gene.cn_configs[c].cn) and r in gene.cn_configs[c].cn[g],
                                                        g < len(gene.cn_configs["1"].cn) and len(gene.regions) > 0 and r in gene.regions[0])))
    # C03: the structure is the given list as a multiset, with the given score
    ensures(self.score == score, label="score")
    ensures(forall(lambda c=str: (c in self.solution) == (sum(1 for i in range(0, len(solution)) if solution[i] == c) > 0)), label="multiset-keys")
    ensures(forall(lambda c=str: implies(c in self.solution, self.solution[c] == sum(1 for i in range(0, len(solution)) if solution[i] == c))), label="multiset-counts")
    # region copy numbers: sum over the listed configurations
    ensures(len(self.region_cn) == len(gene.cn_configs["1"].cn), label="tables")
    ensures(forall(lambda g=int, r=str: implies(0 <= g and g < len(gene.cn_configs["1"].cn) and r in gene.regions[0],
                                                r in self.region_cn[g] and self.region_cn[g][r] == sum(
                                                    (gene.cn_configs[solution[i]].cn[g][r]
                                                     if g < len(gene.cn_configs[solution[i]].cn) and r in gene.cn_configs[solution[i]].cn[g] else 0)
                                                    for i in range(0, len(solution))))), label="region-cn")
    modifies(self)
