# Contracts for slices of aldy/genotype.py (the whole function does file / pysam I/O and is outside the VC generator's
# subset; a slice is a contiguous run of its top-level statements, extracted mechanically, see config.SLICES).


def locus_avg(cov):
    """what Coverage.average_coverage() returns (its own contract, proved for C07): total depth / (positions + 0.1)"""
    return cov.average_coverage()


@contract("aldy.genotype.genotype@depth-guard", native=False,
          external={"aldy.cn.estimate_cn": "List[CNSolution]"})   # the structure stage is opaque here (its own contract: C03)
def _(kind, sample, profile, is_simple, output_file, gene, solver, debug):
    types(kind="str", sample="Sample", profile="Profile", is_simple="bool", output_file="Optional[Opaque[File]]",
          gene="Gene", solver="str", debug="Optional[str]")
    avg = sample.coverage.average_coverage()
    low = kind != "vcf" and kind != "pscan" and avg < profile.min_avg_coverage
    # C19: "When ... the average depth over the covered locus is below the configured minimum ... no star-allele call is
    # produced: the run ends with an explanatory error for that gene ... regardless of whether the gene structure is
    # estimated or supplied by the user": under `low` the slice never returns normally, raises AldyException, and the
    # structure stage is not even entered (the guard dominates the call; nothing here depends on profile.cn_solution)
    must_raise(AldyException, when=low, label="low-depth-must-raise")
    not_called("aldy.cn.estimate_cn", when=low, label="low-depth-no-structure-stage")
    # an error of the structure stage (its own low-depth guard) is passed on, not swallowed
    may_raise(AldyException)


def within_gap(score, best, gap):
    """C10: 'whose combined score lies within the gap (plus the solution precision) of the best combined score'"""
    return score - best - gap < 0.01


@contract("aldy.genotype.genotype@final-selection", native=False,
          external={"aldy.solutions.MinorSolution._solution_nice": "str"})
def _(minor_sols, profile):
    types(minor_sols="List[MinorSolution]", profile="Profile")
    returns("List[MinorSolution]")
    requires(len(minor_sols) > 0)          # the empty case raises before this slice (checked natively: genotype#selection)
    # C10: "The solutions finally reported for a gene are exactly those refined candidates whose combined score lies
    # within the gap (plus the solution precision) of the best combined score"
    ensures(all(within_gap(m.score, c.score, profile.gap) for m in result for c in minor_sols),
            label="reported-within-gap-of-best")
    # ... "exactly those": as many are reported as there are candidates within the gap of every candidate (the reported
    # list is a sub-list of the candidates by construction of the comprehension; order is not decided here)
    ensures(len(result) == sum(1 for c in minor_sols if all(within_gap(c.score, d.score, profile.gap) for d in minor_sols)),
            label="all-within-gap-reported")
    modifies()


@contract("aldy.genotype.genotype@major-selection", native=False,
          external={"aldy.solutions.MajorSolution._solution_nice": "str"})
def _(major_sols, profile):
    types(major_sols="List[MajorSolution]", profile="Profile")
    returns("List[MajorSolution]")
    requires(len(major_sols) > 0)
    # C10 mechanism "major solutions filtered to within gap of the best": the same selection one stage earlier
    ensures(all(within_gap(m.score, c.score, profile.gap) for m in result for c in major_sols),
            label="kept-within-gap-of-best")
    ensures(len(result) == sum(1 for c in major_sols if all(within_gap(c.score, d.score, profile.gap) for d in major_sols)),
            label="all-within-gap-kept")
    modifies()


def refined_candidates():
    """what the refinement stage handed back on this path (the stage itself is opaque here; its contract: C04 / C10)"""
    return call_result("aldy.minor.estimate_minor")


@contract("aldy.genotype.genotype@minor-rescale", native=False,
          external={"aldy.minor.estimate_minor": "List[MinorSolution]", "aldy.solutions.MinorSolution.get_diplotype": "Opaque[Diplotype]",
                    "aldy.solutions.MinorSolution.set_diplotype": ""})
def _(gene, sample, major_sols, solver, profile, min_cn_score, min_major_score, SLACK):
    # (min_major_score is in scope at this point of genotype() and must NOT enter the rescaling)
    types(gene="Gene", sample="Sample", major_sols="List[MajorSolution]", solver="str", profile="Profile", min_cn_score="float",
          min_major_score="float", SLACK="int")
    returns("List[MinorSolution]")
    requires(min_cn_score + SLACK != 0)
    # C10: "a candidate's score carries over the score differences of the structure ... solutions it was derived from":
    # every refined candidate handed back by the refinement stage is kept, with its score rescaled by
    # (structure score + SLACK) / (best structure score + SLACK)
    # (that no candidate is dropped - len(result) == len(refined) - needs a counting argument the sum theory lacks; the
    # total below pins the multiset of scores, and genotype#selection checks the list natively)
    ensures(sum(n.score for n in result)
            == sum(m.score * ((m.major_solution.cn_solution.score + SLACK) / (min_cn_score + SLACK)) for m in refined_candidates()),
            label="score-carry-total")
    ensures(all(any(n.score == m.score * ((m.major_solution.cn_solution.score + SLACK) / (min_cn_score + SLACK))
                    and sameobj(n.major_solution, m.major_solution) for m in refined_candidates()) for n in result),
            label="score-carry")
    modifies()


@contract("aldy.genotype.genotype@structure-carry", native=False)
def _(s, cn_sol, min_cn_score):
    types(s="MajorSolution", cn_sol="CNSolution", min_cn_score="float")
    # C10 mechanism "major solutions inherit the structure score difference": every major solution of a structure is
    # charged the distance of that structure's score from the best structure's score (one iteration of the inner loop)
    ensures(s.score == old(s.score) + cn_sol.score - min_cn_score, label="structure-score-difference-carried")
    modifies(s)
