# Small symbolic contract for C16 ("VCF genotypes are turned into matching evidence for every variant kind"):
# the nested function aldy.sam.Sample._load_vcf.get_mut, which decides which (position, change) an allele of a VCF
# record denotes. The whole reader (_load_vcf) stays under its bounded native contract in contracts/sam.py.
#
# Shapes of a standard left-anchored VCF record (C16 quantifier: "all catalogued alleles written as standard
# left-anchored VCF records (plus unrelated MNP/complex records mixed in)"), REF and ALT compared as strings:
#   substitution   same length, equal up to the last base, last base different
#   deletion       ALT is a proper prefix of REF
#   insertion      REF is a proper prefix of ALT
#   anything else  "records of any other shape are ignored"

def vcf_is_sub(ref, alt):
    return len(ref) == len(alt) and len(ref) >= 1 and ref[:len(ref) - 1] == alt[:len(ref) - 1] and ref[len(ref) - 1] != alt[len(ref) - 1]


def vcf_is_del(ref, alt):
    return len(alt) < len(ref) and ref[:len(alt)] == alt


def vcf_is_ins(ref, alt):
    return len(ref) < len(alt) and alt[:len(ref)] == ref


@contract("aldy.sam.Sample._load_vcf.get_mut")
def _(pos, ref, alt, self):
    # `self` is the closure variable of the nested function (the Sample being loaded)
    types(pos="int", ref="str", alt="str", self="Sample")
    returns("Tuple[int, Optional[str]]")
    requires(gcat_lookup_wf(self.gene))      # invariant of the loaded gene (precondition of gene[...])
    # loop 0: `while off < len(ref) and off < len(alt) and ref[off] == alt[off]: off += 1` (common prefix)
    invariant(0 <= off and off <= len(ref) and off <= len(alt) and ref[:off] == alt[:off], loop=0)
    # C16: "every diploid genotype call whose alternate allele corresponds to a catalogued variant - substitution,
    # deletion, insertion ... - gives that variant support": the variant an allele denotes is named as the
    # catalogue names it - position of the first changed base, change written against the RefSeq-derived
    # reference (gene[...]):   R>B,  del<deleted reference bases>,  ins<inserted bases>
    n = len(ref)
    # "records whose REF differs from the RefSeq-derived reference are re-expressed against it": a substitution
    # is R>B with R the RefSeq-derived base, and an allele that carries the RefSeq-derived base is the reference "_"
    ensures(implies(vcf_is_sub(ref, alt) and alt[n - 1] != self.gene[pos + n - 1],
                    result == (pos + n - 1, self.gene[pos + n - 1] + ">" + alt[n - 1])), label="substitution")
    ensures(implies(vcf_is_sub(ref, alt) and alt[n - 1] == self.gene[pos + n - 1],
                    result == (pos + n - 1, "_")), label="substitution/carries-reference-base")
    ensures(implies(vcf_is_del(ref, alt),
                    result == (pos + len(alt), "del" + self.gene[pos + len(alt):pos + n])), label="deletion")
    ensures(implies(vcf_is_ins(ref, alt),
                    result == (pos + n, "ins" + alt[n:])), label="insertion")
    # "records of any other shape are ignored without failing the run": no change is reported (None)
    ensures(implies(not vcf_is_sub(ref, alt) and not vcf_is_del(ref, alt) and not vcf_is_ins(ref, alt),
                    result == (pos, None)), label="other-shapes-ignored")
    modifies()
