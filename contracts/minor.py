# Contracts for aldy/minor.py


def region_name(gene, pos):
    return gene._region_at[pos][1]


@contract("aldy.minor.estimate_minor.default_filter_fn")
def _(cov, mut, gene, mutations, coverage, major_sol):
    # free variables of the nested function: gene, mutations, coverage, major_sol (the LAST major
    # solution of the enclosing loop - see DESIGN.md F6b)
    types(cov="Coverage", mut="Mutation", gene="Gene", mutations="Set[Mutation]", coverage="Coverage",
          major_sol="MajorSolution")
    requires(cn_wf(major_sol.cn_solution), gene_wf(gene))
    requires(cov.profile.threshold > 0, cov.profile.min_coverage >= 0, coverage.profile.cn_max > 0)
    requires(forall(lambda p=int: implies(p in gene._region_at, len(gene._region_at[p][1]) > 0)))
    considered = (mut.op == "_" or mut in mutations
                  or (mut.pos in gene._region_at
                      and (region_name(gene, mut.pos)[0] == "e"
                           or region_name(gene, mut.pos) in ["utr3", "utr5", "up"])))
    ensures(result == (considered and passes(cov, mut, coverage.profile.cn_max)
                       and (mut.op == "_" or passes(cov, mut, copies_at(major_sol.cn_solution, mut.pos) + 0.5))))
    modifies()
