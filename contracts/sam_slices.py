# C06: how Sample._make_coverage folds ONE entry of the variant table into the pile-up (slice inside its loop).


@contract("aldy.sam.Sample._make_coverage@fold-one-entry", native=False)
def _(pos, mut, cov, coverage, bounds):
    types(pos="int", mut="str", cov="List[Tuple[float, float]]", coverage="Dict[int, Dict[str, List[Tuple[float, float]]]]",
          bounds="Tuple[int, int]")
    # C06: "substitutions and deletions observed outside the reference-sequence range are folded into the reference
    # allele of their position; insertions are kept" - and the observations land in that one cell only
    target = "_" if (not (bounds[0] <= pos and pos <= bounds[1]) and mut[:3] != "ins") else mut
    ensures(pos in coverage and target in coverage[pos], label="cell-exists")
    ensures(len(coverage[pos][target]) == old(len(coverage[pos][target]) if (pos in coverage and target in coverage[pos]) else 0) + len(cov),
            label="observations-land-in-the-folded-cell")
    ensures(forall(lambda p=int, o=str: implies(p in old(coverage) and o in old(coverage[p]) and not (p == pos and o == target),
                                                p in coverage and o in coverage[p] and coverage[p][o] == old(coverage[p][o]))),
            label="other-cells-untouched")
    modifies(coverage)


# C06: what Sample._parse_read records for ONE aligned base (slice inside the M / = / X branch of its CIGAR loop).

@contract("aldy.sam.Sample._parse_read@aligned-base", native=False)
def _(self, i, start, s_start, qual, prev_q, seq, mq, norm, muts, phase, dump_arr, bin_quality):
    types(self="Sample", i="int", start="int", s_start="int", qual="Optional[List[float]]", prev_q="float", seq="str", mq="float",
          norm="DefaultDict[int, List[Tuple[float, float]], 'list']",
          muts="DefaultDict[Tuple[int, str], List[Tuple[float, float]], 'list']",
          phase="Dict[int, str]", dump_arr="List[Tuple[int, str]]", bin_quality="Callable[[float], float]")
    requires(0 <= i, 0 <= s_start, s_start + i < len(seq), qual is None or s_start + i < len(qual))
    requires(mq >= 0, prev_q >= 0, qual is None or forall(lambda j=int: implies(0 <= j and j < len(qual), qual[j] >= 0)))
    requires(gcat_lookup_wf(self.gene))
    # `bin_quality` is the nested function of _parse_read (its own contract, proved: the documented table)
    requires(forall(lambda x=float: implies(x >= 0, bin_quality(x) == sam_bin(x))))
    pos = start + i
    base = seq[s_start + i]
    q = qual[s_start + i] if (qual is not None and len(qual) > 0) else prev_q
    differs = pos in self.gene.chr_to_ref and self.gene[pos] != base
    shown = self.gene[pos] + ">" + base
    # C06: "every aligned base of an eligible read adds exactly one observation: to the substitution it shows when the
    # position lies in the reference-sequence range and the base differs from the reference, to the reference allele
    # otherwise" ...
    ensures(implies(differs, len(muts[(pos, shown)]) == old(len(muts[(pos, shown)]) if (pos, shown) in muts else 0) + 1),
            label="substitution-counted-once")
    ensures(implies(not differs, len(norm[pos]) == old(len(norm[pos]) if pos in norm else 0) + 1), label="reference-counted-once")
    ensures(implies(differs, forall(lambda p=int: implies(p in old(norm), p in norm and norm[p] == old(norm[p])))), label="substitution-not-counted-as-reference")
    # ... "with the base quality binned by the documented table"
    ensures(implies(not differs, norm[pos][len(norm[pos]) - 1][1] == bin_quality(q)), label="base-quality-binned")
    # ... "and the read's mapping quality"          KNOWN FINDING F14: the mapping quality is binned like a base quality
    ensures(implies(not differs, norm[pos][len(norm[pos]) - 1][0] == mq), label="mapping-quality-kept")
    ensures(implies(not differs, norm[pos][len(norm[pos]) - 1][0] == bin_quality(mq)), label="mapping-quality-binned-as-implemented")
    modifies(norm, muts, phase, dump_arr)


# C06 / C17: the reference-allele entry _make_coverage creates for ONE position (slice inside its first loop)

@contract("aldy.sam.Sample._make_coverage@reference-entry", native=False)
def _(pos, cov, coverage):
    types(pos="int", cov="List[Tuple[float, float]]", coverage="Dict[int, Dict[str, List[Tuple[float, float]]]]")
    # the reference observations of a covered position become the '_' entry of that position ...
    ensures(implies(len(cov) > 0, pos in coverage and "_" in coverage[pos] and coverage[pos]["_"] == cov), label="reference-observations-kept")
    # (that the entry is a COPY of the caller's list - F16 was the aliasing of the two - cannot be expressed in the
    # tree-shaped heap model: a container cell always holds its own object; the native frame clause covers it)
    ensures(implies(len(cov) == 0, forall(lambda p=int: (p in coverage) == (p in old(coverage)))), label="uncovered-position-skipped")
    modifies(coverage)
