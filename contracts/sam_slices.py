# C06: how Sample._make_coverage folds ONE entry of the variant table into the pile-up (slice inside its loop).


@contract("aldy.sam.Sample._make_coverage@fold-one-entry", native=False)
def _(pos, mut, cov, coverage, bounds):
    types(pos="int", mut="str", cov="List[Tuple[float, float]]", coverage="Dict[int, Dict[str, List[Tuple[float, float]]]]",
          bounds="Tuple[int, int]")
    # C06: "substitutions and deletions observed outside the reference-sequence range are folded into the reference
    # allele of their position; insertions are kept" - and the observations land in that one cell only
    target = "_" if (not (bounds[0] <= pos and pos <= bounds[1]) and mut[:3] != "ins") else mut
    ensures(pos in coverage and target in coverage[pos], label="cell-exists")
    ensures(len(coverage[pos][target]) == old(len(coverage[pos][target]) if (pos in coverage and target in coverage[pos]) else 0) + len(cov),
            label="observations-land-in-the-folded-cell")
    ensures(forall(lambda p=int, o=str: implies(p in old(coverage) and o in old(coverage[p]) and not (p == pos and o == target),
                                                p in coverage and o in coverage[p] and coverage[p][o] == old(coverage[p][o]))),
            label="other-cells-untouched")
    modifies(coverage)


# C06: what Sample._parse_read records for ONE aligned base (slice inside the M / = / X branch of its CIGAR loop).

@contract("aldy.sam.Sample._parse_read@aligned-base", native=False)
def _(self, i, start, s_start, qual, prev_q, seq, mq, norm, muts, phase, dump_arr, bin_quality):
    types(self="Sample", i="int", start="int", s_start="int", qual="Optional[List[float]]", prev_q="float", seq="str", mq="float",
          norm="DefaultDict[int, List[Tuple[float, float]], 'list']",
          muts="DefaultDict[Tuple[int, str], List[Tuple[float, float]], 'list']",
          phase="Dict[int, str]", dump_arr="List[Tuple[int, str]]", bin_quality="Callable[[float], float]")
    requires(0 <= i, 0 <= s_start, s_start + i < len(seq), qual is None or s_start + i < len(qual))
    requires(mq >= 0, prev_q >= 0, qual is None or forall(lambda j=int: implies(0 <= j and j < len(qual), qual[j] >= 0)))
    requires(gcat_lookup_wf(self.gene))
    # `bin_quality` is the nested function of _parse_read (its own contract, proved: the documented table)
    requires(forall(lambda x=float: implies(x >= 0, bin_quality(x) == sam_bin(x))))
    pos = start + i
    base = seq[s_start + i]
    q = qual[s_start + i] if (qual is not None and len(qual) > 0) else prev_q
    differs = pos in self.gene.chr_to_ref and self.gene[pos] != base
    shown = self.gene[pos] + ">" + base
    # C06: "every aligned base of an eligible read adds exactly one observation: to the substitution it shows when the
    # position lies in the reference-sequence range and the base differs from the reference, to the reference allele
    # otherwise" ...
    ensures(implies(differs, len(muts[(pos, shown)]) == old(len(muts[(pos, shown)]) if (pos, shown) in muts else 0) + 1),
            label="substitution-counted-once")
    ensures(implies(not differs, len(norm[pos]) == old(len(norm[pos]) if pos in norm else 0) + 1), label="reference-counted-once")
    ensures(implies(differs, forall(lambda p=int: implies(p in old(norm), p in norm and norm[p] == old(norm[p])))), label="substitution-not-counted-as-reference")
    # ... "with the base quality binned by the documented table"
    ensures(implies(not differs, norm[pos][len(norm[pos]) - 1][1] == bin_quality(q)), label="base-quality-binned")
    # ... "and the read's mapping quality"          KNOWN FINDING F14: the mapping quality is binned like a base quality
    ensures(implies(not differs, norm[pos][len(norm[pos]) - 1][0] == mq), label="mapping-quality-kept")
    ensures(implies(not differs, norm[pos][len(norm[pos]) - 1][0] == bin_quality(mq)), label="mapping-quality-binned-as-implemented")
    modifies(norm, muts, phase, dump_arr)


# C06 / C17: the reference-allele entry _make_coverage creates for ONE position (slice inside its first loop)

@contract("aldy.sam.Sample._make_coverage@reference-entry", native=False)
def _(pos, cov, coverage):
    types(pos="int", cov="List[Tuple[float, float]]", coverage="Dict[int, Dict[str, List[Tuple[float, float]]]]")
    # the reference observations of a covered position become the '_' entry of that position ...
    ensures(implies(len(cov) > 0, pos in coverage and "_" in coverage[pos] and coverage[pos]["_"] == cov), label="reference-observations-kept")
    # (that the entry is a COPY of the caller's list - F16 was the aliasing of the two - cannot be expressed in the
    # tree-shaped heap model: a container cell always holds its own object; the native frame clause covers it)
    ensures(implies(len(cov) == 0, forall(lambda p=int: (p in coverage) == (p in old(coverage)))), label="uncovered-position-skipped")
    modifies(coverage)


# C07: what Sample._load_cn_region counts for ONE CIGAR operation of an eligible read (slice inside its loops): the
# sample's depth over the copy-number-neutral region (the denominator of the normalisation) is a per-base pile-up.

@contract("aldy.sam.Sample._load_cn_region@one-cigar-op", native=False)
def _(self, op, size, start):
    types(self="Sample", op="int", size="int", start="int")
    requires(size >= 0)
    spans = op == 0 or op == 7 or op == 8 or op == 2          # M, =, X and D consume reference bases
    # C07 "neutral-region depth of the sample" (per-base depth: every reference base an alignment operation spans -
    # matches, mismatches and deleted bases - counts once; inserted / clipped bases do not)
    ensures(implies(spans, forall(lambda p=int: implies(start <= p and p < start + size,
                                                         p in self._dump_cn and self._dump_cn[p] == old(self._dump_cn[p] if p in self._dump_cn else 0) + 1))),
            label="every-spanned-base-counted-once")
    ensures(forall(lambda p=int: implies(p in old(self._dump_cn) and not (spans and start <= p and p < start + size),
                                         p in self._dump_cn and self._dump_cn[p] == old(self._dump_cn[p]))),
            label="other-positions-untouched")
    ensures(implies(not spans, forall(lambda p=int: (p in self._dump_cn) == (p in old(self._dump_cn)))), label="unaligned-bases-not-counted")
    ensures(implies(spans, result == start + size), label="cursor-advances-over-spanned-bases")
    ensures(implies(op == 1 or op == 4 or op == 5 or op == 6, result == start), label="cursor-kept-by-inserted-and-clipped-bases")
    modifies(self._dump_cn)


# C07: the same pile-up in profile generation (Profile.get_sam_profile_data, slice inside its CIGAR loop): the
# profile's region depths and neutral depth are sums of this per-base table, so sample and profile count alike.

@contract("aldy.profile.Profile.get_sam_profile_data@one-cigar-op", native=False)
def _(cov, c, op, size, start, s_start):
    types(cov="Dict[str, DefaultDict[int, int, 'int']]", c="str", op="int", size="int", start="int", s_start="int")
    # `cov` is a defaultdict of defaultdicts in the code (cov[c] always exists); the outer table is a plain map here
    requires(size >= 0, c in cov)
    spans = op == 0 or op == 7 or op == 8 or op == 2
    ensures(implies(spans, forall(lambda p=int: implies(start <= p and p < start + size,
                                                         p in cov[c] and cov[c][p] == old(cov[c][p] if p in cov[c] else 0) + 1))),
            label="every-spanned-base-counted-once")
    ensures(forall(lambda p=int: implies(p in old(cov[c]) and not (spans and start <= p and p < start + size),
                                         p in cov[c] and cov[c][p] == old(cov[c][p]))),
            label="other-positions-untouched")
    ensures(implies(not spans, forall(lambda p=int: (p in cov[c]) == (p in old(cov[c])))), label="unaligned-bases-not-counted")
    ensures(forall(lambda k=str: implies(k in old(cov) and k != c, k in cov and cov[k] == old(cov[k]))), label="other-chromosomes-untouched")
    ensures(implies(spans, result[0] == start + size), label="cursor-advances-over-spanned-bases")
    ensures(implies(op == 1 or op == 4 or op == 5 or op == 6, result[0] == start), label="cursor-kept-by-inserted-and-clipped-bases")
    modifies(cov)


# C07: "all custom copy-number-neutral regions": the region the profile is generated over - and records - is the
# one the user gave; the built-in default of the build only when none was given.

@contract("aldy.profile.Profile.get_sam_profile_data@neutral-region", native=False)
def _(gene_regions, cn_region, genome):
    types(gene_regions="Dict[Tuple[str, str, int], GRange]", cn_region="Optional[GRange]", genome="str")
    requires(genome == "hg19" or genome == "hg38")
    ensures(("neutral", "value", 0) in gene_regions, label="neutral-entry-present")
    ensures(implies(cn_region is not None, gene_regions[("neutral", "value", 0)] == cn_region), label="custom-neutral-region-used")
    ensures(implies(cn_region is None, gene_regions[("neutral", "value", 0)] == (GRange("22", 42547463, 42548249) if genome == "hg19" else GRange("22", 42151472, 42152258))),
            label="default-neutral-region-of-the-build")
    ensures(forall(lambda g=str, r=str, i=int: implies((g, r, i) in old(gene_regions) and (g, r, i) != ("neutral", "value", 0),
                                                       (g, r, i) in gene_regions and gene_regions[(g, r, i)] == old(gene_regions[(g, r, i)]))),
            label="gene-regions-untouched")
    modifies(gene_regions)


# C06: what Sample._parse_read records for ONE insertion operation of the CIGAR string (slice inside the
# `elif op == 1:` branch of its CIGAR loop).

@contract("aldy.sam.Sample._parse_read@insertion-op", native=False)
def _(self, size, start, s_start, seq, qual, mq, prev_q, norm, muts, phase, dump_arr, bin_quality):
    types(self="Sample", size="int", start="int", s_start="int", seq="str", qual="Optional[List[float]]", mq="float", prev_q="float",
          norm="DefaultDict[int, List[Tuple[float, float]], 'list']",
          muts="DefaultDict[Tuple[int, str], List[Tuple[float, float]], 'list']",
          phase="Dict[int, str]", dump_arr="List[Tuple[int, str]]", bin_quality="Callable[[float], float]")
    # htslib: an operation has a positive length and the read's sequence / qualities cover all query-consuming operations
    requires(size >= 1, 0 <= s_start, mq >= 0, prev_q >= 0, s_start + size <= len(seq), qual is None or s_start + size <= len(qual))
    # long-read indel bookkeeping (Sample._realign_indels): every equivalence points at a site with its two counters
    requires(forall(lambda p=int, o=str: implies((p, o) in self._indel_sites_eqs, self._indel_sites_eqs[(p, o)] in self._indel_sites
                                                 and len(self._indel_sites[self._indel_sites_eqs[(p, o)]]) == 2)))
    ins = (start, "ins" + seq[s_start:s_start + size])
    # C06: "soft clips and insertions consume no reference": no non-insertion observation anywhere, the reference
    # cursor stays, the read cursor moves over the inserted bases; the insertion itself is observed once
    ensures(forall(lambda p=int: implies(p in old(norm), p in norm and norm[p] == old(norm[p]))), label="no-reference-observation")
    ensures(forall(lambda p=int: (p in norm) == (p in old(norm))), label="no-reference-entry-created")
    ensures(ins in muts and len(muts[ins]) == old(len(muts[ins]) if ins in muts else 0) + 1, label="insertion-observed-once")
    ensures(forall(lambda p=int, o=str: implies((p, o) in old(muts) and (p, o) != ins, (p, o) in muts and muts[(p, o)] == old(muts[(p, o)]))),
            label="other-cells-untouched")
    ensures(result[0] == start and result[1] == s_start + size, label="cursors")
    modifies(muts, phase, dump_arr, self._indel_sites)



# C06: what Sample._parse_read records for ONE deletion operation (slice inside the `if op == 2:` branch of its CIGAR
# loop; the keyed appends of its range loop are summarised as "the cell of position p gets one more element").

@contract("aldy.sam.Sample._parse_read@deletion-op", native=False)
def _(self, size, start, s_start, mq, prev_q, norm, muts, phase, dump_arr, bin_quality):
    types(self="Sample", size="int", start="int", s_start="int", mq="float", prev_q="float",
          norm="DefaultDict[int, List[Tuple[float, float]], 'list']",
          muts="DefaultDict[Tuple[int, str], List[Tuple[float, float]], 'list']",
          phase="Dict[int, str]", dump_arr="List[Tuple[int, str]]", bin_quality="Callable[[float], float]")
    requires(size >= 1, mq >= 0, prev_q >= 0, gcat_lookup_wf(self.gene))
    # long-read indel bookkeeping (Sample._realign_indels): every equivalence points at a site with its two counters
    requires(forall(lambda p=int, o=str: implies((p, o) in self._indel_sites_eqs, self._indel_sites_eqs[(p, o)] in self._indel_sites
                                                 and len(self._indel_sites[self._indel_sites_eqs[(p, o)]]) == 2)))
    # C06: "matches, mismatches and deleted bases each count once": every deleted reference base gets exactly one
    # observation (under the deleted-base allele '-' of its position) ...
    ensures(forall(lambda p=int: implies(start <= p and p < start + size,
                                         (p, "-") in muts and len(muts[(p, "-")]) == old(len(muts[(p, "-")]) if (p, "-") in muts else 0) + 1)),
            label="every-deleted-base-counted-once")
    # ... and none is also counted as a reference base
    ensures(forall(lambda p=int: implies(p in old(norm), p in norm and norm[p] == old(norm[p]))), label="deleted-bases-not-counted-as-reference")
    ensures(forall(lambda p=int: (p in norm) == (p in old(norm))), label="no-reference-entry-created")
    ensures(forall(lambda p=int, o=str: implies((p, o) in old(muts) and not (o == "-" and start <= p and p < start + size),
                                                (p, o) in muts and muts[(p, o)] == old(muts[(p, o)]))),
            label="other-cells-untouched")
    # the reference cursor moves over the deleted bases, the read cursor does not
    ensures(result[0] == start + size and result[1] == s_start, label="cursors")
    modifies(muts, phase, dump_arr, self._indel_sites)


# C06: "soft clips ... consume no reference": ONE soft-clip operation (slice inside the `elif op == 4:` branch)

@contract("aldy.sam.Sample._parse_read@soft-clip-op", native=False)
def _(size, start, s_start, norm, muts):
    types(size="int", start="int", s_start="int",
          norm="DefaultDict[int, List[Tuple[float, float]], 'list']",
          muts="DefaultDict[Tuple[int, str], List[Tuple[float, float]], 'list']")
    ensures(result[0] == start and result[1] == s_start + size, label="cursors")
    modifies()


# C06: after the aligned bases of ONE M / = / X operation both cursors have advanced by its length (slice: the two
# statements after the per-base loop) - together with the per-base slice this is why splitting a match run into
# several operations records the same observations

@contract("aldy.sam.Sample._parse_read@match-op-cursors", native=False)
def _(size, start, s_start):
    types(size="int", start="int", s_start="int")
    ensures(result[0] == start + size and result[1] == s_start + size, label="cursors")
    modifies()
