# Class table for the abstract views of aldy's objects (parsed as a literal; never imported).
# kind "rec": immutable value record; "obj": mutable heap object; "opaque": only passed around.
# Field types are derived from the code (constructors, call sites), not from the docs.
CLASSES = {
    "Mutation": {"kind": "rec", "qualname": "aldy.gene.Mutation", "fields": {"pos": "int", "op": "str"}},
    "GRange": {"kind": "rec", "qualname": "aldy.common.GRange", "fields": {"chr": "str", "start": "int", "end": "int"}},
    "Qual": {"kind": "alias", "type": "Tuple[float, float]"},

    "Profile": {
        "kind": "obj", "qualname": "aldy.profile.Profile",
        "fields": {
            "name": "str", "cn_region": "Optional[GRange]",
            "data": "Optional[Dict[str, Dict[str, List[float]]]]",
            "gap": "float", "cn_solution": "Optional[List[str]]", "neutral_value": "float",
            "threshold": "float", "min_coverage": "float", "min_quality": "int", "min_mapq": "int",
            "phase": "bool", "sam_long_reads": "bool", "sam_mappy_preset": "str", "cn_max": "int",
            "cn_pce_penalty": "float", "cn_diff": "float", "cn_fit": "float", "cn_parsimony": "float",
            "cn_fusion_left": "float", "cn_fusion_right": "float", "major_novel": "float",
            "minor_miss": "float", "minor_add": "float", "minor_phase": "float", "minor_phase_vars": "int",
            "male": "bool", "max_minor_solutions": "int", "display_format": "bool", "debug_probe": "str",
            "debug_novel": "bool", "min_avg_coverage": "float", "vcf_sample_idx": "int", "indelpost": "bool",
        },
    },

    "CNConfig": {
        "kind": "obj", "qualname": "aldy.gene.CNConfig",
        "fields": {"cn": "List[Dict[str, int]]", "kind": "int", "alleles": "Set[str]", "description": "str"},
    },
    "MinorAllele": {
        "kind": "obj", "qualname": "aldy.gene.MinorAllele",
        "fields": {"name": "str", "alt_name": "Optional[str]", "neutral_muts": "Set[Mutation]",
                   "activity": "Optional[str]", "evidence": "Optional[str]", "pharmvar": "Optional[str]"},
    },
    "MajorAllele": {
        "kind": "obj", "qualname": "aldy.gene.MajorAllele",
        "fields": {"name": "str", "cn_config": "str", "func_muts": "Set[Mutation]", "minors": "Dict[str, MinorAllele]"},
    },
    "MutInfo": {"kind": "alias", "type": "Tuple[Optional[str], str, int, int, str]"},
    "Gene": {
        "kind": "obj", "qualname": "aldy.gene.Gene",
        "fields": {
            "name": "str", "genome": "str", "chr": "str", "strand": "int", "seq": "str",
            "chr_to_ref": "Dict[int, int]", "ref_to_chr": "Dict[int, int]",
            "pseudogenes": "List[str]", "regions": "List[Dict[str, GRange]]",
            "exons": "List[Tuple[int, int]]", "aminoacid": "str",
            "mutations": "Dict[Tuple[int, str], Tuple[str, str, int, int, str]]",
            "random_mutations": "Set[Mutation]", "do_copy_number": "bool",
            "cn_configs": "Dict[str, CNConfig]", "unique_regions": "List[str]",
            "alleles": "Dict[str, MajorAllele]", "common_tandems": "List[Tuple[str, str]]",
            "_lookup_range": "Tuple[int, int]", "_lookup_seq": "str",
            "_region_at": "Dict[int, Tuple[int, str]]", "removed": "Dict[str, str]",
        },
    },
    "Sample": {
        "kind": "obj", "qualname": "aldy.sam.Sample",
        "fields": {
            "name": "str", "gene": "Gene", "profile": "Optional[Profile]", "path": "str",
            "_dump_cn": "DefaultDict[int, int, 'int']", "_indel_sites": "Dict[Tuple[int, str], List[int]]",
            "_indel_sites_eqs": "Dict[Tuple[int, str], Tuple[int, str]]",
            "_multi_sites": "Dict[int, str]", "phaseable": "Dict[int, int]",
            "phases": "Dict[str, Dict[int, str]]", "_fusion_counter": "Dict[str, Tuple[float, float]]",
            "is_long_read": "bool", "kind": "str", "genome": "str", "coverage": "Coverage",
            "_prefix": "str",
        },
    },
    "Coverage": {
        "kind": "obj", "qualname": "aldy.coverage.Coverage",
        "fields": {
            "gene": "Gene", "profile": "Profile", "sam": "Optional[Sample]",
            "_coverage": "Dict[int, Dict[str, List[Tuple[float, float]]]]",
            "_indels": "Optional[Dict[Tuple[int, str], Tuple[float, float]]]",
            "_cnv_coverage": "DefaultDict[int, int, 'int']",
            "_region_coverage": "Dict[Tuple[int, str], float]",
        },
    },
    "CNSolution": {
        "kind": "obj", "qualname": "aldy.solutions.CNSolution",
        "fields": {"gene": "Gene", "score": "float", "solution": "Dict[str, int]", "region_cn": "List[Dict[str, int]]"},
    },
    "SolvedAllele": {
        "kind": "obj", "qualname": "aldy.solutions.SolvedAllele",
        "fields": {"gene": "Gene", "major": "str", "minor": "str", "added": "List[Mutation]", "missing": "List[Mutation]"},
    },
    "MajorSolution": {
        "kind": "obj", "qualname": "aldy.solutions.MajorSolution",
        "fields": {"score": "float", "solution": "Dict[str, int]", "cn_solution": "CNSolution", "added": "List[Mutation]"},
    },
    # value abstraction of the dictionary keys of solve_minor_model: (candidate allele, copy index). The real keys are
    # SolvedAllele dataclass objects compared structurally; the candidates handed to the model have empty added/missing
    # lists, so (major, minor) determines equality.
    "AlleleId": {"kind": "rec", "qualname": "aldy.solutions.SolvedAllele#id",
                 "fields": {"major": "str", "minor": "str", "added": "Opaque[MutList]", "missing": "Opaque[MutList]"}},
    # MajorSolution with its solution keyed by such value keys (slices of solve_minor_model only)
    "MajorSolutionK": {"kind": "obj", "qualname": "aldy.solutions.MajorSolution#keyed",
                       "fields": {"score": "float", "solution": "Dict[AlleleId, int]", "cn_solution": "CNSolution", "added": "List[Mutation]"}},
    # the two attributes of a pysam VariantRecord the bookkeeping of _load_vcf could read
    "VariantRecord": {"kind": "obj", "qualname": "pysam.VariantRecord", "fields": {"pos": "int", "ref": "str"}},
    "MinorSolution": {
        "kind": "obj", "qualname": "aldy.solutions.MinorSolution",
        "fields": {"score": "float", "solution": "List[SolvedAllele]", "major_solution": "MajorSolution", "profile": "Optional[Profile]",
                   "diplotype": "Opaque[Diplotype]"},
    },
    "CBC": {
        "kind": "obj", "qualname": "aldy.lpinterface.CBC",
        "fields": {"INF": "float", "model": "Opaque[ORSolver]", "names": "DefaultDict[str, int, 'int']",
                   "objective": "LinExpr"},
    },
    # the builtin slice(start, stop) received by Gene.__getitem__ for gene[a:b] (no step, both bounds given)
    "slice": {"kind": "rec", "fields": {"start": "int", "stop": "int"}},
    "AlignedRead": {"kind": "opaque"},
    # the four pysam.AlignedSegment attributes aldy.sam._in_region reads (reference_name is None for an
    # unaligned read; reference_end is None when the read has no CIGAR)
    "AlignedSegment": {
        "kind": "obj",
        "fields": {"reference_id": "int", "reference_name": "Optional[str]", "reference_start": "int",
                   "reference_end": "Optional[int]"},
    },
    "File": {"kind": "opaque"},
}
