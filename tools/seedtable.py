#!/usr/bin/env python3
"""Regenerate the seeded-change table in DESIGN.md (between the SEEDTABLE markers) from seeded/*/meta.json + check.json."""
import json
import os
import re

ROOT = os.path.dirname(os.path.dirname(os.path.abspath(__file__)))
rows = []
for d in sorted(os.listdir(os.path.join(ROOT, "seeded"))):
    p = os.path.join(ROOT, "seeded", d)
    try:
        meta = json.load(open(os.path.join(p, "meta.json")))
    except Exception:
        continue
    try:
        chk = json.load(open(os.path.join(p, "check.json")))
    except Exception:
        chk = {}
    what = meta.get("summary", "").split(". ")[0][:170].replace("|", "/").replace("\n", " ")
    if not chk.get("applies", True):
        verdict, by = "patch no longer applies", chk.get("note", "")
    else:
        verdict = chk.get("verdict", "not run")
        by = ""
        det = chk.get("detail") or []
        if det:
            grp = {}
            for x in det:
                grp.setdefault(x["function"].split(".")[-1], set()).add(x["obligation"].replace("post/", ""))
            by = "; ".join(f"`{fn}`: " + ", ".join(sorted(obs)[:4]) + (" …" if len(obs) > 4 else "") for fn, obs in sorted(grp.items()))[:420]
    rows.append(f"| {d} | {what} | {verdict} | {by.replace('|', '/')} |")
table = "| seed | change (first sentence of the agent's summary) | verdict of `./check <property>` | failed obligation(s) |\n|---|---|---|---|\n" + "\n".join(rows)
path = os.path.join(ROOT, "DESIGN.md")
s = open(path).read()
s2 = re.sub(r"<!-- SEEDTABLE -->.*?<!-- /SEEDTABLE -->", "<!-- SEEDTABLE -->\n" + table + "\n<!-- /SEEDTABLE -->", s, flags=re.S)
open(path, "w").write(s2)
print(len(rows), "rows")
