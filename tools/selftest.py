#!/usr/bin/env python3-vt
"""Engine self-test: deliberate property-breaking edits on a SCRATCH COPY of /repo must fail a named obligation.

usage: python3-vt tools/selftest.py [--slow]
Each mutant is applied to a fresh copy of the repository's aldy/ package (outside /repo and /verif, removed
afterwards); the function under contract is re-verified against the copy (VERIF_REPO). A mutant "survives" when every
obligation is still proved - that would mean the contract is too weak or the engine unsound. Exit 1 if any survives.
(The seeded changes under /verif/seeded are the end-to-end counterpart: tools/seedrun.sh.)"""
import os
import shutil
import subprocess
import sys
import tempfile

ROOT = os.path.dirname(os.path.dirname(os.path.abspath(__file__)))
REPO = os.environ.get("VERIF_REPO_ORIG") or os.environ.get("VERIF_REPO", "/repo")

# (file, old text, new text, function under contract, substring of an obligation that must NOT be proved)
MUTANTS = [
    ("aldy/major.py", "elif any(cov[m] <= 0 for m in a.func_muts):", "elif any(cov[m] < 0 for m in a.func_muts):",
     "aldy.major._filter_alleles", "candidates-iff-all-core-variants-supported"),
    ("aldy/major.py", "    cov = coverage.filtered(Coverage.quality_filter)\n    cov = cov.filtered(filter_fns)",
     "    cov = coverage\n    cov = cov.filtered(filter_fns)", "aldy.major._filter_alleles", "evidence-is-quality-filtered"),
    ("aldy/major.py", "    alleles = copy.deepcopy(gene.alleles)", "    alleles = gene.alleles", "aldy.major._filter_alleles", "frame/p:gene"),
    ("aldy/major.py", "            gene, coverage, cn_solution, alleles, solver, identifier, debug",
     "            gene, coverage, cn_solution, gene.alleles, solver, identifier, debug", "aldy.major.estimate_major", "pre@aldy.major.solve_major_model"),
    ("aldy/solutions.py", "        m = set(self.gene.alleles[self.major].func_muts)", "        m = self.gene.alleles[self.major].func_muts",
     "aldy.solutions.SolvedAllele.mutations", "frame/p:self"),
    ("aldy/coverage.py", "        return sz >= min_cov", "        return sz > min_cov", "aldy.coverage.Coverage.basic_filter", "post"),
    ("aldy/lpinterface.py", '            self.addConstr(res <= v, name="PROD")', "            pass", "aldy.lpinterface.Gurobi.prod", "PROD"),
    ("aldy/minor.py", '            model.addConstr(expr >= 1, name=f"CMINONE_{m.pos}_{m.op}")', '            model.addConstr(expr >= 0, name=f"CMINONE_{m.pos}_{m.op}")',
     "aldy.minor.solve_minor_model@rule-5", "family/CMINONE"),
    ("aldy/minor.py", "            if len(ma) + len(mp) > 1:", "            if len(ma) + len(mp) > 2:", "aldy.minor.solve_minor_model@rule-4", "family/CSINGLEFULL"),
    ("aldy/minor.py", "            if gene.has_coverage(a[0].major, m.pos) and m not in alleles[a]\n", "            if m not in alleles[a]\n",
     "aldy.minor.solve_minor_model@addable", "addable-iff-copies-and-not-defined"),
    ("aldy/genotype.py", "        if avg_cov < profile.min_avg_coverage:", "        if profile.cn_region and avg_cov < profile.min_avg_coverage:",
     "aldy.genotype.genotype@depth-guard", "low-depth"),
    ("aldy/genotype.py", "            if m.score - min_minor_score - profile.gap < SOLUTION_PRECISION", "            if m.score - min_minor_score - profile.gap <= SOLUTION_PRECISION",
     "aldy.genotype.genotype@final-selection", "within-gap"),
    ("aldy/gene.py", "            for i in range(rng.start, rng.end)\n", "            for i in range(rng.start, rng.end + 1)\n",
     "aldy.gene.Gene._init_regions@region-index", "indexed-iff-inside-a-region"),
    ("aldy/sam.py", 'return off + pos, f"ins{alt[off:]}"', 'return off + pos, f"ins{alt[off + 1:]}"', "aldy.sam.Sample._load_vcf.get_mut", "post/insertion"),
    ("aldy/sam.py", "                        and self.gene[start + i] != seq[s_start + i]", "                        and self.gene[start + i] == seq[s_start + i]",
     "aldy.sam.Sample._parse_read@aligned-base", "substitution-counted-once"),
    ("aldy/sam.py", '            if not bounds[0] <= pos <= bounds[1] and mut[:3] != "ins":', '            if not bounds[0] <= pos <= bounds[1] and mut[:3] == "ins":',
     "aldy.sam.Sample._make_coverage@fold-one-entry", "observations-land-in-the-folded-cell"),
    ("aldy/sam.py", "                    norm[pos] = norm[pos][:-10]", "                    norm[read.pos - 1] = norm[read.pos - 1][:-10]",
     "aldy.sam.Sample._load_vcf@genotype-copy", "ten-reference-observations-removed"),
    ("aldy/diplotype.py", "        mutations |= set(a.added)\n        mutations -= set(a.missing)", "        mutations |= set(a.missing)\n        mutations -= set(a.missing)",
     "aldy.diplotype.write_decomposition@carried-variants", "definition-plus-additions-minus-losses"),
    ("aldy/sam.py", "                    self._dump_cn,\n                    {p: Counter(q) for p, q in norm.items()},", "                    dict(self._dump_cn),\n                    {p: Counter(q) for p, q in norm.items()},",
     "aldy.sam.Sample._dump_alignments", "field-2-neutral-depth-table"),
    ("aldy/sam.py", "        self.profile.min_avg_coverage = 2.0", "        pass", "aldy.sam.Sample._load_dump@restore", "profile-run-settings-reset"),
    ("aldy/gene.py", "                        pos = pos + len(l) - 1\n", "                        pos = pos + len(l)\n",
     "aldy.gene.Gene._init_alleles.process_mutation@strand-conversion", "reverse/substitution"),
    ("aldy/gene.py", "                    if self.regions[g][rg].end - self.regions[g][rg].start <= 0:", "                    if self.regions[g][rg].end - self.regions[g][rg].start < 0:",
     "aldy.gene.Gene._init_alleles@empty-regions", "empty-regions-have-no-copies"),
    ("aldy/diplotype.py", "        elif len(solution.solution) == 1:\n            major_dict[del_allele].append(-1)", "        elif len(solution.solution) == 1:\n            pass",
     "aldy.diplotype.estimate_diplotype@deletion-placeholders", "one-placeholder-per-missing-copy"),
    ("aldy/profile.py", "        self.threshold = 0.5\n", "        self.threshold = 0.4\n", "aldy.profile.Profile.__init__", "default/threshold"),
    ("aldy/coverage.py", "            if q >= self.profile.min_quality", "            if q > self.profile.min_quality", "aldy.coverage.Coverage.quality_filter", "post"),
    ("aldy/sam.py", "                        if op in [0, 7, 8, 2]:\n                            for i in range(size):\n                                self._dump_cn[start + i] += 1",
     "                        if op in [0, 7, 8, 2]:\n                            for i in range(size - 1):\n                                self._dump_cn[start + i] += 1",
     "aldy.sam.Sample._load_cn_region@one-cigar-op", "every-spanned-base-counted-once"),
    ("aldy/profile.py", "                            if op == 2:\n                                for i in range(size):\n                                    cov[c][start + i] += 1\n                                start += size",
     "                            if op == 2:\n                                start += size",
     "aldy.profile.Profile.get_sam_profile_data@one-cigar-op", "every-spanned-base-counted-once"),
    ("aldy/profile.py", "            cn_region if cn_region else default_cn_neutral_region[genome]", "            default_cn_neutral_region[genome]",
     "aldy.profile.Profile.get_sam_profile_data@neutral-region", "custom-neutral-region-used"),
    ("aldy/lpinterface.py", "self.addConstr(self.quicksum(vv.values()) <= len(vv) - 1)", "self.addConstr(self.quicksum(vv.values()) <= len(vv))",
     "aldy.lpinterface.Gurobi.solutions@cut", "family/"),
    ("aldy/sam.py", "                muts[mut].append((bin_quality(mq), bin_quality(q)))\n                prev_q = q\n                dump_arr.append(mut)",
     "                muts[mut].append((bin_quality(mq), bin_quality(q)))\n                norm[start].append((bin_quality(mq), bin_quality(q)))\n                prev_q = q\n                dump_arr.append(mut)",
     "aldy.sam.Sample._parse_read@insertion-op", "no-reference-observation"),
    ("aldy/sam.py", '                for i in range(size):\n                    muts[start + i, "-"].append((bin_quality(mq), bin_quality(prev_q)))',
     '                for i in range(size - 1):\n                    muts[start + i, "-"].append((bin_quality(mq), bin_quality(prev_q)))',
     "aldy.sam.Sample._parse_read@deletion-op", "every-deleted-base-counted-once"),
    ("aldy/sam.py", '                    muts[start + i, "-"].append((bin_quality(mq), bin_quality(prev_q)))',
     '                    muts[start + i // 2, "-"].append((bin_quality(mq), bin_quality(prev_q)))',
     "aldy.sam.Sample._parse_read@deletion-op", "unique-appender"),
    ("aldy/sam.py", "            elif op == 4:  # Soft-clip\n                s_start += size", "            elif op == 4:  # Soft-clip\n                s_start += size\n                start += size",
     "aldy.sam.Sample._parse_read@soft-clip-op", "post/cursors"),
]
SLOW = [
    ("aldy/major.py", 'name=f"CSAT_{cnf}"', 'name=f"CSAT_{cnf}") if False else model.addConstr(expr <= cnt + 1, name=f"CSAT_{cnf}"',
     "aldy.major.solve_major_model", "family/CSAT"),
]


def run(mut, scratch):
    f, old, new, qual, expect = mut
    path = os.path.join(scratch, f)
    src = open(os.path.join(REPO, f)).read()
    if src.count(old) < 1:
        return "SKIP", f"pattern not found in {f} (code changed?)"
    open(path, "w").write(src.replace(old, new, 1))
    try:
        env = dict(os.environ, VERIF_REPO=scratch, PYTHONHASHSEED="0")
        p = subprocess.run(["python3-vt", os.path.join(ROOT, "tools", "dev.py"), qual], capture_output=True, text=True, env=env, cwd=ROOT, timeout=3600)
        bad = [l for l in p.stdout.splitlines() if ("[REF]" in l or "[???]" in l) and expect in l]
        unsup = [l for l in p.stdout.splitlines() if l.startswith("==") and ("unsupported" in l or "crash" in l)]
        if bad:
            return "CAUGHT", bad[0].strip()[:150]
        if unsup:
            return "CAUGHT", "not accepted: " + unsup[0][:150]
        return "SURVIVED", "every obligation still proved"
    finally:
        open(path, "w").write(src)


def main():
    muts = MUTANTS + (SLOW if "--slow" in sys.argv else [])
    if "--only" in sys.argv:
        only = set(sys.argv[sys.argv.index("--only") + 1].split(","))
        muts = [m for m in muts if m[3] in only]
    scratch = tempfile.mkdtemp(prefix="verif_selftest_")
    try:
        shutil.copytree(os.path.join(REPO, "aldy"), os.path.join(scratch, "aldy"), ignore=shutil.ignore_patterns("*.so", "__pycache__", "resources"))
        survived = 0
        for m in muts:
            st, msg = run(m, scratch)
            print(f"{st:9s} {m[3]:45s} {m[1][:40]!r} -> {msg}", flush=True)
            survived += st == "SURVIVED"
        print(f"SELFTEST mutants={len(muts)} survived={survived}")
        return 1 if survived else 0
    finally:
        shutil.rmtree(scratch, ignore_errors=True)


if __name__ == "__main__":
    sys.exit(main())
