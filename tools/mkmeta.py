#!/usr/bin/env python3
"""usage: mkmeta.py <seed-id>...  -- seeded/<id>/meta.json from the agent's meta_agent.json and my confirm.json"""
import json, os, sys
ROOT = os.path.dirname(os.path.dirname(os.path.abspath(__file__)))
for sid in sys.argv[1:]:
    d = os.path.join(ROOT, "seeded", sid)
    a = json.load(open(os.path.join(d, "meta_agent.json")))
    c = json.load(open(os.path.join(d, "confirm.json")))
    ok = c["demo_pristine_exit"] == 0 and c["demo_patched_exit"] != 0 and c["suite_exit"] == 0 and c["applied"] != "failed"
    json.dump({"id": sid, "property": sid.split("_")[0], "summary": a.get("summary", ""), "needs": a.get("needs", ""),
               "confirmed": {"applies": c["applied"], "demo_exit_pristine": c["demo_pristine_exit"], "demo_exit_with_change": c["demo_patched_exit"],
                             "existing_suite_with_change": c["suite"], "repo_head": c["repo_head"],
                             "how": "tools/confirm_seed.sh: fresh scratch worktree of /repo HEAD; demo on pristine tree; git apply patch.diff; demo again; full pytest suite"}},
              open(os.path.join(d, "meta.json"), "w"), indent=1)
    print(sid, "confirmed" if ok else "NOT CONFIRMED", c)
