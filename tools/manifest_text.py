# Texts for MANIFEST.json (parsed as literals by tools/mkmanifest.py).
HOOKS = {
    "guard": "ALDY_VERIF",
    "enable": "no source hooks are needed: contracts are sidecar files and the AST of /repo/aldy/*.py is re-read on every run (the guard is unused)",
    "baseline_off_cmd": "cd /repo && /venv/bin/python -m pytest -ra -q -p no:cacheprovider --timeout=900 --continue-on-collection-errors",
    "source_commits": [],
    "add_only": True,
}

TEXT = {
    "C15": {
        "category": "proof",
        "level_text": "Every obligation generated from the real source of the read-quality and threshold filters (Coverage.coverage/total/basic_filter/quality_filter and the stage filters built on them) is discharged for all evidence tables, thresholds and copy numbers: the filter results equal the specification functions written from the statement (support >= min_coverage and support*copies >= depth*threshold; exactly the observations meeting both quality thresholds are kept).",
        "level_note": "Assumes: floats are mathematical reals; z3/cvc5 and the pyvc VC generator are correct; the LP-level consequence (called alleles only use filtered evidence) rests on the C02/C04 builder contracts.",
        "design_ref": "DESIGN.md 5/C15",
    },
    "C07": {
        "category": "proof",
        "level_text": "All obligations of the depth-normalisation code (Coverage._normalize_coverage with its two summarised loops, diploid_avg_coverage, average_coverage, total) are discharged for all depth tables, profiles and region layouts: every region value equals (profile neutral depth / sample neutral depth) * region depth / (profile region depth / 2), is 0.0 where the profile has no depth, exactly the gene's regions are keys, and the call raises iff the sample's (or the profile's) neutral depth is zero. The statement's scaling laws (k-fold depth invariance, linearity in gene reads, 2.0 for the profile's own sample) are algebraic consequences of that identity. A bounded native run of the same contracts on the real code (CPython) accompanies every run.",
        "level_note": "Assumes floats are mathematical reals; the profile/neutral-region walks in profile.py and sam.py (pysam input) are not yet under contract; defaultdict(int) zero-insertion on read is outside the VC model (covered by the native frame clause).",
        "design_ref": "DESIGN.md 5/C07",
    },
    "C18": {
        "category": "proof",
        "level_text": "Profile.update is verified against a contract written from the statement for every parameter of the profile class and every dynamic type of value (None, bool, int, float, str): booleans become True for true (any case)/1/True and False for false/0/False, anything else raises; ints and floats are converted or rejected when a string does not parse; not-given parameters keep their value; the returned dictionary lists exactly the parameters that were set. The loop over the keyword dictionary is summarised by the foreach rule (one symbolic entry, unique-writer side conditions discharged). The unfixed original code is refuted by the same contract (see known_findings.json: fixed F1).",
        "level_note": "str.lower, int(str), float(str) are uninterpreted (parses_int/parses_float); the options merge in Profile.load and --param parsing in __main__ are not yet under contract; yaml is trusted.",
        "design_ref": "DESIGN.md 5/C18",
    },
    "C02": {
        "category": "other",
        "level_text": "The model builder solve_major_model is verified, for all gene databases, candidate sets, structures and evidence tables, to emit exactly the specified ILP model (ModelMajor, written from the statement): every variable family, every constraint family (copy ordering CORD, per-configuration equality CSAT, fit equations CFUNC for variants and reference sites, carried-XOR-novel COR/CXOR, one-novel-per-site CONE, novelty indicator) and the objective (absolute fit error + major_novel*[any novel] + 0.1*#novel) are proved pointwise equal to the specification by the foreach rule plus a sum-congruence prover; KeyError/ZeroDivision freedom of every look-up is discharged; the helpers prod/abssum and the accessors it relies on are verified against their own contracts. A dropped or weakened constraint changes the emitted family and fails a named obligation. Level 'other' because the read-out of the enumerated solutions and the optimality claims rest on the assumed solver contract (not a proof of the whole statement).",
        "level_note": "Assumed: CBC/OR-Tools optimality and enumeration contract (C05); variables identified by (name template, values); constraints degenerate to Python booleans are treated as linear constraints. Not decided: read-out after setObjective (bounded native check only), agreement with independent solvers.",
        "design_ref": "DESIGN.md 5/C02",
    },
}
