# Texts for MANIFEST.json (parsed as literals by tools/mkmanifest.py).
HOOKS = {
    "guard": "ALDY_VERIF",
    "enable": "no source hooks are needed: contracts are sidecar files and the AST of /repo/aldy/*.py is re-read on every run (the guard is unused)",
    "baseline_off_cmd": "cd /repo && /venv/bin/python -m pytest -ra -q -p no:cacheprovider --timeout=900 --continue-on-collection-errors",
    "source_commits": [],
    "add_only": True,
}

TEXT = {
    "C15": {
        "category": "proof",
        "level_text": "Every obligation generated from the real source of the read-quality and threshold filters (Coverage.coverage/total/basic_filter/quality_filter and the stage filters built on them) is discharged for all evidence tables, thresholds and copy numbers: the filter results equal the specification functions written from the statement (support >= min_coverage and support*copies >= depth*threshold; exactly the observations meeting both quality thresholds are kept).",
        "level_note": "Assumes: floats are mathematical reals; z3/cvc5 and the pyvc VC generator are correct; the LP-level consequence (called alleles only use filtered evidence) rests on the C02/C04 builder contracts.",
        "design_ref": "DESIGN.md 5/C15",
    },
}
