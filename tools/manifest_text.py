# Texts for MANIFEST.json (parsed as literals by tools/mkmanifest.py).
HOOKS = {
    "guard": "ALDY_VERIF",
    "enable": "no source hooks are needed: contracts are sidecar files and the AST of /repo/aldy/*.py is re-read on every run (the guard is unused)",
    "baseline_off_cmd": "cd /repo && /venv/bin/python -m pytest -ra -q -p no:cacheprovider --timeout=900 --continue-on-collection-errors",
    "source_commits": [],
    "add_only": True,
}

TEXT = {
    "C15": {
        "category": "proof",
        "level_text": "Every obligation generated from the real source of the read-quality and threshold filters (Coverage.coverage/total/basic_filter/quality_filter and the stage filters built on them) is discharged for all evidence tables, thresholds and copy numbers: the filter results equal the specification functions written from the statement (support >= min_coverage and support*copies >= depth*threshold; exactly the observations meeting both quality thresholds are kept).",
        "level_note": "Assumes: floats are mathematical reals; z3/cvc5 and the pyvc VC generator are correct; the LP-level consequence (called alleles only use filtered evidence) rests on the C02/C04 builder contracts.",
        "design_ref": "DESIGN.md 5/C15",
    },
    "C07": {
        "category": "proof",
        "level_text": "All obligations of the depth-normalisation code (Coverage._normalize_coverage with its two summarised loops, diploid_avg_coverage, average_coverage, total) are discharged for all depth tables, profiles and region layouts: every region value equals (profile neutral depth / sample neutral depth) * region depth / (profile region depth / 2), is 0.0 where the profile has no depth, exactly the gene's regions are keys, and the call raises iff the sample's (or the profile's) neutral depth is zero. The statement's scaling laws (k-fold depth invariance, linearity in gene reads, 2.0 for the profile's own sample) are algebraic consequences of that identity. A bounded native run of the same contracts on the real code (CPython) accompanies every run.",
        "level_note": "Assumes floats are mathematical reals; the profile/neutral-region walks in profile.py and sam.py (pysam input) are not yet under contract; defaultdict(int) zero-insertion on read is outside the VC model (covered by the native frame clause).",
        "design_ref": "DESIGN.md 5/C07",
    },
    "C18": {
        "category": "proof",
        "level_text": "Profile.update is verified against a contract written from the statement for every parameter of the profile class and every dynamic type of value (None, bool, int, float, str): booleans become True for true (any case)/1/True and False for false/0/False, anything else raises; ints and floats are converted or rejected when a string does not parse; not-given parameters keep their value; the returned dictionary lists exactly the parameters that were set. The loop over the keyword dictionary is summarised by the foreach rule (one symbolic entry, unique-writer side conditions discharged). The unfixed original code is refuted by the same contract (see known_findings.json: fixed F1).",
        "level_note": "str.lower, int(str), float(str) are uninterpreted (parses_int/parses_float); the options merge in Profile.load and --param parsing in __main__ are not yet under contract; yaml is trusted.",
        "design_ref": "DESIGN.md 5/C18",
    },
    "C02": {
        "category": "other",
        "level_text": "The model builder solve_major_model is verified, for all gene databases, candidate sets, structures and evidence tables, to emit exactly the specified ILP model (ModelMajor, written from the statement): every variable family, every constraint family (copy ordering CORD, per-configuration equality CSAT, fit equations CFUNC for variants and reference sites, carried-XOR-novel COR/CXOR, one-novel-per-site CONE, novelty indicator) and the objective (absolute fit error + major_novel*[any novel] + 0.1*#novel) are proved pointwise equal to the specification by the foreach rule plus a sum-congruence prover; KeyError/ZeroDivision freedom of every look-up is discharged; the helpers prod/abssum and the accessors it relies on are verified against their own contracts. A dropped or weakened constraint changes the emitted family and fails a named obligation. Level 'other' because the read-out of the enumerated solutions and the optimality claims rest on the assumed solver contract (not a proof of the whole statement).",
        "level_note": "Assumed: CBC/OR-Tools optimality and enumeration contract (C05); variables identified by (name template, values); constraints degenerate to Python booleans are treated as linear constraints. Not decided: read-out after setObjective (bounded native check only), agreement with independent solvers.",
        "design_ref": "DESIGN.md 5/C02",
    },
    "C03": {
        "category": "other",
        "level_text": "estimate_cn's dispatch (user-supplied structure used verbatim, unknown names rejected, two default copies / one for a male X/Y gene when copy-number calling is unavailable), _parse_user_solution and CNSolution.__init__ (structure = the given list as a multiset, region copy numbers = sum over the listed configurations) are proved for all inputs by VC generation (three nested summarised loops, Counter as a finite sum). The structure model solve_cn_model is not yet under contract in this round, hence level 'other'.",
        "level_note": 'Assumed: solver contract. Not decided: the ILP builder and read-out of solve_cn_model; the VCF branch of genotype().',
        "technique": "sidecar contracts on the real functions; bounded native contract checking (CPython) as stand-in where no VC is generated yet; VC generation + z3 for the accessor functions listed in the evidence",
        "design_ref": "DESIGN.md 5/C03",
    },
    "C06": {
        "category": "other",
        "level_text": '_parse_read, bin_quality, _in_region and _make_coverage carry contracts transcribed from the statement (depth +1 per spanned reference position, substitution/reference counts, MNP merging, qualities, phase record, CIGAR-split and read-order independence, eligibility interval test, folding of out-of-range substitutions, frame of norm/muts). The contracts are written from the statement; in this round they are NOT discharged deductively but executed natively on generated inputs against the real code (bounded stand-in, labelled as such, never counted as proved); every run reports the number of cases and replays failing inputs.',
        "level_note": 'pysam/htslib trusted; two clauses fail on the unchanged tree and are recorded as known findings (F14 mapping quality binned, F18 silent MNPs not merged).',
        "technique": "sidecar contracts on the real functions; bounded native contract checking (CPython) as stand-in where no VC is generated yet; VC generation + z3 for the accessor functions listed in the evidence",
        "design_ref": "DESIGN.md 5/C06",
    },
    "C08": {
        "category": "other",
        "level_text": 'Gene.__init__ (maps inverse, genome-oriented reference, per-kind haplotype equality of loaded vs written variants on both strands, reference alleles, RefSeq notation), get_refseq, _reverse_op, __getitem__ carry contracts from the statement, run over generated consistent databases (both strands, alignment gaps, all variant kinds) and all 38 shipped databases x 2 builds. The contracts are written from the statement; in this round they are NOT discharged deductively but executed natively on generated inputs against the real code (bounded stand-in, labelled as such, never counted as proved); every run reports the number of cases and replays failing inputs.',
        "level_note": 'yaml trusted; variants straddling an alignment gap are outside the antecedent; F17 (_reverse_op on delins) was found by this check and fixed.',
        "technique": "sidecar contracts on the real functions; bounded native contract checking (CPython) as stand-in where no VC is generated yet; VC generation + z3 for the accessor functions listed in the evidence",
        "design_ref": "DESIGN.md 5/C08",
    },
    "C09": {
        "category": "other",
        "level_text": 'Gene.__init__ (reachability, one major per allele, distinct (structure, core) keys, functional/silent split, distinct minors, existing configurations, partial alleles = retained variants, build independence) and get_allele are checked natively on generated and shipped databases; the look-up accessors region_at, has_coverage, deletion_allele are proved by VC generation. The contracts are written from the statement; in this round they are NOT discharged deductively but executed natively on generated inputs against the real code (bounded stand-in, labelled as such, never counted as proved); every run reports the number of cases and replays failing inputs.',
        "level_note": 'Known findings F20 (partial duplicates a database allele), F10 (opposite-strand builds), F21 (UGT1A1 data).',
        "technique": "sidecar contracts on the real functions; bounded native contract checking (CPython) as stand-in where no VC is generated yet; VC generation + z3 for the accessor functions listed in the evidence",
        "design_ref": "DESIGN.md 5/C09",
    },
    "C11": {
        "category": "other",
        "level_text": 'estimate_diplotype, get_major_name and get_major_diplotype carry contracts from the statement (every copy once, both haplotypes non-empty, deletion placeholders, names, tandem adjacency, natural order, order independence for <= 2 copies). The contracts are written from the statement; in this round they are NOT discharged deductively but executed natively on generated inputs against the real code (bounded stand-in, labelled as such, never counted as proved); every run reports the number of cases and replays failing inputs.',
        "level_note": 'natsort trusted.',
        "technique": "sidecar contracts on the real functions; bounded native contract checking (CPython) as stand-in where no VC is generated yet; VC generation + z3 for the accessor functions listed in the evidence",
        "design_ref": "DESIGN.md 5/C11",
    },
    "C12": {
        "category": "other",
        "level_text": 'write_decomposition and write_vcf carry contracts whose spec functions parse the written text back and compare it with the reported solutions (rows = definition + added - missing; GT/MA/MI per solution and copy; POS; REF/ALT). The contracts are written from the statement; in this round they are NOT discharged deductively but executed natively on generated inputs against the real code (bounded stand-in, labelled as such, never counted as proved); every run reports the number of cases and replays failing inputs.',
        "level_note": "Five clauses of write_vcf fail on the unchanged tree and are recorded as known findings F3a-F3e (shared genotype table, missing ignored, indel/complex REF-ALT, ':' in allele names).",
        "technique": "sidecar contracts on the real functions; bounded native contract checking (CPython) as stand-in where no VC is generated yet; VC generation + z3 for the accessor functions listed in the evidence",
        "design_ref": "DESIGN.md 5/C12",
    },
    "C14": {
        "category": "other",
        "level_text": 'Frame conditions (modifies() = nothing reachable from the gene database or the evidence changes) are PROVED by VC generation for the coverage, gene and structure accessors and for Coverage.filtered (fresh object, receiver untouched), and checked natively for the solution accessors, estimate_diplotype and write_decomposition. F2 (SolvedAllele.mutations updated the catalogue in place) was found by the frame clause and fixed.',
        "level_note": 'Not decided: process-level determinism (fresh process, hash seed, multi-gene runs), candidate isolation in estimate_minor (F6), CBC determinism.',
        "technique": "sidecar contracts on the real functions; bounded native contract checking (CPython) as stand-in where no VC is generated yet; VC generation + z3 for the accessor functions listed in the evidence",
        "design_ref": "DESIGN.md 5/C14",
    },
    "C16": {
        "category": "other",
        "level_text": 'Sample._load_vcf (including the nested get_mut) carries a contract from the statement: k alternate copies add 10k observations to the catalogued variant and remove 10k reference observations at its site, other shapes and non-diploid genotypes are ignored without failing, no key with an undefined change is stored. The contracts are written from the statement; in this round they are NOT discharged deductively but executed natively on generated inputs against the real code (bounded stand-in, labelled as such, never counted as proved); every run reports the number of cases and replays failing inputs. Inputs are small indexed VCF files written with pysam.',
        "level_note": 'pysam trusted; F5a (None key aborts the run) found and fixed; F5b (insertion support lost) and F15 (MNP never supported) are known findings.',
        "technique": "sidecar contracts on the real functions; bounded native contract checking (CPython) as stand-in where no VC is generated yet; VC generation + z3 for the accessor functions listed in the evidence",
        "design_ref": "DESIGN.md 5/C16",
    },
    "C17": {
        "category": "other",
        "level_text": 'The dump round trip (_dump_alignments then _load_dump into a second Sample) must reproduce the eight dumped fields (observations as multisets, phases up to renaming), and _make_coverage must not modify the lists it is given (the dump is written from them afterwards). The contracts are written from the statement; in this round they are NOT discharged deductively but executed natively on generated inputs against the real code (bounded stand-in, labelled as such, never counted as proved); every run reports the number of cases and replays failing inputs.',
        "level_note": "pickle/gzip/tar trusted; F16 (in-place extension of the caller's lists) found by the frame clause and fixed. Not decided: equality of output files of the replayed run.",
        "technique": "sidecar contracts on the real functions; bounded native contract checking (CPython) as stand-in where no VC is generated yet; VC generation + z3 for the accessor functions listed in the evidence",
        "design_ref": "DESIGN.md 5/C17",
    },
}
