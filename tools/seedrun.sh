#!/bin/sh
# usage: seedrun.sh <seed-id>... | all     -- apply each seeded change to /repo, run the check of its
# property (quick tier), undo the change straight afterwards, and record the outcome in
# /verif/seeded/<id>/check.json. Never leaves /repo modified.
cd /verif || exit 2
ids="$*"
[ "$ids" = "all" ] && ids=$(ls seeded)
trap 'git -C /repo checkout -- . 2>/dev/null' EXIT INT TERM
for id in $ids; do
  d="seeded/$id"
  [ -f "$d/patch.diff" ] || continue
  pid=$(echo "$id" | cut -d_ -f1)
  if ! git -C /repo diff --quiet; then echo "/repo is dirty, refusing"; exit 2; fi
  if ! git -C /repo apply "/verif/$d/patch.diff" 2>/dev/null; then
    note=$(cat "$d/not_applicable_note.txt" 2>/dev/null | tr -d '"')
    echo "{\"id\":\"$id\",\"applies\":false,\"note\":\"$note\"}" > "$d/check.json"; echo "$id: patch does not apply"; continue
  fi
  VERIF_EVIDENCE_DIR=/tmp/seed_evidence ./check "$pid" --tier quick > /tmp/seedrun_out.txt 2>&1
  code=$?
  git -C /repo checkout -- .
  python3 - "$id" "$pid" "$code" "$d" <<'PY'
import json, re, subprocess, sys
sid, pid, code, d = sys.argv[1:5]
out = [l for l in open("/tmp/seedrun_out.txt").read().splitlines() if "WARNING conda" not in l]
viol = [l for l in out if l.startswith("VIOLATION")]
verdict = "violation" if viol else ("error" if any(l.startswith("CHECKER-ERROR") for l in out) else ("undecided" if any(l.startswith("UNDECIDED") for l in out) else "held"))
detail = []
for l in viol:
    m = re.search(r"replay=(\S+)", l)
    try:
        r = json.load(open(m.group(1)))
        detail.append({"function": r.get("function"), "obligation": r.get("obligation"), "reproduced": r.get("reproduced"),
                       "no_failing_input": l.rstrip().endswith("no-failing-input-found")})
    except Exception:
        pass
head = lambda p: subprocess.run(["git", "-C", p, "rev-parse", "--short", "HEAD"], capture_output=True, text=True).stdout.strip()
json.dump({"id": sid, "property": pid, "applies": True, "verdict": verdict, "exit_code": int(code),
           "lines": [l[:300] for l in out if l.startswith(("VIOLATION", "UNDECIDED", "CHECKER-ERROR"))][:6],
           "detail": detail[:12], "repo_head": head("/repo"), "verif_head": head("/verif")}, open(f"{d}/check.json", "w"), indent=1)
print(f"{sid}: {verdict} (exit {code})")
PY
done
