#!/bin/sh
# usage: seedrun.sh <seed-id>... | all     -- apply each seeded change to /repo, run the check of its
# property (quick tier), undo the change straight afterwards, and record the outcome in
# /verif/seeded/<id>/check.json. Never leaves /repo modified.
cd /verif || exit 2
ids="$*"
[ "$ids" = "all" ] && ids=$(ls seeded)
trap 'git -C /repo checkout -- . 2>/dev/null' EXIT INT TERM
for id in $ids; do
  d="seeded/$id"
  [ -f "$d/patch.diff" ] || continue
  pid=$(echo "$id" | cut -d_ -f1)
  if ! git -C /repo diff --quiet; then echo "/repo is dirty, refusing"; exit 2; fi
  if ! git -C /repo apply "/verif/$d/patch.diff" 2>/dev/null; then
    echo "{\"id\":\"$id\",\"applies\":false}" > "$d/check.json"; echo "$id: patch does not apply"; continue
  fi
  out=$(VERIF_EVIDENCE_DIR=/tmp/seed_evidence ./check "$pid" --tier quick 2>&1 | grep -v WARNING); code=$?
  # exit code of ./check is lost through the pipe: recompute from the output
  if echo "$out" | grep -q "^VIOLATION"; then verdict=violation; elif echo "$out" | grep -q "^CHECKER-ERROR"; then verdict=error; elif echo "$out" | grep -q "^UNDECIDED"; then verdict=undecided; else verdict=held; fi
  git -C /repo checkout -- .
  first=$(echo "$out" | grep -E "^(VIOLATION|UNDECIDED|CHECKER-ERROR)" | head -3 | tr '\n' ';' | tr -d '"' | cut -c1-600)
  printf '{"id":"%s","property":"%s","applies":true,"verdict":"%s","lines":"%s","repo_head":"%s","verif_head":"%s"}\n' \
     "$id" "$pid" "$verdict" "$first" "$(git -C /repo rev-parse --short HEAD)" "$(git -C /verif rev-parse --short HEAD)" > "$d/check.json"
  echo "$id: $verdict"
done
