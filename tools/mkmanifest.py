#!/usr/bin/env python3
"""Regenerate MANIFEST.json from contracts/config.py (PLAN) and tools/manifest_text.py."""
import ast
import json
import os

ROOT = os.path.dirname(os.path.dirname(os.path.abspath(__file__)))


def lit(path, name):
    tree = ast.parse(open(path).read())
    for n in tree.body:
        if isinstance(n, ast.Assign) and n.targets[0].id == name:
            return ast.literal_eval(n.value)
    return None


plan = lit(os.path.join(ROOT, "contracts", "config.py"), "PLAN")
text = lit(os.path.join(ROOT, "tools", "manifest_text.py"), "TEXT")
hooks = lit(os.path.join(ROOT, "tools", "manifest_text.py"), "HOOKS")
props = [json.loads(l) for l in open(os.path.join(ROOT, "properties.jsonl"))]

checks, na = [], []
for p in props:
    pid = p["id"]
    t = text.get(pid, {})
    if pid in plan and not t.get("not_applicable"):
        checks.append({
            "property_id": pid,
            "quick_cmd": f"./check {pid} --tier quick",
            "thorough_cmd": f"./check {pid} --tier thorough",
            "evidence_file": f"/verif/evidence/{pid}.json",
            "replay_cmd_template": f"./check {pid} --replay {{path}}",
            "engine": "pyvc",
            "level_claimed": {"category": t.get("category", "other"), "text": t["level_text"], "design_ref": t.get("design_ref", "DESIGN.md section 5")},
            "level_note": t["level_note"],
            "technique": t.get("technique", "contract-based deductive verification: VCs generated from the real Python AST (sidecar contracts), discharged by z3/cvc5"),
        })
    else:
        na.append({"property_id": pid, "reason": t.get("not_applicable", "check not built yet in this round (work in progress, see DESIGN.md section 8)")})

m = {
    "version": 1,
    "setup_cmd": "true",
    "hooks": hooks,
    "engines": [{"name": "pyvc", "path": "/verif/pyvc", "serves_properties": [c["property_id"] for c in checks],
                 "kind_free_text": "own VC generator over the Python ast of /repo/aldy/*.py (re-read on every run) + sidecar contracts in /verif/contracts; z3 5.1 / cvc5 / z3 4.8 back ends; native replay under /venv/bin/python"}],
    "checks": checks,
    "not_applicable": na,
    "notes": "Exit codes of ./check: 0 held, 1 VIOLATION, 2 UNDECIDED (solver unknown / unsupported syntax / contract no longer matches the code), 3 checker error. See DESIGN.md.",
}
with open(os.path.join(ROOT, "MANIFEST.json"), "w") as f:
    json.dump(m, f, indent=1)
print("checks:", [c["property_id"] for c in checks])
