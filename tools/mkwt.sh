#!/bin/sh
# usage: mkwt.sh <dir>   -- scratch worktree of /repo HEAD with the compiled indelpost modules copied in
set -e
d="$1"
git -C /repo worktree add -q --detach "$d" HEAD
cp /repo/aldy/indelpost/*.so "$d/aldy/indelpost/" 2>/dev/null || true
echo "$d"
