#!/usr/bin/env python3-vt
"""Unit test of the one-point sum rule P (pyvc/bigsum.py one_point / prove_with_congruence): it must prove a sum whose
guard pins the index, and must NOT fire when several indices satisfy the guard. Exit 1 on failure."""
import os
import sys
import z3

sys.path.insert(0, os.path.dirname(os.path.dirname(os.path.abspath(__file__))))
from pyvc import bigsum  # noqa

i, p, s, n = z3.Ints("i p s n")
bs = z3.Function("bigsum<Int,Int>", z3.ArraySort(z3.IntSort(), z3.IntSort()), z3.IntSort())
ok = True
# 1) sum over i of [0 <= i < n and s - i == p]  ==  [0 <= s - p < n]
pinned = bs(z3.Lambda([i], z3.If(z3.And(0 <= i, i < n, s - i == p), 1, 0)))
goal = z3.ForAll([p], z3.Implies(z3.And(s - n < p, p <= s), pinned == 1))
r1 = bigsum.prove_with_congruence([n >= 0], goal, 5000)
print("pinned index proved:", r1)
ok &= r1
# 2) two indices per cell: i / 2 == p  -> rule P must not rewrite, and the (false) claim "== 1" must not be proved
multi = bs(z3.Lambda([i], z3.If(z3.And(0 <= i, i < n, i / 2 == p), 1, 0)))
r2 = bigsum.one_point(multi, [n >= 4], 3000)
r3 = bigsum.prove_with_congruence([n >= 4], z3.Implies(p == 0, multi == 1), 5000)
print("non-unique guard rewritten:", r2 is not None, " false claim proved:", r3)
ok &= r2 is None and not r3
sys.exit(0 if ok else 1)
