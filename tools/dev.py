#!/usr/bin/env python3-vt
"""Developer driver: verify functions and print every obligation.  usage: dev.py <qualname>..."""
import ast
import glob
import os
import sys

sys.path.insert(0, os.path.dirname(os.path.dirname(os.path.abspath(__file__))))
from pyvc.ty import Schema  # noqa
from pyvc.contract import load_contracts  # noqa
from pyvc.verify import verify_function, solve_obligation  # noqa

ROOT = os.path.dirname(os.path.dirname(os.path.abspath(__file__)))


def load_all():
    files = sorted(glob.glob(os.path.join(ROOT, "contracts", "*.py")))
    sch = None
    cfiles = []
    for f in files:
        if f.endswith("schema.py"):
            tree = ast.parse(open(f).read())
            for n in tree.body:
                if isinstance(n, ast.Assign) and n.targets[0].id == "CLASSES":
                    sch = Schema(ast.literal_eval(n.value))
        elif not f.endswith("config.py"):
            cfiles.append(f)
    contracts, specfuncs, lemmas = load_contracts(cfiles)
    config = {}
    cf = os.path.join(ROOT, "contracts", "config.py")
    if os.path.exists(cf):
        tree = ast.parse(open(cf).read())
        for n in tree.body:
            if isinstance(n, ast.Assign) and n.targets[0].id == "CONFIG":
                config = ast.literal_eval(n.value)
    return sch, contracts, specfuncs, lemmas, config


def main():
    sch, contracts, specfuncs, lemmas, config = load_all()
    names = sys.argv[1:] or sorted(contracts)
    verbose = "-v" in names
    names = [n for n in names if n != "-v"]
    bad = 0
    for q in names:
        if q not in contracts:
            cands = [c for c in contracts if c.endswith(q)]
            if len(cands) != 1:
                print("??", q, cands)
                continue
            q = cands[0]
        r = verify_function(q, sch, contracts, specfuncs, config)
        print(f"== {q}: {r.status} {r.message[:2000]} paths={r.paths} loops={r.loops} t={r.time_s:.2f}s")
        for ob in getattr(r, "raw", []):
            s, be, dt, m = solve_obligation(ob)
            mark = {"proved": "ok ", "refuted": "REF", "unknown": "???"}[s]
            if s != "proved":
                bad += 1
            print(f"   [{mark}] {ob.name:40s} {be:9s} {dt:.3f}s  {ob.where}  {ob.meta.get('text','')[:90]}")
            if s == "refuted" and m is not None and verbose:
                print("        goal:", ob.goal)
                for h in ob.hyps:
                    print("        hyp :", h)
                print("        model:", str(m)[:1500])
    print("not proved:", bad)


if __name__ == "__main__":
    main()
