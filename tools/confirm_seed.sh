#!/bin/sh
# usage: confirm_seed.sh <seed-out-dir> <id>     e.g. confirm_seed.sh /tmp/seed_C05/out/C05_1 C05_1
# Confirms, in a fresh scratch worktree of /repo HEAD: demo passes on the pristine tree, the patch
# applies, demo fails with it, the full existing suite still passes with it. Writes the result to
# /verif/seeded/<id>/ (patch.diff regenerated against the current HEAD, demo.py, meta.json, confirm.json).
src="$1"; id="$2"
wt="/tmp/confirm_$id"
out="/verif/seeded/$id"
rm -rf "$wt"; git -C /repo worktree prune
/verif/tools/mkwt.sh "$wt" >/dev/null || exit 2
mkdir -p "$out" "$wt/out/$id"
cp "$src/demo.py" "$wt/out/$id/demo.py"
cd "$wt" || exit 2
/venv/bin/python "out/$id/demo.py" > "$out/demo_pristine.log" 2>&1; p0=$?
if git apply "$src/patch.diff" 2>/dev/null; then how=git-apply; elif patch -p1 -s < "$src/patch.diff" >/dev/null 2>&1; then how=patch-fuzz; else how=failed; fi
git diff -- aldy > "$out/patch.diff"
/venv/bin/python "out/$id/demo.py" > "$out/demo_patched.log" 2>&1; p1=$?
/venv/bin/python -m pytest -q -p no:cacheprovider --timeout=900 --continue-on-collection-errors -x > "$out/suite.log" 2>&1; s=$?
tail -1 "$out/suite.log" > "$out/suite_tail.txt"
cp "$src/demo.py" "$out/demo.py"
cp "$src/meta.json" "$out/meta_agent.json" 2>/dev/null
printf '{"id":"%s","applied":"%s","demo_pristine_exit":%s,"demo_patched_exit":%s,"suite_exit":%s,"suite":"%s","repo_head":"%s"}\n' \
  "$id" "$how" "$p0" "$p1" "$s" "$(tr -d '"\n' < "$out/suite_tail.txt")" "$(git -C /repo rev-parse --short HEAD)" > "$out/confirm.json"
cd /; git -C /repo worktree remove --force "$wt"
cat "$out/confirm.json"
