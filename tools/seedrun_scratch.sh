#!/bin/sh
# usage: seedrun_scratch.sh <seed-id>   -- like seedrun.sh, but the change is applied to a scratch worktree of /repo HEAD
# (VERIF_REPO), never to /repo itself, so several seeds can run in parallel. Writes /verif/seeded/<id>/check.json.
cd /verif || exit 2
id="$1"; d="seeded/$id"; pid=$(echo "$id" | cut -d_ -f1)
wt="/tmp/seedwt_$id"
rm -rf "$wt"; git -C /repo worktree prune
/verif/tools/mkwt.sh "$wt" >/dev/null || exit 2
trap 'cd /; git -C /repo worktree remove --force "$wt" 2>/dev/null' EXIT INT TERM
if ! git -C "$wt" apply "/verif/$d/patch.diff" 2>/dev/null; then echo "{\"id\":\"$id\",\"applies\":false}" > "$d/check.json"; echo "$id: patch does not apply"; exit 0; fi
VERIF_REPO="$wt" VERIF_EVIDENCE_DIR="/tmp/seed_evidence_$id" ./check "$pid" --tier quick > "/tmp/seedrun_out_$id.txt" 2>&1
code=$?
python3 - "$id" "$pid" "$code" "$d" <<'PY'
import json, re, subprocess, sys
sid, pid, code, d = sys.argv[1:5]
out = [l for l in open(f"/tmp/seedrun_out_{sid}.txt").read().splitlines() if "WARNING conda" not in l]
viol = [l for l in out if l.startswith("VIOLATION")]
verdict = "violation" if viol else ("error" if any(l.startswith("CHECKER-ERROR") for l in out) else ("undecided" if any(l.startswith("UNDECIDED") for l in out) else "held"))
detail = []
for l in viol:
    m = re.search(r"replay=(\S+)", l)
    try:
        r = json.load(open(m.group(1)))
        detail.append({"function": r.get("function"), "obligation": r.get("obligation"), "reproduced": r.get("reproduced"),
                       "no_failing_input": l.rstrip().endswith("no-failing-input-found")})
    except Exception:
        pass
head = lambda p: subprocess.run(["git", "-C", p, "rev-parse", "--short", "HEAD"], capture_output=True, text=True).stdout.strip()
json.dump({"id": sid, "property": pid, "applies": True, "verdict": verdict, "exit_code": int(code), "tree": "scratch worktree of /repo HEAD (VERIF_REPO)",
           "lines": [l[:300] for l in out if l.startswith(("VIOLATION", "UNDECIDED", "CHECKER-ERROR"))][:6],
           "detail": detail[:12], "repo_head": head("/repo"), "verif_head": head("/verif")}, open(f"{d}/check.json", "w"), indent=1)
print(f"{sid}: {verdict} (exit {code})")
PY
