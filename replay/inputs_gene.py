"""Input hooks for the gene-database contracts (/verif/contracts/gene_catalogue.py, C08/C09).

Source of the databases, selected with the checker's `--genes` option:
  all        (default) shipped configurations (in order of file size) alternating with generated databases;
             `--n 150` covers all 76 shipped configurations and 74 generated databases
  generated  generated databases only
  shipped    the 38 shipped databases x {hg19, hg38}, each once (use `--n 76 --budget-s 600`), then generated
  <file>     one shipped database (e.g. `cyp2d6`), both builds alternating

A generated database is a function of its id (the `version: gen-<id>` field of the YAML):
`/venv/bin/python /verif/replay/factories_gene.py <id>` prints it.
"""
import random

import factories_gene as fg
from factories_gene import BUILDS

_COUNT = {}


def _pick(rng, ctx):
    """('gen', dbid, genome) | ('shipped', label, path, genome); the k-th call of a run is deterministic"""
    i = _COUNT.get(ctx.qualname, 0)
    _COUNT[ctx.qualname] = i + 1
    mode = ctx.genes
    ship = fg.shipped_configs(ctx.repo)
    dbid = rng.getrandbits(30)
    genome = rng.choice(BUILDS)
    if mode == "generated":
        return ("gen", dbid, genome)
    if mode == "shipped":
        return ("shipped",) + ship[i] if i < len(ship) else ("gen", dbid, genome)
    if mode != "all":
        one = [s for s in ship if s[0].split("/")[0] == mode]
        if one:
            return ("shipped",) + one[i % len(one)]
    # default mix: cases 0, 2, 4, ... 146 are shipped configurations 0 .. 73, cases 148 and 149 the last two,
    # all other cases generated databases  (so `--n 150` covers all 76 shipped configurations + 74 generated)
    k = i // 2 if i % 2 == 0 and i < 148 else 74 + (i - 148) if i in (148, 149) else None
    if k is not None and k < len(ship):
        return ("shipped",) + ship[k]
    return ("gen", dbid, genome)


def _gene(rng, ctx):
    """a loaded gene for the method contracts"""
    p = _pick(rng, ctx)
    Gene = ctx.cls("Gene")
    # every configuration occurs once per run: loaded afresh (nothing to share, so no cache and no copy)
    if p[0] == "gen":
        name, text, _ = fg.make_database(p[1])
        g = Gene(None, name, text, p[2])
        label = f"gen-{p[1]}/{p[2]}"
    else:
        g = Gene(p[2], genome=p[3])
        label = p[1]
    ctx._gene = g            # lets the checker copy the big look-up tables shallowly
    ctx.gene_label = label if p[0] == "shipped" else "generated"
    return g


def gen_aldy_gene_Gene___init__(rng, ctx):
    """Gene.__init__(self, path, name, yml, genome) on a blank object: a generated database passed as YAML
    text (path=None) or a shipped database passed by path"""
    Gene = ctx.cls("Gene")
    p = _pick(rng, ctx)
    if p[0] == "gen":
        name, text, _ = fg.make_database(p[1])
        ctx.gene_label = "generated"
        return {"self": Gene.__new__(Gene), "path": None, "name": name, "yml": text, "genome": p[2]}
    ctx.gene_label = p[1]
    return {"self": Gene.__new__(Gene), "path": p[2], "name": None, "yml": None, "genome": p[3]}


def gen_aldy_gene_Gene_get_refseq(rng, ctx):
    g = _gene(rng, ctx)
    Mutation = ctx.cls("Mutation")
    keys = sorted(g.mutations)
    r = rng.random()
    if keys and r < 0.8:
        pos, op = rng.choice(keys)
    elif keys and r < 0.9:       # near miss: right op, neighbouring position / right position, other op
        pos, op = rng.choice(keys)
        if rng.random() < 0.5:
            pos += rng.choice([-1, 1])
        else:
            op = rng.choice(["A>G", "insT", "delC", op + "A"])
    else:
        pos, op = g._lookup_range[0] + rng.randint(0, 50), rng.choice(["A>G", "insT", "delC"])
    args = (Mutation(pos, op),) if rng.random() < 0.5 else (pos, op)
    return {"self": g, "args": args, "from_atg": False}


def _random_op(rng):
    def s(n):
        return "".join(rng.choice("ACGT") for _ in range(n))
    k = rng.choice(["sub", "mnp", "dot", "ins", "del", "delins"])
    if k == "sub":
        return f"{s(1)}>{s(1)}"
    if k == "mnp":
        n = rng.randint(2, 4)
        return f"{s(n)}>{s(n)}"
    if k == "dot":
        n = rng.randint(1, 2)
        return f"{s(1)}{'.' * n}{s(1)}>{s(1)}{'.' * n}{s(1)}"
    if k == "ins":
        return "ins" + s(rng.randint(1, 4))
    if k == "del":
        return "del" + s(rng.randint(1, 4))
    return f"del{s(rng.randint(1, 4))}ins{s(rng.randint(1, 4))}"


def gen_aldy_gene_Gene__reverse_op(rng, ctx):
    g = _gene(rng, ctx)
    pool = sorted({k[1] for k in g.mutations} | {v[4] for v in g.mutations.values()})
    op = rng.choice(pool) if pool and rng.random() < 0.6 else _random_op(rng)
    return {"self": g, "op": op}


def gen_aldy_gene_Gene_get_allele(rng, ctx):
    g = _gene(rng, ctx)
    db = sorted((k.split("*", 1)[1] if "*" in k else k).replace("/", "_")
                for k in g._yml["alleles"] if k not in ("random", "groups"))
    minors = sorted(m for a in g.alleles.values() for m in a.minors)
    r = rng.random()
    if r < 0.55:
        name = rng.choice(db)
    elif r < 0.7 and g.removed:
        name = rng.choice(sorted(g.removed))
    elif r < 0.85:
        name = rng.choice(minors)
    elif r < 0.93:
        name = rng.choice(sorted(g.alleles))
    else:
        name = rng.choice(["", "x", "1", "999.001", rng.choice(db) + "x"])
    return {"self": g, "name": name}


def gen_aldy_gene_Gene___getitem__(rng, ctx):
    g = _gene(rng, ctx)
    s, e = g._lookup_range
    anchors = [s, e, e - 1, s - 1]
    anchors += [k[0] for k in rng.sample(sorted(g.mutations), min(3, len(g.mutations)))]
    mapped = g.chr_to_ref
    # positions next to an alignment gap / just outside the mapped range
    lo, hi = min(mapped), max(mapped)
    anchors += [lo, hi, hi + 1]
    if len(mapped) < 5000:
        anchors += [p for p in range(lo, hi) if p not in mapped][:4]
    a = rng.choice(anchors) + rng.randint(-3, 3)
    if rng.random() < 0.4:
        return {"self": g, "i": a}
    return {"self": g, "i": slice(a, a + rng.choice([0, 1, 2, 5, 12, 40]))}
