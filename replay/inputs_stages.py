"""Input hooks (native checker) for the solver-stage contracts of /verif/contracts/stages_native.py.
`gen_<contract key with non-word characters replaced by _>(rng, ctx)` returns the argument dict.

All instances are tiny (toy gene and toy-derived generated databases, see factories_stages.py) so that the
real CBC solver answers in milliseconds and the contracts' brute-force enumerations stay feasible.
`--genes toy|multi|cyp2a6|gstm1` restricts the gene pool.
"""
from factories_stages import (stage_gene, make_stage_profile, make_region_coverage, make_config_table,
                              make_fusion_support, pick_structure, plant_copies, make_planted_coverage,
                              make_cn_solution, make_major_solution, make_phases, attach_phases, pooled_candidates,
                              majors_of, catalogue_variants, region_cn, to_pileup, plant_counts, Obs)

SOLVER = "any"


# --------------------------------------------------------------------------- C03: aldy.cn.solve_cn_model#results

def gen_aldy_cn_solve_cn_model_results(rng, ctx):
    """Region depths of a planted structure (two complete configurations + extra copies + free pseudogene
    copies) with additive noise up to +-0.5 copies on a 0.01 grid, half-way mixtures of two structures and a few
    arbitrary vectors; maximum copy number 2-4; gap in {0, 0.1, 0.3}; candidate tables with and without some
    fusions; with and without long-read fusion support values; sometimes a small error bound cn_max."""
    gene = stage_gene(rng, ctx, [("toy", 40), ("cyp2a6", 35), ("gstm1", 15), ("multi", 10)])
    max_cn = rng.choice([2, 3, 3, 3, 4, 4])
    profile = make_stage_profile(rng, ctx, gaps=(0.0, 0.0, 0.1, 0.3))
    if rng.random() < 0.1:
        profile.cn_max = rng.choice([1, 2])
    cn_configs = make_config_table(rng, gene)
    fusion_support = make_fusion_support(rng, gene, max_cn)
    names = sorted(cn_configs)
    region_coverage = make_region_coverage(rng, gene, max_cn, names)
    return {"gene": gene, "profile": profile, "cn_configs": cn_configs, "max_cn": max_cn,
            "region_coverage": region_coverage, "solver": SOLVER, "debug": None, "fusion_support": fusion_support}


# --------------------------------------------------------------------------- C02: aldy.major.solve_major_model#results

def _candidates(rng, gene, coverage, structure, drop=0.0):
    """Candidate table as aldy.major._filter_alleles produces it (deep copies of the catalogue alleles of the
    structure's configurations whose core variants all have reads) - computed independently of aldy."""
    import copy
    out = {}
    for an, a in gene.alleles.items():
        if a.cn_config not in structure:
            continue
        if any(coverage.coverage(m) <= 0 for m in a.func_muts):
            continue
        if rng.random() < drop and an != "1":
            continue
        out[an] = copy.deepcopy(a)
    return out


def gen_aldy_major_solve_major_model_results(rng, ctx):
    """Integer read-count tables planted from allele multisets (1-4 copies, fused / deletion configurations
    included) whose copies lose or gain catalogue variants (so that novel variants are forced), multiplicative
    noise up to 40%, a few stray reads on other core variants; gap in {0, 0.1, 0.5}. The `delins` database adds an
    allele whose core variant is a deletion-insertion."""
    gene = stage_gene(rng, ctx, [("toy", 45), ("multi", 30), ("delins", 25)])
    profile = make_stage_profile(rng, ctx, gaps=(0.0, 0.0, 0.1, 0.5))
    structure = pick_structure(rng, gene)
    r = rng.random()
    p_add, p_drop = (0.0, 0.0) if r < 0.3 else (0.12, 0.08) if r < 0.7 else (0.3, 0.15)
    copies = plant_copies(rng, ctx, gene, structure, p_add=p_add, p_drop=p_drop, minors=False)
    coverage, _ = make_planted_coverage(rng, ctx, gene, profile, structure, copies,
                                        spurious=rng.choice([0.0, 0.0, 0.1, 0.3]), collide=rng.choice([0.0, 0.3, 0.6]))
    cn_solution = make_cn_solution(ctx, gene, structure)
    allele_dict = _candidates(rng, gene, coverage, structure, drop=rng.choice([0.0, 0.0, 0.0, 0.2]))
    return {"gene": gene, "coverage": coverage, "cn_solution": cn_solution, "allele_dict": allele_dict,
            "solver": SOLVER, "identifier": rng.choice([0, 1, 3]), "debug": None}


# --------------------------------------------------------------------------- C04: aldy.minor.solve_minor_model#results

def _minor_case(rng, ctx, gene, profile, sizes=(1, 2, 2, 2, 3)):
    """A structure, planted copies (catalogued minors that lose / gain silent or core variants), the major
    solution that calls the planted major alleles, a noisy read-count table and (optionally) read-phase evidence."""
    structure = pick_structure(rng, gene, sizes=sizes)
    r = rng.random()
    p_add, p_drop = (0.0, 0.0) if r < 0.3 else (0.1, 0.1) if r < 0.75 else (0.25, 0.2)
    copies = plant_copies(rng, ctx, gene, structure, p_add=p_add, p_drop=p_drop)
    # mostly the major solution is correct (no planted copy lost a core variant of its major allele); in the
    # other cases the major stage over-called a core variant (fewer copies show it than alleles are called)
    r = rng.random()
    if r < 0.75:
        copies = [(major, minor, set(vs) | set(gene.alleles[major].func_muts)) for major, minor, vs in copies]
    elif r < 0.93 and len(copies) >= 2:
        # the same allele called twice (or three times), one of the copies does not show one of its core variants
        i, j = rng.sample(range(len(copies)), 2)
        src = copies[i]
        if gene.alleles[src[0]].cn_config == gene.alleles[copies[j][0]].cn_config and gene.alleles[src[0]].func_muts:
            lost = rng.choice(sorted(gene.alleles[src[0]].func_muts))
            copies[i] = (src[0], src[1], set(src[2]) | set(gene.alleles[src[0]].func_muts))
            copies[j] = (src[0], src[1], {m for m in copies[i][2] if m != lost})
    coverage, table = make_planted_coverage(rng, ctx, gene, profile, structure, copies,
                                            noise=rng.choice([0.0, 0.0, 0.1, 0.25, 0.4]),
                                            spurious=rng.choice([0.0, 0.0, 0.1]))
    cn_solution = make_cn_solution(ctx, gene, structure)
    novel = sorted({(m.pos, m.op) for major, _, vs in copies for m in vs
                    if gene.mutations[m.pos, m.op][0] is not None and m not in gene.alleles[major].func_muts})
    major_sol = make_major_solution(ctx, gene, cn_solution, [c[0] for c in copies], score=0.0, added=novel)
    return structure, copies, coverage, cn_solution, major_sol


def gen_aldy_minor_solve_minor_model_results(rng, ctx):
    """Major solutions of 1-3 copies (fused and deletion alleles included) over the toy gene and the `multi`
    database (multi-allelic silent site, several minors per major), noisy integer read counts, with and without
    read-phase evidence (`coverage.sam.phases`); candidates and considered variants pooled as estimate_minor does."""
    gene = stage_gene(rng, ctx, [("toy", 50), ("multi", 50)])
    profile = make_stage_profile(rng, ctx, gaps=(0.0,))
    structure, copies, coverage, cn_solution, major_sol = _minor_case(rng, ctx, gene, profile)
    pool = [major_sol]
    if rng.random() < 0.25:
        # candidates of another major solution of the same call are pooled in as well
        other = [rng.choice(majors_of(gene, c)) for c in structure]
        pool.append(make_major_solution(ctx, gene, cn_solution, other, score=1.0))
    alleles_list, mutations = pooled_candidates(ctx, gene, pool)
    if rng.random() < 0.5:
        attach_phases(ctx, coverage, make_phases(rng, ctx, gene, copies, mutations))
        if rng.random() < 0.15:
            profile.phase = False
    return {"gene": gene, "coverage": coverage, "major_sol": major_sol, "alleles_list": alleles_list,
            "mutations": mutations, "solver": SOLVER, "max_solutions": rng.choice([1, 1, 1, 2, 3])}


# --------------------------------------------------------------------------- C10 / C14: aldy.minor.estimate_minor#results

def gen_aldy_minor_estimate_minor_results(rng, ctx):
    """1-3 candidate major solutions (Counter-valued) with different scores, over one or two gene structures
    (e.g. 2x*1 and 3x*1 competing), one noisy read-count table planted from the first candidate; raw evidence
    with a few low-quality observations (the stage filters it itself); with and without read-phase evidence."""
    gene = stage_gene(rng, ctx, [("toy", 55), ("multi", 45)])
    profile = make_stage_profile(rng, ctx, gaps=(0.0, 0.1, 0.3))
    structure, copies, coverage, cn_solution, major_sol = _minor_case(rng, ctx, gene, profile, sizes=(1, 2, 2, 2, 3))
    major_sol.score = rng.choice([0.0, 0.0, 0.3, 1.2, 2.5])
    majors = [major_sol]
    k = rng.choice([0, 1, 1, 1, 2])
    for _ in range(k):
        r = rng.random()
        if r < 0.5:
            # another major solution on the same structure
            names = [rng.choice(majors_of(gene, c)) if rng.random() < 0.6 else m
                     for c, m in zip(structure, [c[0] for c in copies])] if len(copies) == len(structure) else \
                    [rng.choice(majors_of(gene, c)) for c in structure]
            cn = cn_solution
        else:
            # a competing structure: one more / one fewer default copy, or a fusion instead of a default copy
            st = list(structure)
            q = rng.random()
            if q < 0.45 or not st:
                st.append("1")
            elif q < 0.75:
                st.remove(rng.choice(st))
            else:
                st[rng.randrange(len(st))] = rng.choice(sorted(gene.cn_configs))
            st = sorted(st)
            if not st:
                st = ["1"]
            cn = make_cn_solution(ctx, gene, st, score=rng.choice([0.0, 0.4, 1.0]))
            names = [rng.choice(majors_of(gene, c)) for c in st]
        novel = []
        if rng.random() < 0.3:
            novel = [rng.choice(catalogue_variants(gene, functional=True))]
        ms = make_major_solution(ctx, gene, cn, names, score=rng.choice([0.0, 0.2, 0.7, 1.5, 3.0]), added=novel)
        if not any(str(ms) == str(x) for x in majors):
            majors.append(ms)
    rng.shuffle(majors)
    # low-quality observations mixed in (below min_quality / min_mapq): ignored by the stage's own filter
    for pos, ops in coverage._coverage.items():
        for op in ops:
            if rng.random() < 0.15:
                ops[op] = Obs(list(ops[op]) + [(rng.choice([0, 5, 60]), rng.choice([0, 5, 9]))] * rng.choice([1, 2, 5]))
    if rng.random() < 0.5:
        _, considered = pooled_candidates(ctx, gene, majors)
        attach_phases(ctx, coverage, make_phases(rng, ctx, gene, copies, considered))
    return {"gene": gene, "coverage": coverage, "major_sols": majors, "solver": SOLVER,
            "max_solutions": rng.choice([1, 1, 1, 2, 3]), "novel": False}


# --------------------------------------------------------------------------- C15: aldy.major._filter_alleles#results / aldy.major.estimate_major#results

def _quality_case(rng, ctx):
    """Evidence with observations below min_quality / min_mapq mixed in at any site, structures with non-uniform
    copy number (deletion allele, fusions), and read fractions of core variants placed around the two-step
    threshold  threshold / cn_max  and  threshold / (copies at the site + 0.5)."""
    gene = stage_gene(rng, ctx, [("toy", 60), ("multi", 40)])
    profile = make_stage_profile(rng, ctx, gaps=(0.0, 0.0, 0.1))
    if rng.random() < 0.3:
        profile.threshold = rng.choice([0.25, 0.5, 0.75])
    if rng.random() < 0.3:
        profile.min_coverage = rng.choice([1.0, 2.0, 4.0])
    if rng.random() < 0.2:
        profile.cn_max = rng.choice([4, 20])
    if rng.random() < 0.4:
        profile.min_quality, profile.min_mapq = rng.choice([(20, 10), (10, 30), (20, 30)])
    structure = pick_structure(rng, gene)
    if rng.random() < 0.45:
        # non-uniform copy number: a deletion allele / a fusion next to default copies
        structure = sorted((structure + ["1"])[:2] + [rng.choice([c for c in sorted(gene.cn_configs) if c != "1"])])
    copies = plant_copies(rng, ctx, gene, structure, p_add=rng.choice([0.0, 0.1, 0.25]), p_drop=0.05, minors=False)
    depth = rng.choice([6, 10, 14, 20])
    table = plant_counts(rng, gene, structure, copies, depth, rng.choice([0.0, 0.1, 0.3]))
    # core variants with a read fraction around the thresholds
    for (pos, op) in catalogue_variants(gene, functional=True):
        if rng.random() < 0.35:
            cn = region_cn(gene, structure, pos)
            total = sum(n for o, n in table.get(pos, {}).items() if o[:3] != "ins") or depth * max(1, cn)
            bars = [profile.threshold / (cn + 0.5), profile.threshold / (len(structure) + 0.5), profile.threshold / profile.cn_max]
            n = max(0, int(round(total * rng.choice(bars))) + rng.choice([-1, 0, 0, 1]))
            ops = table.setdefault(pos, {"_": total})
            if op[:3] != "ins":
                old = ops.get(op, 0)
                ops["_"] = max(0, ops.get("_", 0) + old - n)
            ops[op] = n
    pile = to_pileup(table)
    lowq = [(60, 5), (5, 60), (0, 0), (9, 9), (60, 9), (25, 15), (15, 25), (60, 15), (25, 60)]
    lowq = [ob for ob in lowq if ob[1] < profile.min_quality or ob[0] < profile.min_mapq]
    for pos, ops in pile.items():
        for op in list(ops):
            if rng.random() < 0.3:
                ops[op] = Obs(list(ops[op]) + [rng.choice(lowq)] * rng.choice([1, 2, 5, 20]))
        if rng.random() < 0.1:
            # a variant seen only in low-quality reads
            for (p, o) in catalogue_variants(gene):
                if p == pos and o not in ops:
                    ops[o] = Obs([rng.choice(lowq)] * rng.choice([2, 5, 20]))
    Coverage = ctx.cls("Coverage")
    coverage = Coverage(gene, profile, None, pile, None, {})
    return gene, coverage, make_cn_solution(ctx, gene, structure)


def gen_aldy_major__filter_alleles_results(rng, ctx):
    gene, coverage, cn_solution = _quality_case(rng, ctx)
    return {"gene": gene, "coverage": coverage, "cn_solution": cn_solution}


def gen_aldy_major_estimate_major_results(rng, ctx):
    gene, coverage, cn_solution = _quality_case(rng, ctx)
    return {"gene": gene, "coverage": coverage, "cn_solution": cn_solution, "solver": SOLVER,
            "identifier": rng.choice([0, 2]), "debug": None}
