"""Helper constructors for the read/evidence-layer contracts (/verif/contracts/sam.py).

* a small CONSISTENT gene database ("SAMTOY": the catalogued variants match the reference sequence,
  small coordinates, both strands, substitutions / deletions / insertions / contiguous and gapped
  multi-nucleotide substitutions, functional and silent) loaded with the real loader;
* `Sample` objects built WITHOUT an alignment file (`Sample.__new__` + the attributes `__init__` derives
  from the gene);
* random reads (CIGAR over M,=,X,I,D,S) around catalogued positions;
* small indexed BAM / bgzipped+tabix-indexed VCF files written with pysam into a session temp dir.

Everything is deterministic for a given random.Random instance.
"""
import atexit
import copy
import os
import random
import shutil
import tempfile
from collections import defaultdict

from factories import FACTORIES, DESCRIBE, QUALS, big_table_memo, load_gene, describe

# --------------------------------------------------------------------------- session temp dir

_TMP = [None]
_COUNTER = [0]


def session_tmp():
    if _TMP[0] is None:
        _TMP[0] = tempfile.mkdtemp(prefix="verif_sam_")
        atexit.register(shutil.rmtree, _TMP[0], True)
    return _TMP[0]


def case_dir(tag):
    _COUNTER[0] += 1
    d = os.path.join(session_tmp(), f"{tag}{_COUNTER[0]}")
    os.makedirs(d, exist_ok=True)
    return d


# --------------------------------------------------------------------------- the consistent toy gene

SAMTOY_LEN = 200
COMP = {"A": "T", "C": "G", "G": "C", "T": "A"}


def _samtoy_seq():
    r = random.Random(20240607)
    s = []
    while len(s) < SAMTOY_LEN:
        b = r.choice("ACGT")
        if len(s) >= 1 and s[-1] == b:      # no homopolymer runs: indels have a unique placement
            continue
        if len(s) >= 3 and s[-2] == b and s[-3] == s[-1]:   # no dinucleotide repeats
            continue
        s.append(b)
    return "".join(s)


def _other(b, k=1):
    return "ACGT"[("ACGT".index(b) + k) % 4]


def samtoy_yaml_text():
    """YAML in the format of aldy/tests/resources/toy.yml; positions are 1-based RefSeq positions."""
    s = _samtoy_seq()

    def sub(p, k=1):
        return f"{s[p - 1]}>{_other(s[p - 1], k)}"

    def mnp(p, mask):
        l = "".join(s[p - 1 + i] if c == "x" else "." for i, c in enumerate(mask))
        r = "".join(_other(s[p - 1 + i], 1 + i) if c == "x" else "." for i, c in enumerate(mask))
        return f"{l}>{r}"

    def dele(p, n):
        return "del" + s[p - 1:p - 1 + n]

    lines = [
        "name: SAMTOY", "version: verif-1.0", "generated: '2026-01-01'", "alleles:",
        "   SAMTOY*1.001:", "      label: SAMTOY*1", "      activity: normal function", "      mutations: []",
        "   SAMTOY*1.002:", "      label: SAMTOY*1B", "      mutations:",
        f"      - [105, {sub(105)}, rs105]",
        f"      - [144, {mnp(144, 'xx')}, rs144]",
        f"      - [157, {dele(157, 1)}, rs157]",
        "   SAMTOY*2.001:", "      label: SAMTOY*2", "      mutations:",
        f"      - [111, {dele(111, 2)}, -, frameshift]",
        "      - [119, insTT, -, frameshift]",
        "   SAMTOY*3.001:", "      label: SAMTOY*3", "      mutations:",
        f"      - [115, {sub(115, 2)}, -, functional]",
        "      - [148, insA, -]",
        "   SAMTOY*4.001:", "      label: SAMTOY*4", "      mutations:",
        f"      - [124, {mnp(124, 'xx')}, -, functional]",
        "   SAMTOY*5.001:", "      label: SAMTOY*5", "      mutations:",
        f"      - [134, {mnp(134, 'x.x')}, -, functional]",
        "   SAMTOY*6.001:", "      label: SAMTOY*6", "      mutations:",
        f"      - [151, {sub(151, 3)}, -, functional]",
        f"      - [153, {sub(153, 1)}, -]",
        "   SAMTOY*7.001:", "      label: SAMTOY*7", "      mutations:",
        "      - [SAMTOYP, i2-]",
        "   SAMTOY*8.001:", "      label: SAMTOY*8DEL", "      mutations:",
        "      - [SAMTOY, deletion]",
        "structure:", "   genes: [SAMTOY, SAMTOYP]", "   regions:",
        "      hg19:",
        "         tmp: [5101, 5111, 5001, 5011]", "         e1: [5111, 5121, 5011, 5021]",
        "         e2: [5131, 5141, 5031, 5041]", "         e3: [5151, 5161, 5051, 5061]",
        "         down: [5161, 5201, 5061, 5101]",
        "      hg38:",
        "         tmp: [7091, 7101, 7191, 7201]", "         e1: [7081, 7091, 7181, 7191]",
        "         e2: [7061, 7071, 7161, 7171]", "         e3: [7041, 7051, 7141, 7151]",
        "         down: [7001, 7041, 7101, 7141]",
        "   cn_regions: [e1, i1, e2, i2, e3]", "   tandems: [['1', '7']]",
        "reference:", "   name: NG_SAMTOY", "   mappings:",
        "      hg19: ['20', 5001, 5201, '+', M200]",
        "      hg38: ['20', 7001, 7201, '-', M200]",
        "   exons:", "   - [111, 121]", "   - [131, 141]", "   - [151, 161]",
        "   seq: |-", "      " + s,
    ]
    return "\n".join(lines) + "\n"


def samtoy_path():
    p = os.path.join(session_tmp(), "samtoy.yml")
    if not os.path.exists(p):
        with open(p, "w") as f:
            f.write(samtoy_yaml_text())
    return p


_SAMTOY_CACHE = {}


def consistent(gene):
    """Every catalogued variant of the database is expressed against the gene's own reference bases."""
    for (pos, op) in gene.mutations:
        if ">" in op:
            l = op.split(">")[0]
            if any(c != "." and gene[pos + i] != c for i, c in enumerate(l)):
                return False
        elif op.startswith("del") and "ins" not in op:
            if gene[pos:pos + len(op) - 3] != op[3:]:
                return False
    return True


def load_any_gene(ctx, name, genome):
    """toy / shipped genes through factories.load_gene, 'samtoy' through the generated YAML."""
    if name != "samtoy":
        return load_gene(ctx, name, genome)
    key = (name, genome)
    if key not in _SAMTOY_CACHE:
        g = ctx.cls("Gene")(samtoy_path(), genome=genome)
        assert consistent(g), "generated SAMTOY database is not consistent with its reference"
        _SAMTOY_CACHE[key] = g
    return _SAMTOY_CACHE[key]


def pick_gene(rng, ctx, pool):
    """pool: [(name, genome, weight)].  Sets the case's gene (ctx.gene) to a deep copy of the cached gene."""
    name, genome, _ = rng.choices(pool, weights=[w for _, _, w in pool])[0]
    g = load_any_gene(ctx, name, genome)
    ctx._gene = copy.deepcopy(g, big_table_memo(g))
    ctx.gene_label = f"{name}/{genome}"
    ctx._positions = None
    return ctx._gene


# --------------------------------------------------------------------------- Sample without a file

def bare_sample(ctx, gene, profile=None, name="sample"):
    """A Sample as `Sample.__init__` leaves it before any file is read."""
    Sample = ctx.cls("Sample")
    s = Sample.__new__(Sample)
    s.name = name
    s.gene = gene
    s.profile = profile
    s.path = f"{name}.bam"
    s._dump_cn = defaultdict(int)
    s._dump_reads = []
    s._indel_sites = {(pos, op): [0, 0] for pos, op in gene.mutations if op[:3] in ["ins", "del"]}
    s._indel_sites_eqs = {}
    s._multi_sites = {m.pos: m.op for _, a in gene.alleles.items() for m in a.func_muts
                      if ">" in m.op and len(m.op) > 3}
    s.phaseable = {pos: i for i, pos in enumerate(sorted({pos for pos, _ in gene.mutations}))}
    s.phases = {}
    s._fusion_counter = {}
    s.is_long_read = False
    s.reads = None
    s.kind = "sam"
    s.genome = gene.genome
    s._prefix = ""
    return s


def plain_profile(rng, ctx, cn_region=None):
    """A Profile with default parameters (a few randomised), without data."""
    Profile = ctx.cls("Profile")
    p = Profile("test", cn_region=cn_region, data=None)
    if rng.random() < 0.5:
        p.min_quality = rng.choice(QUALS)
        p.min_mapq = rng.choice(QUALS)
        p.threshold = rng.choice([0.25, 0.5, 1.0])
    return p


def _describe_sample(o, d):
    keep = ("name", "gene", "phases", "_indel_sites_eqs", "_multi_sites", "_dump_cn", "_fusion_counter", "_prefix")
    body = ", ".join(f"{k}={describe(v, d + 1)}" for k, v in o.__dict__.items() if k in keep)
    return f"Sample({body}, ...)"


DESCRIBE.setdefault("Sample", _describe_sample)
DESCRIBE.setdefault("FakeRead", lambda o, d: f"FakeRead({o.__dict__})")


# --------------------------------------------------------------------------- reads

BASE_QUALS = [0, 1, 2, 5, 9, 10, 15, 19, 20, 28, 29, 30, 38, 39, 40, 41]
MAP_QUALS = [0, 1, 3, 6, 10, 12, 15, 20, 25, 29, 30, 39, 40, 50, 60]


def catalogue_positions(gene):
    return sorted({p for p, _ in gene.mutations})


def mnp_sites(gene):
    return sorted((p, op) for p, op in gene.mutations if ">" in op and len(op) > 3)


def random_cigar(rng, planted=None, lead=None):
    """CIGAR over M(0) I(1) D(2) S(4) =(7) X(8).  `planted` = (op, size) placed after `lead` aligned bases."""
    cig = []
    if rng.random() < 0.3:
        cig.append((4, rng.randint(1, 3)))
    if planted is not None:
        left = lead
        while left > 0:                       # the lead may itself be split into several match runs
            n = rng.randint(1, left) if rng.random() < 0.4 else left
            cig.append((rng.choice([0, 0, 0, 7, 8]), n))
            left -= n
        cig.append(planted)
        cig.append((rng.choice([0, 0, 7, 8]), rng.randint(1, 8)))
    k = rng.choice([1, 1, 2, 3, 4]) if planted is None else rng.choice([0, 0, 1, 2])
    for j in range(k):
        if cig and cig[-1][0] in (0, 7, 8) and rng.random() < 0.5:
            cig.append((rng.choice([1, 2]), rng.randint(1, 3)))
        elif cig and cig[-1][0] in (1, 2) and rng.random() < 0.15:
            cig.append((rng.choice([1, 2]), rng.randint(1, 2)))   # adjacent indels
        cig.append((rng.choice([0, 0, 0, 7, 8]), rng.randint(1, 9)))
    if rng.random() < 0.1:                    # a trailing / leading indel (unusual but legal)
        cig.append((rng.choice([1, 2]), 1))
    if rng.random() < 0.05:
        cig.insert(1 if cig and cig[0][0] == 4 else 0, (rng.choice([1, 2]), rng.randint(1, 2)))
    if rng.random() < 0.3:
        cig.append((4, rng.randint(1, 3)))
    return cig


def random_read(rng, gene, fragment=None, anchor=None):
    """(fragment, ref_start, cigar, seq, mq, qual): mostly the reference sequence, with random mismatches,
    catalogued substitutions / complete and partial multi-nucleotide substitutions planted, and catalogued
    indels planted at their catalogued position."""
    cat = catalogue_positions(gene)
    lo, hi = gene._lookup_range
    r = rng.random()
    planted, lead = None, None
    if anchor is None:
        if r < 0.1:
            anchor = rng.choice([lo, hi]) + rng.randint(-3, 3)      # leaves the RefSeq-mapped part
        else:
            mn = mnp_sites(gene)
            anchor = rng.choice(mn)[0] if mn and rng.random() < 0.35 else rng.choice(cat)
    indels = [(p, op) for p, op in gene.mutations if op[:3] in ("ins", "del") and abs(p - anchor) <= 12]
    if indels and rng.random() < 0.35:
        p, op = rng.choice(sorted(indels))
        lead = rng.randint(1, 8)
        ref_start = p - lead
        planted = (1, len(op) - 3) if op.startswith("ins") else (2, len(op) - 3)
        plant_ins = op[3:] if op.startswith("ins") else None
    else:
        ref_start = anchor - rng.randint(0, 10)
        plant_ins = None
    cigar = random_cigar(rng, planted, lead)
    # which catalogued substitutions / MNPs does this read carry
    carried = {}
    for (p, op) in sorted(gene.mutations):
        if ">" not in op:
            continue
        l, rr = op.split(">")
        x = rng.random()
        if len(op) == 3:
            if x < 0.4:
                carried.setdefault(p, rr)
        elif x < 0.5:                          # the complete MNP
            for i, c in enumerate(rr):
                if c != ".":
                    carried[p + i] = c
        elif x < 0.65:                         # only its first component
            carried[p] = rr[0]
    seq, pos = [], ref_start
    for op, n in cigar:
        if op in (0, 7, 8):
            for i in range(n):
                b = gene[pos + i]
                if b == "N":
                    b = rng.choice("ACGT")
                if pos + i in carried:
                    b = carried[pos + i]
                elif rng.random() < 0.08:
                    b = rng.choice("ACGT")
                seq.append(b)
            pos += n
        elif op == 2:
            pos += n
        elif op == 1:
            if plant_ins is not None and (op, n) == planted and len(plant_ins) == n and rng.random() < 0.8:
                seq.extend(plant_ins)
                plant_ins = None
            else:
                seq.extend(rng.choice("ACGT") for _ in range(n))
        elif op == 4:
            seq.extend(rng.choice("ACGT") for _ in range(n))
    seq = "".join(seq)
    qual = None if rng.random() < 0.1 else [rng.choice(BASE_QUALS) for _ in seq]
    mq = rng.choice(MAP_QUALS)
    if fragment is None:
        fragment = f"frag{rng.randint(1, 3)}"
    return fragment, ref_start, cigar, seq, mq, qual


def random_tables(rng, gene, around, allow_ins=True):
    """pre-existing observation tables norm {pos: [obs]} / muts {(pos, op): [obs]} near `around`."""
    norm, muts = defaultdict(list), defaultdict(list)

    def obs():
        return (rng.choice([0, 1, 6, 15, 25, 35, 40]), rng.choice([0, 1, 6, 15, 25, 35, 40]))

    for _ in range(rng.choice([0, 0, 1, 2, 4, 8])):
        p = rng.choice(around) + rng.randint(-3, 3)
        norm[p] += [obs() for _ in range(rng.randint(0, 3))]
    for _ in range(rng.choice([0, 0, 1, 2, 4])):
        p = rng.choice(around) + rng.randint(-3, 3)
        ops = sorted(op for (q, op) in gene.mutations if q == p and (allow_ins or not op.startswith("ins")))
        b = gene[p] if gene[p] != "N" else "A"
        ops += [f"{b}>{c}" for c in "ACGT" if c != b] + ["-"] + (["insA", "insTT"] if allow_ins else [])
        muts[p, rng.choice(ops)] += [obs() for _ in range(rng.randint(0, 3))]
    return norm, muts


# --------------------------------------------------------------------------- BAM / VCF files

def cigar_query_len(cigar):
    return sum(n for op, n in cigar if op in (0, 1, 4, 7, 8))


def write_bam(path, contigs, reads):
    """contigs: [(name, length)]; reads: dicts(name, contig, pos, cigar|None, flag, mapq).  Coordinate sorted
    and indexed (.bai)."""
    import pysam
    header = {"HD": {"VN": "1.6", "SO": "coordinate"}, "SQ": [{"SN": n, "LN": ln} for n, ln in contigs]}
    names = [n for n, _ in contigs]
    order = sorted(range(len(reads)), key=lambda i: (names.index(reads[i]["contig"]), reads[i]["pos"], i))
    with pysam.AlignmentFile(path, "wb", header=header) as out:
        for i in order:
            r = reads[i]
            a = pysam.AlignedSegment(out.header)
            a.query_name = r["name"]
            a.reference_id = names.index(r["contig"])
            a.reference_start = r["pos"]
            a.flag = r["flag"]
            a.mapping_quality = r.get("mapq", 60)
            if r["cigar"] is not None:
                n = cigar_query_len(r["cigar"])
                a.query_sequence = "A" * n
                a.query_qualities = pysam.qualitystring_to_array("I" * n)
                a.cigartuples = r["cigar"]
            else:
                a.query_sequence = "ACGT"
                a.query_qualities = pysam.qualitystring_to_array("IIII")
            out.write(a)
    pysam.index(path)
    return path


def random_bam_reads(rng, contig, windows, other_contigs=(), n=None):
    """Reads whose alignments start around the given (start, end) windows of `contig` (some before, inside,
    spanning, after), a few on other contigs; flags among plain/reverse/secondary/duplicate/supplementary and a
    few unmapped (placed, without CIGAR)."""
    reads = []
    n = rng.choice([0, 1, 3, 6, 10, 16]) if n is None else n
    for i in range(n):
        s, e = rng.choice(windows)
        x = rng.random()
        if x < 0.08 and other_contigs:
            c = rng.choice(other_contigs)
        else:
            c = contig
        if rng.random() < 0.1:
            pos = s - rng.randint(25, 60)           # far left: may end before, at, or inside the window
        else:
            pos = rng.randint(s - 25, e + 6)
        flag = rng.choice([0, 0, 0, 16, 256, 1024, 2048, 2048 + 16, 4])
        if flag & 4:
            cigar = None
        elif rng.random() < 0.1:                    # long: may span the whole window
            cigar = [(0, rng.randint(10, 30)), (2, rng.randint(1, 15)), (0, rng.randint(10, 40))]
        else:
            cigar = random_cigar(rng)
            if rng.random() < 0.3:
                cigar = [(op, n * rng.choice([1, 2, 3]) if op in (0, 7, 8) else n) for op, n in cigar]
        reads.append({"name": f"r{i}", "contig": c, "pos": max(pos, 1), "cigar": cigar, "flag": flag,
                      "mapq": rng.choice(MAP_QUALS)})
    return reads


def write_vcf(path, contigs, samples, records):
    """records: dicts(contig, pos (1-based), ref, alts [..], gts {sample: tuple}, phased bool).
    bgzipped + tabix indexed.  Returns the path of the .vcf.gz file."""
    import pysam
    plain = path[:-3] if path.endswith(".gz") else path
    with open(plain, "w") as f:
        f.write("##fileformat=VCFv4.2\n")
        for c, ln in contigs:
            f.write(f"##contig=<ID={c},length={ln}>\n")
        f.write('##FORMAT=<ID=GT,Number=1,Type=String,Description="Genotype">\n')
        f.write("#CHROM\tPOS\tID\tREF\tALT\tQUAL\tFILTER\tINFO\tFORMAT\t" + "\t".join(samples) + "\n")
        names = [c for c, _ in contigs]
        for r in sorted(records, key=lambda r: (names.index(r["contig"]), r["pos"])):
            cols = [r["contig"], str(r["pos"]), ".", r["ref"], ",".join(r["alts"]) or ".", ".", "PASS", ".", "GT"]
            for s in samples:
                gt = r["gts"][s]
                sep = "|" if r.get("phased") else "/"
                cols.append(sep.join("." if g is None else str(g) for g in gt))
            f.write("\t".join(cols) + "\n")
    gz = plain + ".gz"
    pysam.tabix_compress(plain, gz, force=True)
    pysam.tabix_index(gz, preset="vcf", force=True)
    return gz
