#!/venv/bin/python
"""Native (CPython) runtime checker for the sidecar contracts in /verif/contracts (see SPEC.md).

Executes the same contracts the deductive engine proves, on concrete generated inputs, against the
real aldy code imported from $VERIF_REPO.  The result is a BOUNDED check (never a proof).

    /venv/bin/python /verif/replay/native.py --function aldy.coverage.Coverage.basic_filter
    /venv/bin/python /verif/replay/native.py --all

Exit codes: 0 ok, 1 violation, 2 skipped (single function only), 3 error.
"""
import argparse
import ast
import copy
import importlib
import itertools
import json
import math
import os
import random
import re
import signal
import sys
import time
import traceback
import warnings

HERE = os.path.dirname(os.path.abspath(__file__))
REPO = os.path.abspath(os.environ.get("VERIF_REPO", "/repo"))
CONTRACT_DIR = os.environ.get("VERIF_CONTRACTS", os.path.join(os.path.dirname(HERE), "contracts"))
if HERE not in sys.path:
    sys.path.insert(0, HERE)

QUANT_CAP = 20000
REL_TOL, ABS_TOL = 1e-9, 1e-12

DEFERRED = ("ensures", "raises", "modifies", "returns", "invariant", "may_raise", "reads", "foreach", "bounded",
            "decreases", "shares")
IGNORED = ("returns", "invariant", "decreases", "reads", "foreach", "bounded")
PRE_ONLY = ("types", "requires", "pure", "assume_contract")


# =========================================================================== bootstrapping aldy

def boot():
    """Import aldy from $VERIF_REPO and silence its logging."""
    warnings.filterwarnings("ignore")
    sys.path.insert(0, REPO)
    import aldy
    import aldy.common
    af = os.path.abspath(aldy.__file__)
    assert af.startswith(REPO + os.sep), f"aldy imported from {af}, expected below {REPO}"
    aldy.common.log.level = 100
    try:
        import logbook
        logbook.NullHandler().push_application()
    except Exception:
        pass
    return aldy


# =========================================================================== contract files

class ContractDef:
    def __init__(self, qualname, node, path, text, flags):
        self.qualname, self.node, self.path, self.text, self.flags = qualname, node, path, text, flags
        self.params = [a.arg for a in node.args.posonlyargs + node.args.args + node.args.kwonlyargs]
        self.types = {}
        for n in ast.walk(node):
            if isinstance(n, ast.Call) and isinstance(n.func, ast.Name) and n.func.id == "types":
                for k in n.keywords:
                    self.types[k.arg] = ast.literal_eval(k.value)


def load_contract_files(directory=CONTRACT_DIR):
    """Parse (never import) the sidecar files.  Returns (contracts, consts, specfuncs, schema)."""
    contracts, consts, specfuncs = {}, {}, {}
    schema = {}
    sp = os.path.join(directory, "schema.py")
    if os.path.exists(sp):
        for node in ast.parse(open(sp).read()).body:
            if isinstance(node, ast.Assign) and isinstance(node.targets[0], ast.Name) and node.targets[0].id == "CLASSES":
                schema = ast.literal_eval(node.value)
    for fn in sorted(os.listdir(directory)):
        if not fn.endswith(".py") or fn in ("schema.py", "config.py", "__init__.py"):
            continue
        path = os.path.join(directory, fn)
        text = open(path).read()
        tree = ast.parse(text, filename=path)
        for node in tree.body:
            if isinstance(node, ast.Assign) and len(node.targets) == 1 and isinstance(node.targets[0], ast.Name):
                try:
                    consts[node.targets[0].id] = ast.literal_eval(node.value)
                except Exception:
                    consts[node.targets[0].id] = node  # evaluated later in the namespace
                continue
            if not isinstance(node, ast.FunctionDef):
                continue
            tag = None
            for d in node.decorator_list:
                if isinstance(d, ast.Call) and isinstance(d.func, ast.Name) and d.func.id in ("contract", "lemma"):
                    flags = {}
                    for k in d.keywords:
                        try:
                            flags[k.arg] = ast.literal_eval(k.value)
                        except Exception:
                            flags[k.arg] = None
                    tag = (d.func.id, ast.literal_eval(d.args[0]), flags)
            if tag is None:
                specfuncs[node.name] = node
            elif tag[0] == "contract":
                contracts[tag[1]] = ContractDef(tag[1], node, path, text, tag[2])
    return contracts, consts, specfuncs, schema


# =========================================================================== AST rewriting

class Rewrite(ast.NodeTransformer):
    """implies/ite -> guarded evaluation; forall/exists -> __quant__; old(e) -> pre-state copies;
    ==/!= -> __eq__ (floats are compared up to rounding: the engine reasons over reals)."""

    def __init__(self, params=None):
        self.params = params

    def visit_Call(self, node):
        self.generic_visit(node)
        f = node.func
        if not isinstance(f, ast.Name):
            return node
        if f.id == "implies" and len(node.args) == 2 and not node.keywords:
            return ast.BoolOp(op=ast.Or(), values=[ast.UnaryOp(op=ast.Not(), operand=node.args[0]), node.args[1]])
        if f.id == "ite" and len(node.args) == 3:
            return ast.IfExp(test=node.args[0], body=node.args[1], orelse=node.args[2])
        if f.id in ("forall", "exists") and node.args and isinstance(node.args[0], ast.Lambda):
            lam = node.args[0]
            names = [a.arg for a in lam.args.args]
            if len(lam.args.defaults) != len(names):
                return node
            tys = [d.value if isinstance(d, ast.Constant) and isinstance(d.value, str) else ast.unparse(d)
                   for d in lam.args.defaults]
            new = ast.Lambda(args=ast.arguments(posonlyargs=[], args=[ast.arg(arg=n) for n in names], vararg=None,
                                                kwonlyargs=[], kw_defaults=[], kwarg=None, defaults=[]), body=lam.body)
            return ast.Call(func=ast.Name(id="__quant__", ctx=ast.Load()),
                            args=[ast.Constant(f.id), new, ast.Tuple(elts=[ast.Constant(t) for t in tys], ctx=ast.Load()),
                                  ast.Constant(ast.unparse(lam.body)[:80])], keywords=[])
        if f.id == "old" and len(node.args) == 1 and self.params is not None:
            lam = ast.Lambda(args=ast.arguments(posonlyargs=[], args=[ast.arg(arg=n) for n in self.params], vararg=None,
                                                kwonlyargs=[], kw_defaults=[], kwarg=None, defaults=[]), body=node.args[0])
            return ast.Call(func=lam, args=[ast.Starred(value=ast.Name(id="__oldargs__", ctx=ast.Load()), ctx=ast.Load())],
                            keywords=[])
        return node

    def visit_Compare(self, node):
        self.generic_visit(node)
        if len(node.ops) == 1 and isinstance(node.ops[0], (ast.Eq, ast.NotEq)):
            call = ast.Call(func=ast.Name(id="__eq__", ctx=ast.Load()), args=[node.left, node.comparators[0]], keywords=[])
            if isinstance(node.ops[0], ast.NotEq):
                return ast.UnaryOp(op=ast.Not(), operand=call)
            return call
        return node


def compile_expr(node, params, where="<contract>"):
    new = Rewrite(params).visit(copy.deepcopy(node))
    e = ast.Expression(body=new)
    ast.fix_missing_locations(e)
    return compile(e, where, "eval")


def compile_stmts(nodes, params, where="<contract>"):
    new = [Rewrite(params).visit(copy.deepcopy(n)) for n in nodes]
    m = ast.Module(body=new, type_ignores=[])
    ast.fix_missing_locations(m)
    return compile(m, where, "exec")


# =========================================================================== helper builtins

class SkipContract(Exception):
    """The contract cannot be evaluated natively (e.g. unknown opaque function)."""


def _close(a, b):
    return math.isclose(a, b, rel_tol=REL_TOL, abs_tol=ABS_TOL)


def spec_eq(a, b):
    try:
        r = a == b
    except Exception:
        return False
    if r is True:
        return True
    ta, tb = type(a), type(b)
    if (ta is float or tb is float) and ta in (int, float, bool) and tb in (int, float, bool):
        try:
            return _close(a, b)
        except Exception:
            return False
    return r


def parses_int(v):
    try:
        int(v)
        return True
    except Exception:
        return False


def parses_float(v):
    try:
        return math.isfinite(float(v))
    except Exception:
        return False


OPAQUE = {"parses_int": parses_int, "parses_float": parses_float}


def opaque(name, _type, *args):
    if name not in OPAQUE:
        raise NotImplementedError(f"opaque function {name!r} has no native implementation")
    return OPAQUE[name](*args)


class Universe:
    """Candidate values for quantifier binders: everything found inside the roots."""

    BIG = 48

    def __init__(self, roots, walk_fields):
        self.ints, self.floats, self.strs = set(), set(), set()
        self.tuples = []
        self.pairs = set()        # (int, str)
        self.pile_pos, self.pile_ops = set(), set()
        self.key_ints, self.key_strs = set(), set()   # values used as dict keys / set elements / record fields
        self.objs = {}
        self._seen = set()
        self.walk_fields = walk_fields
        stack = list(roots)
        n = 0
        while stack and n < 400000:
            n += 1
            self._visit(stack.pop(), stack)

    def _key(self, k):
        t = type(k)
        if t is int:
            self.key_ints.add(k)
        elif t is str:
            if len(k) <= 40:
                self.key_strs.add(k)
        elif isinstance(k, tuple):
            for x in k:
                self._key(x)

    def _visit(self, v, stack):
        if v is None:
            return
        t = type(v)
        if t is bool:
            return
        if t is int:
            self.ints.add(v)
            return
        if t is float:
            if v == v and abs(v) != float("inf"):
                self.floats.add(v)
            return
        if t is str:
            if len(v) <= 40:
                self.strs.add(v)
            return
        if id(v) in self._seen:
            return
        self._seen.add(id(v))
        if isinstance(v, tuple):
            self.tuples.append(v)
            if len(v) == 2 and type(v[0]) is int and type(v[1]) is str:
                self.pairs.add((v[0], v[1]))
            if hasattr(v, "_fields"):
                self.objs.setdefault(t.__name__, []).append(v)
                for x in v:
                    self._key(x)
            stack.extend(v)
            return
        if isinstance(v, dict):
            items = list(v.items())
            if len(items) > self.BIG:
                items = items[:32] + items[-16:]
            for k, x in items:
                stack.append(k)
                stack.append(x)
                self._key(k)
                if type(k) is int and isinstance(x, dict) and x and all(type(o) is str for o in x):
                    self.pile_pos.add(k)
                    self.pile_ops.update(x)
            return
        if isinstance(v, (list, set, frozenset)):
            xs = list(v)
            if len(xs) > self.BIG:
                if not isinstance(v, list):
                    xs = sorted(xs, key=repr)
                xs = xs[:32] + xs[-16:]
            if not isinstance(v, list):
                for x in xs:
                    self._key(x)
            stack.extend(xs)
            return
        d = getattr(v, "__dict__", None)
        if isinstance(d, dict) and not isinstance(v, type) and not callable(v):
            self.objs.setdefault(t.__name__, []).append(v)
            only = self.walk_fields.get(t.__name__)
            for k, x in d.items():
                if k == "_yml" or (only is not None and k not in only):
                    continue
                stack.append(x)


class Case:
    """State of the case being checked (needed by the quantifier helper)."""

    def __init__(self, checker, seed_key):
        self.checker = checker
        self.seed_key = seed_key
        self.roots = []
        self.cached = None
        self.cache_ok = False
        self.nquant = 0

    def universe(self):
        if self.cached is not None and self.cache_ok:
            return self.cached
        from factories import WALK_FIELDS
        self.cached = Universe(self.roots() if callable(self.roots) else self.roots, WALK_FIELDS)
        self._dom = {}
        return self.cached

    def domain(self, tname, U):
        from factories import parse_type, NoFactory
        if tname in self._dom:
            return self._dom[tname]
        try:
            t = parse_type(tname)
        except NoFactory as e:
            raise SkipContract(f"quantifier binder type {tname!r}: {e}")
        d = self._domain(t, U)
        self._dom[tname] = d
        return d

    def priority(self, tname, U, full):
        """Sub-domain enumerated exhaustively first when the full product exceeds the cap: binders are
        mostly used for indexing, so values that occur as keys / record fields (and small ints) go first."""
        if tname == "int":
            s = set(U.key_ints) | {-1, 0, 1, 2, 3}
            if len(U.key_ints) <= 40:
                for i in U.key_ints:
                    s.add(i - 1)
                    s.add(i + 1)
            return sorted(s)
        if tname == "str":
            return sorted(U.key_strs | {"", "_", "x"})
        return full

    def _domain(self, t, U):
        k = t.kind
        if k == "prim":
            if t.name == "int":
                s = set(U.ints)
                for i in U.ints:
                    s.add(i + 1)
                    s.add(i - 1)
                s.update((0, -1))
                return sorted(s)
            if t.name == "str":
                return sorted(U.strs | {"", "_", "x"})
            if t.name == "float":
                return sorted(U.floats | {0.0, 1.0, 0.5} | {float(i) for i in U.ints if abs(i) < 100})
            if t.name == "bool":
                return [False, True]
            if t.name == "None":
                return [None]
            raise SkipContract("quantifier over an untyped binder")
        if k == "cls":
            cls = self.checker.classes.get(t.name)
            if t.name == "Mutation" and cls is not None:
                pos = sorted({p for p, _ in U.pairs} | U.pile_pos)
                ops = sorted({o for _, o in U.pairs} | U.pile_ops | {"_"})
                return [cls(p, o) for p in pos for o in ops]
            ent = self.checker.schema.get(t.name)
            if ent and ent.get("kind") == "alias":
                from factories import parse_type
                return self._domain(parse_type(ent["type"]), U)
            return list(U.objs.get(t.name, []))
        if k == "union":
            out = []
            for a in t.args:
                out += self._domain(a, U)
            return out
        if k == "tuple":
            prim = {"int": int, "str": str, "float": (int, float), "bool": bool}
            out, seen = [], set()
            for tp in U.tuples:
                if len(tp) != len(t.args) or tp in seen:
                    continue
                if all(a.kind != "prim" or a.name not in prim or (isinstance(x, prim[a.name]) and (a.name == "bool") == (type(x) is bool))
                       for a, x in zip(t.args, tp)):
                    try:
                        seen.add(tp)
                    except TypeError:
                        continue
                    out.append(tp)
            return out
        raise SkipContract(f"no finite candidate domain for binder type {t!r}")

    def quant(self, kind, fn, tnames, text=""):
        U = self.universe()
        doms = [self.domain(t, U) for t in tnames]
        total = 1
        for d in doms:
            total *= len(d)
        self.nquant += 1
        if total <= QUANT_CAP:
            it = itertools.product(*doms)
        else:
            r = random.Random(f"{self.seed_key}/q{self.nquant}/{text}")
            self.checker.note_once(f"a quantifier domain exceeded {QUANT_CAP} combinations: key-like values enumerated "
                                   "exhaustively, the rest sampled")
            prio = [self.priority(t, U, d) for t, d in zip(tnames, doms)]
            ptotal = 1
            for d in prio:
                ptotal *= len(d)

            def staged():
                used = 0
                if ptotal <= QUANT_CAP:
                    for xs in itertools.product(*prio):
                        used += 1
                        yield xs
                else:
                    for _ in range(QUANT_CAP // 2):
                        used += 1
                        yield tuple(r.choice(d) for d in prio)
                for _ in range(max(QUANT_CAP - used, QUANT_CAP // 4)):
                    yield tuple(r.choice(d) for d in doms)
            it = staged()
        if kind == "forall":
            for xs in it:
                if not fn(*xs):
                    self.last_witness = (text, xs)
                    return False
            return True
        for xs in it:
            if fn(*xs):
                return True
        return False


CURRENT = [None]


def __quant__(kind, fn, tnames, text=""):
    case = CURRENT[0]
    if case is None:
        raise RuntimeError("quantifier evaluated outside a case")
    return case.quant(kind, fn, tnames, text)


def base_namespace(aldy, schema):
    """Helper builtins + the real aldy objects."""
    ns = {
        "__builtins__": __builtins__,
        "implies": lambda a, b: (not a) or b,
        "iff": lambda a, b: bool(a) == bool(b),
        "ite": lambda c, a, b: a if c else b,
        "old": lambda v: v,
        "typed": lambda v, n: type(v).__name__ == n,
        "is_none": lambda v: v is None,
        "sameobj": lambda a, b: a is b,
        "count": lambda x: len(list(x)),
        "opaque": opaque,
        "__quant__": __quant__,
        "__eq__": spec_eq,
        "math": math,
    }
    classes = {}
    for mod, names in (("aldy.common", ["AldyException", "GRange"]), ("aldy.gene", ["Mutation", "CNConfigType"]),
                       ("aldy.lpinterface", ["NoSolutionsError"]), ("aldy.solutions", ["MinorSolution"])):
        try:
            m = importlib.import_module(mod)
            for n in names:
                classes[n] = getattr(m, n)
        except Exception:
            pass
    for name, ent in schema.items():
        qn = ent.get("qualname")
        if not qn:
            continue
        mod, _, attr = qn.rpartition(".")
        try:
            classes[name] = getattr(importlib.import_module(mod), attr)
        except Exception:
            pass
    from collections import defaultdict, Counter
    ns.update(defaultdict=defaultdict, Counter=Counter)
    ns.update(classes)
    return ns, classes


# =========================================================================== resolving the function under test

class Target:
    def __init__(self):
        self.fn = None
        self.cls = None
        self.module = None
        self.fnode = None
        self.nested_ns = None
        self.bind_cls = False


def find_def(body, name):
    for n in body:
        if isinstance(n, (ast.FunctionDef, ast.AsyncFunctionDef, ast.ClassDef)) and n.name == name:
            return n
        if isinstance(n, (ast.If, ast.Try, ast.With, ast.For, ast.While)):
            for sub in ("body", "orelse", "finalbody"):
                r = find_def(getattr(n, sub, []) or [], name)
                if r is not None:
                    return r
            for h in getattr(n, "handlers", []) or []:
                r = find_def(h.body, name)
                if r is not None:
                    return r
    return None


def resolve_target(qualname):
    parts = qualname.split(".")
    module, k = None, 0
    for i in range(len(parts), 0, -1):
        try:
            module = importlib.import_module(".".join(parts[:i]))
            k = i
            break
        except ImportError:
            continue
    if module is None:
        raise LookupError(f"cannot import a module for {qualname}")
    t = Target()
    t.module = module
    src = open(module.__file__).read()
    node = ast.parse(src, filename=module.__file__)
    obj = module
    body = node.body
    cur_node = None
    for j, name in enumerate(parts[k:]):
        cur_node = find_def(body, name)
        if cur_node is None:
            raise LookupError(f"{name} not found in the source of {'.'.join(parts[:k + j])}")
        body = cur_node.body
        if obj is not None and (isinstance(obj, type) or obj is module):
            raw = obj.__dict__.get(name) if isinstance(obj, type) else getattr(obj, name, None)
            if raw is None and isinstance(obj, type):
                raw = getattr(obj, name, None)
            if isinstance(obj, type):
                t.cls = obj
            if isinstance(raw, staticmethod):
                raw = raw.__func__
                t.cls = None
            elif isinstance(raw, classmethod):
                raw = raw.__func__
                t.bind_cls = True
            elif isinstance(raw, property):
                raw = raw.fget
            obj = raw
            if obj is None:
                raise LookupError(f"{name} not found in {'.'.join(parts[:k + j])}")
        else:
            # nested def: compile it as a top-level function of the module's namespace
            if not isinstance(cur_node, (ast.FunctionDef,)):
                raise LookupError(f"{name} is not a plain nested function")
            for n in ast.walk(cur_node):
                if isinstance(n, ast.Nonlocal):
                    raise LookupError(f"nested function {name} uses nonlocal")
            fd = copy.deepcopy(cur_node)
            fd.decorator_list = []
            m = ast.Module(body=[fd], type_ignores=[])
            ast.fix_missing_locations(m)
            ns = dict(module.__dict__)
            exec(compile(m, module.__file__, "exec"), ns)
            obj = ns[name]
            t.nested_ns = ns
            t.cls = None
    if not callable(obj):
        raise LookupError(f"{qualname} is not callable")
    t.fn = obj
    t.fnode = cur_node
    return t


# =========================================================================== structural comparison (frame)

def _show_path(path):
    out = ""
    for kind, x in path:
        out += f".{x}" if kind == "f" else f"[{x!r}]"
    return out or "<itself>"


def _short(v, n=120):
    from factories import describe
    s = describe(v)
    return s if len(s) <= n else s[:n] + "..."


def deep_diff(a, b, path, allowed, out, seen, limit=6):
    """Differences between the pre-call copy `a` and the post-call object `b` (except below allowed paths)."""
    if len(out) >= limit:
        return
    if allowed and any(path == p for p in allowed):
        return
    if a is b:
        return
    key = (id(a), id(b))
    if key in seen:
        return
    seen.add(key)
    ta, tb = type(a), type(b)
    if isinstance(a, dict) and isinstance(b, dict):
        if len(a) > 2000 and len(a) == len(b):
            try:
                if a == b:  # big look-up tables: C-speed comparison first
                    return
            except Exception:
                pass
        try:
            added = [k for k in b if k not in a]
            removed = [k for k in a if k not in b]
        except TypeError:
            added, removed = [], []
        if added:
            out.append(f"{_show_path(path)}: added keys {_short(added)}")
        if removed:
            out.append(f"{_show_path(path)}: removed keys {_short(removed)}")
        for k, x in a.items():
            try:
                if k in b:
                    deep_diff(x, b[k], path + (("k", k),), allowed, out, seen, limit)
            except TypeError:
                pass
        return
    if ta is not tb:
        out.append(f"{_show_path(path)}: type {ta.__name__} -> {tb.__name__} ({_short(a, 60)} -> {_short(b, 60)})")
        return
    if a is None or ta in (bool, int, str, bytes):
        if a != b:
            out.append(f"{_show_path(path)}: {_short(a, 60)} -> {_short(b, 60)}")
        return
    if ta is float:
        if not (a == b or (a != a and b != b)):
            out.append(f"{_show_path(path)}: {a!r} -> {b!r}")
        return
    if isinstance(a, (list, tuple)):
        if len(a) != len(b):
            out.append(f"{_show_path(path)}: length {len(a)} -> {len(b)} ({_short(a, 80)} -> {_short(b, 80)})")
            return
        for i, (x, y) in enumerate(zip(a, b)):
            deep_diff(x, y, path + (("k", i),), allowed, out, seen, limit)
        return
    if isinstance(a, (set, frozenset)):
        try:
            if a == b:
                return
            out.append(f"{_show_path(path)}: set changed, added {_short(sorted(b - a, key=repr), 80)}, removed {_short(sorted(a - b, key=repr), 80)}")
        except Exception:
            if sorted(map(repr, a)) != sorted(map(repr, b)):
                out.append(f"{_show_path(path)}: set changed")
        return
    da, db = getattr(a, "__dict__", None), getattr(b, "__dict__", None)
    if isinstance(da, dict) and isinstance(db, dict) and not callable(a):
        for k in db:
            if k not in da and not (allowed and any(path + (("f", k),) == p for p in allowed)):
                # (an attribute created by the call is a change of that attribute: allowed when modifies() lists it)
                out.append(f"{_show_path(path + (('f', k),))}: attribute added")
        for k, x in da.items():
            if k not in db:
                out.append(f"{_show_path(path + (('f', k),))}: attribute removed")
            else:
                deep_diff(x, db[k], path + (("f", k),), allowed, out, seen, limit)
        return
    try:
        if a == b:
            return
    except Exception:
        pass
    out.append(f"{_show_path(path)}: {_short(a, 60)} -> {_short(b, 60)}")


# =========================================================================== compiled contract

class Op:
    __slots__ = ("kind", "a", "b", "c", "d")

    def __init__(self, kind, a=None, b=None, c=None, d=None):
        self.kind, self.a, self.b, self.c, self.d = kind, a, b, c, d


class Clause:
    """A (statically) compiled clause statement."""

    def __init__(self, name, node, params, where):
        self.name = name
        self.node = node
        self.items = []     # (code, text)
        self.label_code = None
        self.on_raise = False   # ensures(..., on_raise=True): exceptional postcondition (native extension)
        self.exc = None
        self.when = None
        self.paths = []     # modifies: (root, [("f", name) | ("k", code)], text)
        self.share_fields = []
        kws = {k.arg: k.value for k in node.keywords}
        if "label" in kws:
            self.label_code = compile_expr(kws["label"], params, where)
        if name == "ensures" and "on_raise" in kws:
            try:
                self.on_raise = bool(ast.literal_eval(kws["on_raise"]))
            except Exception:
                raise SkipContract(f"ensures(on_raise=...) must be a literal: {ast.unparse(kws['on_raise'])}")
        if name in ("ensures", "requires"):
            for a in node.args:
                self.items.append((compile_expr(a, params, where), ast.unparse(a)))
        elif name in ("raises", "may_raise"):
            e = node.args[0]
            self.exc = e.id if isinstance(e, ast.Name) else (e.attr if isinstance(e, ast.Attribute) else ast.unparse(e))
            if "when" in kws:
                self.when = (compile_expr(kws["when"], params, where), ast.unparse(kws["when"]))
        elif name == "modifies":
            for a in node.args:
                self.paths.append(self._path(a, params, where))
        elif name == "shares":
            self.items = [(compile_expr(a, params, where), ast.unparse(a)) for a in node.args[:2]]
            self.share_fields = [ast.literal_eval(a) for a in node.args[2:]]

    @staticmethod
    def _path(a, params, where):
        steps, n = [], a
        while True:
            if isinstance(n, ast.Attribute):
                steps.append(("f", n.attr))
                n = n.value
            elif isinstance(n, ast.Subscript):
                steps.append(("k", compile_expr(n.slice, params, where)))
                n = n.value
            elif isinstance(n, ast.Name):
                return (n.id, list(reversed(steps)), ast.unparse(a))
            else:
                raise SkipContract(f"modifies path {ast.unparse(a)!r} is not rooted at a parameter")


def compile_body(stmts, params, where):
    ops = []
    for s in stmts:
        if isinstance(s, ast.Expr) and isinstance(s.value, ast.Call) and isinstance(s.value.func, ast.Name) \
                and s.value.func.id in DEFERRED + PRE_ONLY:
            ops.append(Op("clause", Clause(s.value.func.id, s.value, params, where)))
        elif isinstance(s, ast.Expr) and isinstance(s.value, ast.Constant):
            continue
        elif isinstance(s, ast.If):
            ops.append(Op("if", compile_expr(s.test, params, where), compile_body(s.body, params, where),
                          compile_body(s.orelse, params, where)))
        elif isinstance(s, ast.For):
            assign = ast.Assign(targets=[s.target], value=ast.Name(id="__it__", ctx=ast.Load()))
            ops.append(Op("for", compile_expr(s.iter, params, where), compile_stmts([assign], params, where),
                          compile_body(s.body, params, where), compile_body(s.orelse, params, where)))
        elif isinstance(s, ast.Pass):
            continue
        else:
            ops.append(Op("exec", compile_stmts([s], params, where)))
    return ops


class Deferred:
    __slots__ = ("clause", "idx", "label", "env", "when_value", "paths")

    def __init__(self, clause, idx, label, env):
        self.clause, self.idx, self.label, self.env = clause, idx, label, env
        self.when_value = None
        self.paths = []


class RequiresFailed(Exception):
    pass


# =========================================================================== the checker

class CaseTimeout(BaseException):
    pass


def _alarm(signum, frame):
    raise CaseTimeout()


class Checker:
    def __init__(self, aldy, contracts, consts, specfuncs, schema):
        self.aldy = aldy
        self.contracts, self.schema = contracts, schema
        self.ns, self.classes = base_namespace(aldy, schema)
        self.notes = []
        self.ns_errors = []
        # constants, then spec functions (compiled into the shared namespace)
        for k, v in consts.items():
            if isinstance(v, ast.AST):
                try:
                    self.ns[k] = eval(compile_expr(v, None), self.ns)
                except Exception as e:
                    self.ns_errors.append(f"constant {k}: {type(e).__name__}: {e}")
            else:
                self.ns[k] = v
        for name, node in specfuncs.items():
            fd = copy.deepcopy(node)
            fd.decorator_list = []
            try:
                exec(compile_stmts([fd], None, f"<spec {name}>"), self.ns)
            except Exception as e:
                self.ns_errors.append(f"spec function {name}: {type(e).__name__}: {e}")
        # input hooks: inputs.py plus every inputs_<package>.py next to this file (merged into one namespace)
        import glob as _glob
        import importlib as _importlib
        import types as _types
        hooks = _types.SimpleNamespace()
        here = os.path.dirname(os.path.abspath(__file__))
        for path in sorted(_glob.glob(os.path.join(here, "inputs*.py"))):
            modname = os.path.splitext(os.path.basename(path))[0]
            try:
                m = _importlib.import_module(modname)
                for k, v in vars(m).items():
                    if k.startswith("gen_"):
                        setattr(hooks, k, v)
            except Exception as e:  # hooks are optional
                self.ns_errors.append(f"{modname}.py not usable: {type(e).__name__}: {e}")
        self.hooks = hooks

    def note_once(self, s):
        if s not in self.notes:
            self.notes.append(s)

    # ------------------------------------------------------------------ one function

    def check_function(self, qualname, n=300, seed=0, model=None, budget_s=60.0, genes="all"):
        t0 = time.time()
        self.notes = []
        res = {"function": qualname, "status": "ok", "kind": "bounded-native", "cases": 0, "skipped_by_requires": 0,
               "clauses_checked": 0, "violations": [], "notes": self.notes, "seed": seed,
               "repo": REPO}
        try:
            self._check(qualname, n, seed, model, budget_s, genes, res, t0)
        except SkipContract as e:
            res["status"] = "skipped"
            self.notes.append(f"skipped: {e}")
        except CaseTimeout:
            res["status"] = "error"
            self.notes.append("timeout")
        except Exception as e:
            res["status"] = "error"
            self.notes.append(f"{type(e).__name__}: {e}")
            self.notes.append(traceback.format_exc()[-1500:])
        res["time_s"] = round(time.time() - t0, 2)
        if res["status"] == "ok" and res["violations"]:
            res["status"] = "violation"
        res["notes"] = list(self.notes)
        return res

    def _check(self, qualname, n, seed, model, budget_s, genes, res, t0):
        import factories
        from factories import NoFactory
        if qualname not in self.contracts:
            raise LookupError(f"no contract for {qualname} in {CONTRACT_DIR}")
        c = self.contracts[qualname]
        if c.flags.get("native") is False:
            raise SkipContract("contract is marked native=False")
        for e in self.ns_errors:
            self.notes.append(e)
        # variant contracts: "pkg.mod.func#tag" names another contract of the same real function
        real_qualname = qualname.split("#", 1)[0]
        try:
            tgt = resolve_target(real_qualname)
        except LookupError as e:
            raise SkipContract(f"cannot resolve the function: {e}")
        where = f"{os.path.basename(c.path)}:{c.node.lineno}"
        try:
            ops = compile_body(c.node.body, c.params, where)
        except SyntaxError as e:
            raise SkipContract(f"contract body cannot be compiled natively: {e}")

        # real parameters
        fa = tgt.fnode.args
        real = [(a.arg, "pos") for a in fa.posonlyargs] + [(a.arg, "arg") for a in fa.args]
        if fa.vararg:
            real.append((fa.vararg.arg, "var"))
        real += [(a.arg, "kwonly") for a in fa.kwonlyargs]
        if fa.kwarg:
            real.append((fa.kwarg.arg, "kw"))
        ann = {a.arg: a.annotation for a in fa.posonlyargs + fa.args + fa.kwonlyargs}
        npos = len(fa.posonlyargs + fa.args)
        with_default = set(a.arg for a in (fa.posonlyargs + fa.args)[npos - len(fa.defaults):]) if fa.defaults else set()
        with_default |= {a.arg for a, d in zip(fa.kwonlyargs, fa.kw_defaults) if d is not None}
        real_names = [r for r, _ in real]
        extras = [p for p in c.params if p not in real_names]
        if extras and tgt.nested_ns is None:
            self.notes.append(f"contract parameters {extras} are not parameters of the function (ignored for the call)")
        if tgt.bind_cls and real:
            first = real[0][0]
        else:
            first = None
        for r, kind in real:
            if r not in c.params and r != first and r not in with_default and kind in ("pos", "arg", "kwonly"):
                raise SkipContract(f"contract does not bind parameter {r}")

        # parameter types
        ptypes = {}
        dummy_ctx = factories.Ctx(random.Random(0), seed, self.schema, self.classes, REPO, genes, qualname)
        for p in c.params:
            if p in c.types:
                ptypes[p] = c.types[p]
            elif p == "self" and tgt.cls is not None:
                ptypes[p] = self._schema_name(tgt.cls)
            elif ann.get(p) is not None:
                ptypes[p] = ast.unparse(ann[p])
            else:
                ptypes[p] = None
        hook = None
        if self.hooks is not None:
            # "gen_" + key with every non-word character replaced by "_"
            # (aldy.genotype.genotype#no-data -> gen_aldy_genotype_genotype_no_data)
            hook = getattr(self.hooks, "gen_" + re.sub(r"\W", "_", qualname), None)
        if hook is None:
            for p in c.params:
                if ptypes[p] is None:
                    raise SkipContract(f"no type for parameter {p}")
                try:
                    ok = factories.can_gen(ptypes[p], dummy_ctx)
                except NoFactory as e:
                    raise SkipContract(f"parameter {p}: {e}")
                if not ok:
                    raise SkipContract(f"parameter {p}: {factories.why_not(ptypes[p], dummy_ctx)} (type {ptypes[p]})")

        violations = {}
        gene_use = {}
        old_handler = signal.signal(signal.SIGALRM, _alarm)
        try:
            cases = []
            if model is not None:
                cases.append(("model", model))
            cases += [(i, None) for i in range(n)]
            for ci, mdl in cases:
                left = budget_s - (time.time() - t0)
                if left <= 0:
                    self.notes.append(f"time budget of {budget_s}s exhausted after {res['cases'] + res['skipped_by_requires']} generated inputs")
                    break
                seed_key = f"{seed}/{qualname}/{ci}"
                rng = random.Random(seed_key)
                ctx = factories.Ctx(rng, seed, self.schema, self.classes, REPO, genes, qualname)
                try:
                    args = self._gen_args(c, ptypes, hook, rng, ctx, mdl)
                except NoFactory as e:
                    raise SkipContract(str(e))
                if ctx.gene_label:
                    gene_use[ctx.gene_label] = gene_use.get(ctx.gene_label, 0) + 1
                signal.setitimer(signal.ITIMER_REAL, max(1.0, left + 5.0))
                try:
                    self._run_case(c, ops, tgt, real, first, extras, args, seed_key, ci, res, violations, ctx._gene)
                except CaseTimeout:
                    res["status"] = "error"
                    self.notes.append(f"case {ci}: timeout (budget {budget_s}s); input: {self._describe_args(args)[:1500]}")
                    break
                finally:
                    signal.setitimer(signal.ITIMER_REAL, 0)
        finally:
            signal.signal(signal.SIGALRM, old_handler)
            CURRENT[0] = None
        res["violations"] = list(violations.values())
        if gene_use:
            self.notes.append("genes used: " + ", ".join(f"{k} x{v}" for k, v in sorted(gene_use.items())))
        self.notes.append("bounded native check on generated inputs (not a proof); float ==/!= in clauses is compared "
                          f"with rel_tol={REL_TOL} because the engine reasons over reals")

    def _schema_name(self, cls):
        for name, k in self.classes.items():
            if k is cls:
                return name
        return cls.__name__

    def _gen_args(self, c, ptypes, hook, rng, ctx, mdl):
        import factories
        args = {}
        if hook is not None:
            given = hook(rng, ctx) or {}
            for p in c.params:
                if p in given:
                    args[p] = given[p]
                    ctx.args[p] = given[p]
        for p in c.params:
            if p in args:
                continue
            if ptypes[p] is None:
                raise factories.NoFactory(f"no type for parameter {p}")
            ctx.param = p
            args[p] = factories.gen(ptypes[p], rng, ctx)
            ctx.args[p] = args[p]
        if mdl:
            for p, spec in mdl.items():
                if p not in args:
                    continue
                try:
                    args[p] = factories.from_spec(spec, ptypes.get(p), rng, ctx, self.ns)
                    ctx.args[p] = args[p]
                except Exception as e:
                    self.note_once(f"--model: value for {p} not usable ({type(e).__name__}: {e})")
        return {p: args[p] for p in c.params}

    def _describe_args(self, args):
        from factories import describe
        try:
            return "{" + ", ".join(f"{k!r}: {describe(v)}" for k, v in args.items()) + "}"
        except Exception as e:
            return f"<input not printable: {type(e).__name__}: {e}>"

    # ------------------------------------------------------------------ one case

    def _user_env(self, g):
        ns = self.ns
        return {k: v for k, v in g.items() if k not in ns or ns[k] is not v}

    def _run_pre(self, ops, g, deferred, counter):
        for op in ops:
            if op.kind == "exec":
                exec(op.a, g)
            elif op.kind == "if":
                self._run_pre(op.b if eval(op.a, g) else op.c, g, deferred, counter)
            elif op.kind == "for":
                for it in eval(op.a, g):
                    g["__it__"] = it
                    exec(op.b, g)
                    self._run_pre(op.c, g, deferred, counter)
                self._run_pre(op.d, g, deferred, counter)
            else:
                cl = op.a
                if cl.name == "requires":
                    for code, text in cl.items:
                        if not eval(code, g):
                            raise RequiresFailed(text)
                    continue
                if cl.name in PRE_ONLY:
                    continue
                idx = counter[0]
                counter[0] += 1
                label = eval(cl.label_code, g) if cl.label_code is not None else None
                d = Deferred(cl, idx, label if label is not None else str(idx), self._user_env(g))
                if cl.name == "raises" and cl.when is not None:
                    d.when_value = bool(eval(cl.when[0], g))
                if cl.name == "modifies":
                    for root, steps, text in cl.paths:
                        d.paths.append((root, tuple((k, x) if k == "f" else (k, eval(x, g)) for k, x in steps), text))
                deferred.append(d)

    def _violation(self, violations, clause, text, pre_args, detail, ci):
        if clause in violations:
            violations[clause]["count"] += 1
            return
        violations[clause] = {"clause": clause, "text": text, "input": self._describe_args(pre_args)[:4000],
                              "detail": detail[:2000], "case": ci, "count": 1}

    def _run_case(self, c, ops, tgt, real, first, extras, args, seed_key, ci, res, violations, gene=None):
        from factories import big_table_memo
        case = Case(self, seed_key)
        CURRENT[0] = case
        g = dict(self.ns)
        g.update(args)
        g["__oldargs__"] = tuple(args[p] for p in c.params)
        case.roots = lambda: list(args.values()) + list(self._user_env(g).values())
        case.cache_ok = False
        deferred = []
        try:
            self._run_pre(ops, g, deferred, [0])
        except RequiresFailed:
            res["skipped_by_requires"] += 1
            return
        except NotImplementedError as e:
            raise SkipContract(str(e))
        except SkipContract:
            raise
        except NameError as e:
            # contract vocabulary the native checker does not implement (LP model clauses, cut_after, ...)
            raise SkipContract(f"contract uses vocabulary not available natively: {e}")
        except Exception as e:
            # the contract's pre-state part cannot be evaluated on this input: not a property violation
            res["cases"] += 1
            self.note_once(f"contract pre-state not evaluable on some inputs ({type(e).__name__}: {e})")
            return
        res["cases"] += 1

        # pre-state copies (one memo: aliasing between arguments and ghost values is preserved)
        memo = {}
        copy_ok = True
        try:
            if gene is not None:
                big_table_memo(gene, memo)
            pre_args = copy.deepcopy(args, memo)
            for d in deferred:
                env = {}
                for k, v in d.env.items():
                    if k in args or k.startswith("__"):
                        continue
                    try:
                        env[k] = copy.deepcopy(v, memo)
                    except Exception:
                        env[k] = v
                d.env = env
        except Exception as e:
            copy_ok = False
            pre_args = args
            self.note_once(f"arguments cannot be deep-copied ({type(e).__name__}: {e}): frame and old() are not checked")

        # the call
        pos, kw = [], {}
        positional_ok = True
        for r, kind in real:
            if r == first:
                pos.append(tgt.cls)
                continue
            if r not in args:
                positional_ok = False
                continue
            v = args[r]
            if kind == "pos" or (kind == "arg" and positional_ok):
                pos.append(v)
            elif kind == "var":
                pos.extend(v)
            elif kind == "kw":
                kw.update(v)
            else:
                kw[r] = v
        if tgt.nested_ns is not None:
            for x in extras:
                tgt.nested_ns[x] = args[x]
        raised, result = None, None
        try:
            result = tgt.fn(*pos, **kw)
        except CaseTimeout:
            raise
        except Exception as e:
            raised = e
            tb = traceback.extract_tb(e.__traceback__)
            raised_at = f"{os.path.basename(tb[-1].filename)}:{tb[-1].lineno}" if tb else "?"
        finally:
            # optional post-call cleanup supplied by an input hook (e.g. restoring patched functions);
            # runs whether the call returned, raised or timed out
            for v in list(args.values()):
                try:
                    after = getattr(v, "__verif_after_call__", None)
                    if after is not None:
                        after()
                except Exception:
                    pass

        oc = res.setdefault("outcomes", {})
        key = "returned" if raised is None else f"raised {type(raised).__name__}"
        oc[key] = oc.get(key, 0) + 1

        # post-state
        ghost_roots = [v for d in deferred for v in d.env.values()]
        case.roots = list(args.values()) + [result] + (list(pre_args.values()) if copy_ok else []) + ghost_roots
        case.cached = None
        case.cache_ok = True
        oldargs = tuple(pre_args[p] for p in c.params)

        declared = [(d.clause.exc, self.ns.get(d.clause.exc)) for d in deferred if d.clause.name in ("raises", "may_raise")]
        if raised is not None:
            res["clauses_checked"] += 1
            ok = False
            for name, cls in declared:
                if (isinstance(cls, type) and isinstance(raised, cls)) or type(raised).__name__ == name:
                    ok = True
            if not ok:
                self._violation(violations, f"no-unexpected-exception/{type(raised).__name__}", "", pre_args,
                                f"{type(raised).__name__}: {raised} (raised at {raised_at})", ci)

        def post_env(d):
            e = dict(self.ns)
            e.update(args)
            e.update(d.env)
            e["result"] = result
            e["raised"] = raised   # the exception object (None on normal return); used by on_raise clauses
            e["__oldargs__"] = oldargs
            return e

        for d in deferred:
            cl = d.clause
            # plain ensures: only on normal return; ensures(on_raise=True): only when the call raised
            if cl.name == "ensures" and (raised is None) != cl.on_raise:
                outcome = f"result = {_short(result, 300)}" if raised is None else \
                    f"raised = {type(raised).__name__}: {str(raised)[:200]} (at {raised_at})"
                for j, (code, text) in enumerate(cl.items):
                    name = f"post/{d.label}" + (f".{j}" if len(cl.items) > 1 else "")
                    res["clauses_checked"] += 1
                    case.last_witness = None
                    try:
                        ok = eval(code, post_env(d))
                        detail = f"clause is false; {outcome}"
                        if not ok and case.last_witness:
                            detail += f"; quantifier witness {case.last_witness[1]!r} for body {case.last_witness[0]!r}"
                    except NotImplementedError as e:
                        raise SkipContract(str(e))
                    except SkipContract:
                        raise
                    except CaseTimeout:
                        raise
                    except Exception as e:
                        ok = False
                        detail = f"evaluating the clause raised {type(e).__name__}: {e}; {outcome}"
                    if not ok:
                        self._violation(violations, name, text, pre_args, detail, ci)
            elif cl.name == "shares" and raised is None:
                env = post_env(d)
                try:
                    dst, src = eval(cl.items[0][0], env), eval(cl.items[1][0], env)
                except Exception as e:
                    self._violation(violations, "post/shares", ast.unparse(cl.node), pre_args,
                                    f"evaluating shares() raised {type(e).__name__}: {e}", ci)
                    continue
                for f in cl.share_fields:
                    res["clauses_checked"] += 1
                    try:
                        same = getattr(dst, f) is getattr(src, f)
                        detail = f"{cl.items[0][1]}.{f} is not the same object as {cl.items[1][1]}.{f}"
                    except Exception as e:
                        same, detail = False, f"{type(e).__name__}: {e}"
                    if not same:
                        self._violation(violations, f"post/shares/{f}", f"{cl.items[0][1]}.{f} is {cl.items[1][1]}.{f}",
                                        pre_args, detail, ci)
            elif cl.name == "raises" and cl.when is not None:
                cls = self.ns.get(cl.exc)
                is_exc = raised is not None and ((isinstance(cls, type) and isinstance(raised, cls))
                                                 or type(raised).__name__ == cl.exc)
                res["clauses_checked"] += 1
                if is_exc and not d.when_value:
                    self._violation(violations, f"raises/{d.label}/only-when", cl.when[1], pre_args,
                                    f"{type(raised).__name__}: {raised} was raised (at {raised_at}) although the condition is false", ci)
                elif raised is None and d.when_value:
                    self._violation(violations, f"raises/{d.label}/must-raise", cl.when[1], pre_args,
                                    f"the condition holds but the call returned {_short(result, 300)}", ci)

        # frame
        if copy_ok:
            allowed = {}
            for d in deferred:
                if d.clause.name == "modifies":
                    for root, steps, text in d.paths:
                        allowed.setdefault(root, []).append(steps)
            for p in c.params:
                res["clauses_checked"] += 1
                al = allowed.get(p, [])
                if any(len(s) == 0 for s in al):
                    continue
                out = []
                deep_diff(pre_args[p], args[p], (), al, out, set())
                if out:
                    mods = ", ".join(t for d in deferred if d.clause.name == "modifies" for _, _, t in d.paths)
                    self._violation(violations, f"frame/{p}", f"modifies({mods})", pre_args,
                                    f"argument {p} changed outside the modifies clause: " + "; ".join(out), ci)


# =========================================================================== CLI

def summary_table(results):
    rows = [("function", "status", "cases", "req-skip", "clauses", "viol", "time", "notes")]
    for r in results:
        note = ""
        if r["status"] == "skipped":
            note = next((x for x in r["notes"] if x.startswith("skipped:")), "")
        elif r["status"] == "error":
            note = r["notes"][0] if r["notes"] else ""
        elif r["violations"]:
            note = ", ".join(f"{v['clause']} x{v['count']}" for v in r["violations"])
        rows.append((r["function"], r["status"], str(r["cases"]), str(r["skipped_by_requires"]), str(r["clauses_checked"]),
                     str(len(r["violations"])), f"{r.get('time_s', 0):.1f}s", note[:110]))
    w = [max(len(row[i]) for row in rows) for i in range(7)]
    lines = []
    for i, row in enumerate(rows):
        lines.append("  ".join(row[j].ljust(w[j]) for j in range(7)) + "  " + row[7])
        if i == 0:
            lines.append("  ".join("-" * w[j] for j in range(7)) + "  -----")
    return "\n".join(lines)


def main(argv=None):
    ap = argparse.ArgumentParser(description=__doc__, formatter_class=argparse.RawDescriptionHelpFormatter)
    ap.add_argument("--function", help="qualified name of the function whose contract is checked")
    ap.add_argument("--all", action="store_true", help="check every contract in the contracts directory")
    ap.add_argument("--n", type=int, default=300, help="number of generated inputs")
    ap.add_argument("--seed", type=int, default=0)
    ap.add_argument("--model", help="JSON file {param: literal | constructor spec} tried first")
    ap.add_argument("--budget-s", type=float, default=60.0, help="time budget per function")
    ap.add_argument("--genes", default="all", help="'all' (toy + a few big shipped genes) or a single gene file name, e.g. 'toy'")
    ap.add_argument("--json", action="store_true", help="with --all: print the full JSON results after the table")
    a = ap.parse_args(argv)
    if not a.all and not a.function:
        ap.error("--function or --all is required")

    # hash-order determinism for a given --seed (set iteration order inside aldy depends on it)
    if os.environ.get("PYTHONHASHSEED") is None:
        env = dict(os.environ, PYTHONHASHSEED="0")
        os.execve(sys.executable, [sys.executable, os.path.abspath(__file__)] + (sys.argv[1:] if argv is None else list(argv)), env)

    try:
        aldy = boot()
        contracts, consts, specfuncs, schema = load_contract_files()
        chk = Checker(aldy, contracts, consts, specfuncs, schema)
    except Exception as e:
        print(json.dumps({"function": a.function, "status": "error", "cases": 0, "skipped_by_requires": 0,
                          "clauses_checked": 0, "violations": [],
                          "notes": [f"{type(e).__name__}: {e}", traceback.format_exc()[-1500:]]}))
        return 3
    model = None
    if a.model:
        try:
            model = json.load(open(a.model))
            if not isinstance(model, dict):
                model = None
        except Exception as e:
            model = None
            sys.stderr.write(f"--model ignored: {e}\n")

    if a.function:
        r = chk.check_function(a.function, a.n, a.seed, model, a.budget_s, a.genes)
        print(json.dumps(r, indent=1, default=str))
        return {"ok": 0, "violation": 1, "skipped": 2}.get(r["status"], 3)

    results = []
    for qn in contracts:
        results.append(chk.check_function(qn, a.n, a.seed, None, a.budget_s, a.genes))
    print(f"native contract check of {len(results)} contracts against {REPO} (n={a.n}, seed={a.seed}, bounded: not a proof)")
    print(summary_table(results))
    for r in results:
        for v in r["violations"]:
            print(f"\nVIOLATION {r['function']} {v['clause']} (case {v['case']}, {v['count']} cases)")
            print(f"  text:   {v['text']}")
            print(f"  detail: {v['detail']}")
            print(f"  input:  {v['input'][:1200]}")
    if a.json:
        print(json.dumps(results, indent=1, default=str))
    st = {r["status"] for r in results}
    return 1 if "violation" in st else 3 if "error" in st else 0


if __name__ == "__main__":
    sys.exit(main())
