"""Input hooks for the read / evidence-layer contracts (/verif/contracts/sam.py).

`gen_<qualname with dots replaced by _>(rng, ctx)` returns the argument dict (plus the extra, non-parameter
names the contract lists: `other`, `src`, `src_norm`, `src_muts`).
"""
import os
import tarfile
from collections import defaultdict

import factories_sam as fs
from factories_sam import (pick_gene, bare_sample, plain_profile, random_read, random_tables, catalogue_positions,
                           case_dir, write_bam, write_vcf, random_bam_reads, mnp_sites)

# (name, genome, weight): the shipped toy gene (both strands), the generated consistent gene (both strands,
# contiguous + gapped + silent multi-nucleotide substitutions) and CYP2D6 (real multi-nucleotide substitutions)
READ_GENES = [("toy", "hg19", 20), ("toy", "hg38", 20), ("samtoy", "hg19", 22), ("samtoy", "hg38", 22),
              ("cyp2d6", "hg19", 6), ("cyp2d6", "hg38", 10)]
VCF_GENES = [("samtoy", "hg19", 40), ("samtoy", "hg38", 40), ("toy", "hg19", 6), ("toy", "hg38", 6),
             ("cyp2d6", "hg38", 2), ("cyp2d6", "hg19", 1.5)]   # CYP2D6: ~1 s per case (27 000 sites), sparingly


class FakeRead:
    """the four attributes of a pysam.AlignedSegment that _in_region reads"""

    def __init__(self, reference_id, reference_name, reference_start, reference_end):
        self.reference_id = reference_id
        self.reference_name = reference_name
        self.reference_start = reference_start
        self.reference_end = reference_end


# --------------------------------------------------------------------------- C06

def gen_aldy_sam_Sample__parse_read_bin_quality(rng, ctx):
    r = rng.random()
    if r < 0.6:
        q = rng.randint(0, 60)
    elif r < 0.8:
        q = rng.choice([0, 1, 2, 9, 10, 19, 20, 28, 29, 38, 39, 40, 41, 93])
    else:   # means of several base qualities (insertions)
        q = rng.choice([0.5, 1.5, 1.9999, 2.0, 9.5, 9.99, 10.0, 19.5, 28.5, 28.999, 29.0, 38.5, 38.99, 39.0, 55.25])
    return {"q": q}


def gen_aldy_sam__in_region(rng, ctx):
    GRange = ctx.cls("GRange")
    ch = rng.choice(["20", "22"])
    s = rng.choice([1000, 1005, 1010])
    region = GRange(ch, s, s + rng.choice([0, 1, 5, 10]))
    prefix = rng.choice(["", "", "chr"])
    r = rng.random()
    # read intervals around the region: before, touching, overlapping either end, inside, containing, after
    a = rng.randint(region.start - 8, region.end + 8)
    b = a + rng.choice([0, 1, 2, 5, 12, 30])
    if r < 0.12:
        a = region.start - rng.randint(1, 10)
        b = region.end + rng.randint(1, 10)          # the read contains the whole region
    name = prefix + ch
    x = rng.random()
    if x < 0.12:
        name = rng.choice([ch, "chr" + ch, "21", prefix + "2"])       # another contig / missing or extra prefix
    if x > 0.92:
        read = FakeRead(-1, None, -1, None)                            # unmapped
    elif x > 0.86:
        read = FakeRead(0, name, a, None)                              # placed but not aligned
    else:
        read = FakeRead(rng.choice([0, 3]), name, a, b)
    return {"region": region, "read": read, "prefix": prefix}


def _read_case(rng, ctx):
    gene = pick_gene(rng, ctx, READ_GENES)
    s = bare_sample(ctx, gene, plain_profile(rng, ctx))
    this = random_read(rng, gene)
    # a second read close to the first one (same fragment = its mate, 30 %)
    near = this[1] + rng.randint(-6, 10)
    other = random_read(rng, gene, fragment=this[0] if rng.random() < 0.3 else "mate", anchor=near + 5)
    around = [this[1], this[1] + 4, other[1]]
    norm, muts = random_tables(rng, gene, around)
    # phase records of earlier reads (possibly of the same fragment)
    for fr in rng.sample(["frag1", "frag2", "frag3", "mate", "zzz"], rng.choice([0, 1, 2])):
        s.phases[fr] = {p: rng.choice(["_", "A>C", "insT"]) for p in rng.sample(sorted(s.phaseable), min(2, len(s.phaseable)))
                        if rng.random() < 0.8}
    return s, this, other, norm, muts


def gen_aldy_sam_Sample__parse_read(rng, ctx):
    s, this, other, norm, muts = _read_case(rng, ctx)
    fragment, ref_start, cigar, seq, mq, qual = this
    return {"self": s, "fragment": fragment, "ref_start": ref_start, "cigar": cigar, "seq": seq, "norm": norm,
            "muts": muts, "mq": mq, "qual": qual, "other": other}


def gen_aldy_sam_Sample__make_coverage(rng, ctx):
    gene = pick_gene(rng, ctx, READ_GENES)
    s = bare_sample(ctx, gene, plain_profile(rng, ctx))
    s.coverage = None
    lo, hi = min(gene.chr_to_ref), max(gene.chr_to_ref)
    cat = catalogue_positions(gene)
    around = [lo, lo - 2, hi, hi + 2] + rng.sample(cat, min(3, len(cat)))
    norm, muts = random_tables(rng, gene, around)
    for _ in range(rng.choice([1, 2, 4, 8])):       # denser tables than for a single read
        n2, m2 = random_tables(rng, gene, around)
        for k, v in n2.items():
            norm[k] += v
        for k, v in m2.items():
            muts[k] += v
    # catalogued variants (incl. multi-nucleotide substitutions and indels) with observations
    for (p, op) in rng.sample(sorted(gene.mutations), min(3, len(gene.mutations))):
        muts[p, op] += [(40, rng.choice([6, 15, 40]))] * rng.randint(0, 3)
    if rng.random() < 0.3:
        s._indel_sites = {}                           # a database without indels: insertions stay in the table
    if rng.random() < 0.5:
        for k in rng.sample(sorted(s._indel_sites), min(2, len(s._indel_sites))):
            s._indel_sites[k] = [rng.randint(0, 5), rng.randint(0, 5)]
    for k in range(rng.choice([0, 2, 5])):
        s._dump_cn[1000 + k] = rng.randint(0, 9)
    return {"self": s, "norm": norm, "muts": muts}


# --------------------------------------------------------------------------- C07

def _contigs(rng, chrs):
    prefix = rng.choice(["", "", "chr"])
    names = [prefix + c for c in chrs]
    rng.shuffle(names)
    return prefix, [(n, 100000) for n in names]


def gen_aldy_sam_Sample__load_cn_region(rng, ctx):
    GRange = ctx.cls("GRange")
    gene = pick_gene(rng, ctx, [("toy", "hg19", 1), ("toy", "hg38", 1)])
    other_chr = "22"
    prefix, contigs = _contigs(rng, [gene.chr, other_chr, "21"])
    ch = gene.chr if rng.random() < 0.75 else other_chr     # the neutral region may be on another chromosome
    start = rng.choice([2000, 2500, 3000])
    cn_region = GRange(ch, start, start + rng.choice([1, 10, 40, 80]))
    s = bare_sample(ctx, gene, plain_profile(rng, ctx, cn_region))
    for k in range(rng.choice([0, 0, 3])):                  # stale counts of an earlier call must not survive
        s._dump_cn[start + k] = 7
    reads = random_bam_reads(rng, prefix + ch, [(cn_region.start, cn_region.end)],
                             other_contigs=[c for c, _ in contigs if c != prefix + ch])
    path = os.path.join(case_dir("cn"), "sample.bam")
    write_bam(path, contigs, reads)
    s.path = path
    return {"self": s, "path": path, "reference": None, "cn_region": cn_region}


def gen_aldy_profile_Profile_get_sam_profile_data(rng, ctx):
    GRange = ctx.cls("GRange")
    prefix, contigs = _contigs(rng, ["20", "22", "21"])
    regions, windows = {}, {"20": [], "22": []}
    gch = rng.choice(["20", "22"])
    base = rng.choice([3000, 3500])
    bounds = [base]
    for _ in range(rng.choice([1, 2, 3])):
        bounds.append(bounds[-1] + rng.choice([0, 5, 12, 30]))
    for gi in range(rng.choice([1, 2])):
        off = gi * 200
        for k in range(len(bounds) - 1):
            regions["G", f"r{k}", gi] = GRange(gch, bounds[k] + off, bounds[k + 1] + off)
            windows[gch].append((bounds[k] + off, bounds[k + 1] + off))
    if rng.random() < 0.3:                                   # a second gene on the other chromosome
        och = "22" if gch == "20" else "20"
        regions["H", "e1", 0] = GRange(och, 4000, 4000 + rng.choice([5, 20]))
        windows[och].append((4000, 4025))
    nch = rng.choice(["20", "22"])
    ns = rng.choice([2400, 5000])
    cn_region = GRange(nch, ns, ns + rng.choice([1, 10, 50]))
    windows[nch].append((cn_region.start, cn_region.end))
    reads = []
    for c in ("20", "22"):
        if windows[c]:
            rs = random_bam_reads(rng, prefix + c, windows[c], other_contigs=[prefix + "21"])
            for i, r in enumerate(rs):
                r["name"] = f"{c}_{r['name']}"
            reads += rs
    path = os.path.join(case_dir("prof"), "profile.bam")
    write_bam(path, contigs, reads)
    return {"sam_path": path, "ref_path": None, "regions": regions, "cn_region": cn_region,
            "genome": rng.choice(["hg19", "hg38", None]), "params": {}}


# --------------------------------------------------------------------------- C16

GENOTYPES = [(0, 0), (0, 1), (1, 0), (1, 1), (0, 1), (1, 1)]
ODD_GENOTYPES = [(1,), (0, 1, 1), (None, 1), (None, None), (1, 1, 1, 1)]


def _std_record(gene, contig, p, op, rng):
    """the standard left-anchored VCF record of a catalogued variant; None when it cannot be written"""
    if ">" in op and len(op) == 3:
        return {"contig": contig, "pos": p + 1, "ref": op[0], "alts": [op[2]]}
    if op.startswith("ins"):
        a = gene[p - 1]
        return None if a == "N" else {"contig": contig, "pos": p, "ref": a, "alts": [a + op[3:]]}
    if op.startswith("del") and "ins" not in op:
        a = gene[p - 1]
        return None if a == "N" else {"contig": contig, "pos": p, "ref": a + op[3:], "alts": [a]}
    if ">" in op:   # MNP as one record (gap positions carry the reference base)
        l, r = op.split(">")
        ref = gene[p:p + len(l)]
        alt = "".join(ref[i] if c == "." else c for i, c in enumerate(r))
        return {"contig": contig, "pos": p + 1, "ref": ref, "alts": [alt]}
    return None


def gen_aldy_sam_Sample__load_vcf_get_mut(rng, ctx):
    """(pos, ref, alt) of one VCF allele + the closure variable `self`: standard records of catalogued variants,
    random substitutions / deletions / insertions with a common prefix of 0-3 bases, REF that differs from the
    RefSeq-derived reference, and other shapes (identical alleles, MNP, complex, empty ALT)"""
    gene = pick_gene(rng, ctx, VCF_GENES)
    s = bare_sample(ctx, gene, plain_profile(rng, ctx))
    lo, hi = gene._lookup_range
    r = rng.random()
    if r < 0.3 and gene.mutations:
        p, op = rng.choice(sorted(gene.mutations))
        rec = _std_record(gene, gene.chr, p, op, rng)
        if rec is not None:
            return {"pos": rec["pos"] - 1, "ref": rec["ref"], "alt": rec["alts"][0], "self": s}
    pos = rng.choice([lo - 2, lo, hi - 1, hi - 3, rng.randint(lo, hi - 1), rng.randint(lo, hi - 1)])
    k = rng.choice([0, 0, 1, 1, 2, 3])
    pre = gene[pos:pos + k]
    base = gene[pos + k]
    other = rng.choice([b for b in "ACGT" if b != base])
    x = rng.random()
    if x < 0.25:      # substitution (sometimes with a REF that is not the RefSeq-derived base)
        ref_b = base if rng.random() < 0.7 else other
        alt_b = rng.choice([b for b in "ACGT" if b != ref_b])
        ref, alt = pre + ref_b, pre + alt_b
    elif x < 0.45:    # deletion
        d = rng.choice([1, 2, 5])
        ref, alt = pre + gene[pos + k:pos + k + d], pre
    elif x < 0.65:    # insertion
        ref, alt = pre, pre + "".join(rng.choice("ACGT") for _ in range(rng.choice([1, 2, 4])))
    elif x < 0.75:    # identical alleles
        ref = alt = pre + base
    elif x < 0.85:    # MNP
        ref = pre + gene[pos + k:pos + k + 3]
        alt = pre + other + gene[pos + k + 1] + rng.choice("ACGT")
    else:             # complex / symbolic
        ref = pre + gene[pos + k:pos + k + rng.choice([1, 2, 3])]
        alt = rng.choice(["", "<DEL>", other + "TT", pre + other + "G", "*"])
    return {"pos": pos, "ref": ref, "alt": alt, "self": s}


def gen_aldy_sam_Sample__load_vcf(rng, ctx):
    gene = pick_gene(rng, ctx, VCF_GENES)
    prefix, contigs = _contigs(rng, [gene.chr, "21"])
    contig = prefix + gene.chr
    nsamples = rng.choice([1, 1, 2, 3])
    samples = [f"S{i}" for i in range(nsamples)]
    s = bare_sample(ctx, gene, plain_profile(rng, ctx))
    s.coverage = None
    s.kind = "vcf"
    records, used = [], set()

    def gts(main):
        return {smp: (main if i == 0 else rng.choice(GENOTYPES + ODD_GENOTYPES)) for i, smp in enumerate(samples)}

    def add(rec, main=None):
        span = set(range(rec["pos"] - 2, rec["pos"] + len(rec["ref"]) + 1))
        if rec is None or span & used:
            return
        used.update(span)
        rec["gts"] = gts(main if main is not None else rng.choice(GENOTYPES))
        rec["phased"] = rng.random() < 0.3
        records.append(rec)

    cat = sorted(gene.mutations)
    chosen = rng.sample(cat, min(len(cat), rng.choice([0, 1, 2, 3, 5, 8])))
    for (p, op) in chosen:
        if ">" in op and len(op) > 3 and rng.random() < 0.5:
            # a multi-nucleotide substitution written as adjacent single-base records with one genotype
            g = rng.choice(GENOTYPES)
            l, r = op.split(">")
            if set(range(p - 1, p + len(l) + 2)) & used:
                continue
            group = [{"contig": contig, "pos": p + i + 1, "ref": l[i], "alts": [r[i]]} for i in range(len(l)) if l[i] != "."]
            main, phased = gts(g), rng.random() < 0.3
            for rec in group:
                rec["gts"], rec["phased"] = dict(main), phased
                records.append(rec)
            used.update(range(p - 1, p + len(l) + 2))
            continue
        rec = _std_record(gene, contig, p, op, rng)
        if rec is None:
            continue
        if len(op) == 3 and ">" in op:
            x = rng.random()
            if x < 0.25:          # the caller's reference carries the variant: REF / ALT swapped
                rec["ref"], rec["alts"] = rec["alts"][0], [rec["ref"]]
            elif x < 0.45:        # multi-allelic site
                extra = rng.choice([b for b in "ACGT" if b not in (rec["ref"], rec["alts"][0])])
                rec["alts"] = rec["alts"] + [extra] if rng.random() < 0.5 else [extra] + rec["alts"]
                add(rec, rng.choice(GENOTYPES + [(1, 2), (2, 1), (0, 2), (2, 2)]))
                continue
        add(rec, rng.choice(GENOTYPES + ([rng.choice(ODD_GENOTYPES)] if rng.random() < 0.2 else [])))
    # unrelated records: uncatalogued substitutions, MNP / complex records, symbolic alleles, other contig,
    # outside the RefSeq-mapped part
    lo, hi = gene._lookup_range
    for _ in range(rng.choice([0, 1, 2, 4])):
        p = rng.randint(lo + 5, hi - 8) if rng.random() < 0.85 else rng.choice([lo - 20, hi + 30])
        ref = gene[p:p + 3].replace("N", "A")
        x = rng.random()
        if x < 0.35:
            rec = {"pos": p + 1, "ref": ref[0], "alts": [rng.choice([b for b in "ACGT" if b != ref[0]])]}
        elif x < 0.6:             # unrelated MNP
            rec = {"pos": p + 1, "ref": ref[:2], "alts": ["".join(fs.COMP[b] for b in ref[:2])]}
        elif x < 0.8:             # complex
            rec = {"pos": p + 1, "ref": ref, "alts": [fs.COMP[ref[0]]]}
        elif x < 0.9:
            rec = {"pos": p + 1, "ref": ref[0], "alts": ["<DEL>"]}
        else:
            rec = {"pos": p + 1, "ref": ref[:2], "alts": [fs.COMP[ref[0]] + ref[1] + "T"]}
        rec["contig"] = contig if rng.random() < 0.9 else prefix + "21"
        add(rec)
    path = write_vcf(os.path.join(case_dir("vcf"), "calls.vcf"), contigs, samples, records)
    idx = rng.randrange(nsamples) if rng.random() < 0.93 else nsamples + rng.choice([0, 1])
    return {"self": s, "vcf_path": path, "sample_idx": idx}


# --------------------------------------------------------------------------- C17

def gen_aldy_sam_Sample__load_dump(rng, ctx):
    GRange = ctx.cls("GRange")
    gene = pick_gene(rng, ctx, READ_GENES)
    cn = GRange("22", 2000, 2000 + rng.choice([5, 20])) if rng.random() < 0.8 else None
    prof = plain_profile(rng, ctx, cn)
    if rng.random() < 0.5:
        prof.min_coverage = rng.choice([1.0, 2.0, 5.0])
        prof.cn_max = rng.choice([4, 20])
        prof.neutral_value = rng.choice([0.0, 10.0])
        prof.cn_solution = rng.choice([None, ["1", "1"]])
    src = bare_sample(ctx, gene, prof, name=rng.choice(["NA10860", "s", "x_y"]))
    # evidence of a few reads (built by the generator, not by the function under test)
    cat = catalogue_positions(gene)
    around = rng.sample(cat, min(3, len(cat)))
    norm, muts = random_tables(rng, gene, around)
    for _ in range(rng.choice([0, 1, 3, 6])):
        n2, m2 = random_tables(rng, gene, around)
        for k, v in n2.items():
            norm[k] += v
        for k, v in m2.items():
            muts[k] += v
    if cn is not None:
        for p in range(cn.start - 2, cn.end + 2):
            if rng.random() < 0.6:                          # some neutral positions stay uncovered
                src._dump_cn[p] = rng.randint(1, 30)
    for i in range(rng.choice([0, 1, 3, 5])):
        src.phases[f"read{i}"] = {p: rng.choice(["_", "A>C", "delAC", "insT"])
                                  for p in rng.sample(sorted(src.phaseable), min(rng.choice([0, 1, 2, 3]), len(src.phaseable)))}
    for k in rng.sample(sorted(src._indel_sites), min(2, len(src._indel_sites))):
        src._indel_sites[k] = [rng.randint(0, 9), rng.randint(0, 9)]
    if rng.random() < 0.3:
        src._fusion_counter = {"68": [rng.randint(0, 5), rng.randint(0, 9)], "13": [0, 0]}
    d = case_dir("dump")
    prefix = os.path.join(d, f"{src.name}.{gene.name}")
    src._dump_alignments(prefix, norm, muts)               # the real writer
    dump_path = prefix + ".dump"
    if rng.random() < 0.3:                                  # the archive form produced by `aldy genotype --debug`
        tar_path = os.path.join(d, "debug.tar.gz")
        with tarfile.open(tar_path, "w:gz") as tar:
            tar.add(prefix + ".genome", arcname=f"dbg/{os.path.basename(prefix)}.genome")
            tar.add(dump_path, arcname=f"dbg/{os.path.basename(prefix)}.dump")
        dump_path = tar_path
    dst = bare_sample(ctx, gene, None, name="debug")
    dst.kind = "dump"
    return {"self": dst, "dump_path": dump_path, "src": src, "src_norm": norm, "src_muts": muts}
