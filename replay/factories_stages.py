"""Object factories for the solver-stage contracts (/verif/contracts/stages_native.py; properties C02, C03,
C04, the score-carry part of C10, C14 candidate isolation, C15 candidate filter).

Everything is deterministic for a given random.Random.  The instances are tiny on purpose: CBC solves them
in milliseconds and the brute-force enumerations inside the contracts stay feasible.

Genes
    toy/hg19, toy/hg38      the toy database of the test-suite (aldy/tests/resources/toy.yml)
    multi/hg19, multi/hg38  toy + a multi-allelic silent site (115T>A / 115T>G), a second minor of *2, a
                            core SNP sharing its position label with the core insertion 119insTT, a second
                            core SNP at position 105, and a `random` variant
    cyp2a6/hg19|hg38        CYP2A6-like structure table: pseudogene, whole-gene deletion, three left fusions,
                            two right fusions, a partial (custom) deletion, a `pce` copy-number region
    gstm1/hg19|hg38         GSTM1-like structure table: no pseudogene, whole-gene deletion only
The generated databases are toy.yml with edited allele / structure tables, loaded by the real loader from
YAML text (`stage_yaml(kind)` returns the text).

Evidence
    read-count tables planted from allele multisets (per-copy depth d, every copy contributes d reads to the
    variant it carries or to the reference allele of the site) with multiplicative noise, as in
    aldy/tests/test_major_synthetic.py / test_minor_synthetic.py:  Coverage(gene, profile, None, table, None, {}).
    Observations are `Obs` lists (a list subclass that prints as `12x(60,60)` in the input dumps).
"""
import copy
import os
from collections import Counter

import yaml

import factories
from factories import big_table_memo

STAGE_GENE_KINDS = ["toy", "multi", "delins", "cyp2a6", "gstm1"]
_YAML_CACHE = {}
_GENE_CACHE = {}


class Obs(list):
    """List of (mapq, quality) observations (prints compactly in the input dumps)."""


def _describe_obs(o, depth):
    c = Counter(o)
    return "+".join(f"{n}x{q}" for q, n in sorted(c.items())) if o else "0x"


factories.DESCRIBE["Obs"] = _describe_obs


# --------------------------------------------------------------------------- genes

def _toy_path(repo):
    p = os.path.join(repo, "aldy", "tests", "resources", "toy.yml")
    return p if os.path.exists(p) else "/repo/aldy/tests/resources/toy.yml"


def stage_yaml(kind, repo="/repo"):
    """YAML text of a stage database (`toy` = the file itself)."""
    if kind in _YAML_CACHE:
        return _YAML_CACHE[kind]
    text = open(_toy_path(repo)).read()
    if kind != "toy":
        doc = yaml.safe_load(text)
        al = doc["alleles"]
        doc["version"] = f"stages-{kind}"
        if kind in ("multi", "delins"):
            al["TOY*1.004"] = {"label": "TOY*1D", "mutations": [[115, "T>G", "rs1000b"]]}
            al["TOY*1.005"] = {"label": "TOY*1E", "mutations": [[135, "A>C", "rs1001"], [115, "T>A", "rs28371732"]]}
            al["TOY*2.002"] = {"label": "TOY*2B", "mutations": [[111, "delAC", "-", "frameshift"], [119, "insTT", "-", "frameshift"],
                                                                 [125, "A>G", "rs1002"]]}
            al["TOY*7.001"] = {"label": "TOY*7", "mutations": [[119, "G>A", "-", "functional"], [151, "C>T", "-", "functional"]]}
            al["TOY*8.001"] = {"label": "TOY*8", "mutations": [[105, "T>G", "-", "functional"], [115, "T>A", "rs28371732"]]}
            al["random"] = [[137, "A>T", "rs1003"]]
            if kind == "delins":
                # a core deletion-insertion (shipped: CYP2A6*27 delGCinsT): a non-insertion variant whose name CONTAINS 'ins'
                al["TOY*13.001"] = {"label": "TOY*13", "mutations": [[111, "delACinsT", "-", "frameshift"]]}
        elif kind == "cyp2a6":
            al["TOY*9.001"] = {"label": "TOY*9", "mutations": [["TOYP", "e2-"]]}
            al["TOY*10.001"] = {"label": "TOY*10", "mutations": [["TOYP", "e3-"], [151, "C>T", "-", "functional"]]}
            al["TOY*11.001"] = {"label": "TOY*11", "mutations": [["TOYP", "i1+"]]}
            al["TOY*12.001"] = {"label": "TOY*12", "mutations": [["TOY", "deletion:e1,i1"]]}
            for g in ("hg19", "hg38"):
                reg = doc["structure"]["regions"][g]
                lo, hi, plo, phi = reg["down"]
                # split `down` into a 10-base `pce` region next to e3 and the rest
                if g == "hg19":
                    reg["pce"] = [lo, lo + 10, plo, plo + 10]
                    reg["down"] = [lo + 10, hi, plo + 10, phi]
                else:
                    reg["pce"] = [hi - 10, hi, phi - 10, phi]
                    reg["down"] = [lo, hi - 10, plo, phi - 10]
            doc["structure"]["cn_regions"] = ["e1", "i1", "e2", "i2", "e3", "pce"]
        elif kind == "gstm1":
            for k in ("TOY*4.001", "TOY*5.001"):
                del al[k]
            doc["structure"]["genes"] = ["TOY"]
            for g in ("hg19", "hg38"):
                reg = doc["structure"]["regions"][g]
                # the RefSeq mapping also spans the former pseudogene: annotate it as upstream sequence
                up = [min(r[2] for r in reg.values()), reg["tmp"][0]] if g == "hg19" else [reg["tmp"][1], max(r[3] for r in reg.values())]
                for r in reg:
                    reg[r] = reg[r][:2]
                reg["up"] = up
            doc["structure"]["tandems"] = []
        else:
            raise ValueError(kind)
        text = yaml.safe_dump(doc, sort_keys=False, default_flow_style=None, width=100000)
    _YAML_CACHE[kind] = text
    return text


def load_stage_gene(ctx, kind, genome):
    key = (kind, genome)
    if key not in _GENE_CACHE:
        Gene = ctx.cls("Gene")
        if kind == "toy":
            _GENE_CACHE[key] = Gene(_toy_path(ctx.repo), genome=genome)
        else:
            _GENE_CACHE[key] = Gene(None, "TOY", stage_yaml(kind, ctx.repo), genome)
    return _GENE_CACHE[key]


def stage_gene(rng, ctx, kinds):
    """The case's gene: a deep copy of a really loaded database, shared by all arguments of the case.
    `kinds`: [(kind, weight)]."""
    if ctx._gene is None:
        pool = [(k, w) for k, w in kinds if ctx.genes in ("all", k)] or kinds
        kind = rng.choices([k for k, _ in pool], weights=[w for _, w in pool])[0]
        genome = rng.choice(["hg19", "hg19", "hg38"])
        g = load_stage_gene(ctx, kind, genome)
        ctx._gene = copy.deepcopy(g, big_table_memo(g))
        ctx.gene_label = f"{kind}/{genome}"
    return ctx._gene


def make_stage_profile(rng, ctx, gaps=(0.0, 0.1, 0.3), **params):
    Profile = ctx.cls("Profile")
    p = Profile("test")
    p.gap = rng.choice(list(gaps))
    for k, v in params.items():
        assert k in p.__dict__, k
        p.__dict__[k] = v
    return p


# --------------------------------------------------------------------------- gene structures (C03)

def deletion_name(gene):
    CNConfigType = type(next(iter(gene.cn_configs.values())).kind)
    return next((c for c, v in gene.cn_configs.items() if v.kind == CNConfigType.DELETION), None)


def random_explanation(rng, gene, names, max_cn):
    """(two complete configurations, extra default copies, free pseudogene slots) - the planted structure."""
    dele = deletion_name(gene)
    pair = [rng.choice(names), rng.choice(names)]
    if rng.random() < 0.45:
        pair[0] = "1"
    if rng.random() < 0.25:
        pair[1] = "1"
    if pair == [dele, dele]:
        return pair, 0, 0
    extras = rng.choice([0, 0, 0, 0, 1, 1, 2, max_cn - 1])
    pseudo = rng.choice([0, 0, 0, 0, 0, 1, 1, 2, 3]) if len(gene.regions) > 1 and dele else 0
    return pair, extras, pseudo


def explanation_depths(gene, pair, extras, pseudo):
    """{region: (gene copies, pseudogene copies)} of an explanation over the copy-number regions."""
    dele = deletion_name(gene)
    out = {}
    for r in gene.unique_regions:
        g0 = sum(gene.cn_configs[c].cn[0][r] for c in pair) + extras * gene.cn_configs["1"].cn[0][r]
        g1 = 0
        if len(gene.regions) > 1:
            g1 = sum(gene.cn_configs[c].cn[1][r] for c in pair) + extras * (gene.cn_configs["1"].cn[1][r] - 1)
            if dele:
                g1 += pseudo * gene.cn_configs[dele].cn[1][r]
        out[r] = (g0, g1)
    return out


def make_region_coverage(rng, gene, max_cn, names):
    """Region depths: a planted structure plus additive noise up to +-0.5 copies on a 0.01 grid, sometimes
    exactly half-way between two structures (ties), sometimes arbitrary vectors."""
    r = rng.random()
    if r < 0.08:
        return {reg: (rng.choice([0, 0.5, 1, 1.5, 2, 2.5, 3, 4]), rng.choice([0, 1, 2, 2.5, 3]) if len(gene.regions) > 1 else 0.0)
                for reg in gene.unique_regions}
    pair, extras, pseudo = random_explanation(rng, gene, names, max_cn)
    base = explanation_depths(gene, pair, extras, pseudo)
    if r < 0.2:
        # half-way between two planted structures (several structures compete)
        pair2, extras2, pseudo2 = random_explanation(rng, gene, names, max_cn)
        other = explanation_depths(gene, pair2, extras2, pseudo2)
        base = {reg: ((base[reg][0] + other[reg][0]) / 2, (base[reg][1] + other[reg][1]) / 2) for reg in base}
    amp = rng.choice([0.0, 0.0, 0.05, 0.2, 0.5])
    out = {}
    for reg in gene.unique_regions:
        g0 = max(0.0, round(base[reg][0] + rng.uniform(-amp, amp), 2))
        g1 = max(0.0, round(base[reg][1] + rng.uniform(-amp, amp), 2)) if len(gene.regions) > 1 else 0.0
        out[reg] = (g0, g1)
    if rng.random() < 0.1:
        # uniformly elevated pseudogene depth (pseudogene copy-number change)
        k = rng.choice([1, 1, 2])
        out = {reg: (v[0], v[1] + k if len(gene.regions) > 1 else 0.0) for reg, v in out.items()}
    return out


def make_config_table(rng, gene):
    """Candidate configurations: the catalogue table or a deep copy without some fusions (what
    aldy.cn._filter_configs hands over); the default and the deletion configuration always stay."""
    if rng.random() < 0.6:
        return gene.cn_configs
    dele = deletion_name(gene)
    out = copy.deepcopy(gene.cn_configs)
    for c in sorted(gene.cn_configs):
        if c not in ("1", dele) and rng.random() < 0.4:
            del out[c]
    return out


def make_fusion_support(rng, gene, max_cn):
    """Long-read fusion support values (None in most cases)."""
    if rng.random() < 0.72:
        return None
    if rng.random() < 0.1:
        return {}
    out = {}
    for c in sorted(gene.cn_configs):
        if rng.random() < 0.75:
            out[c] = rng.choice([0.0, 0.01, 1 / (2 * max_cn), 1 / (2 * max_cn) - 0.001, 0.2, 0.5, 1.0])
    return out


# --------------------------------------------------------------------------- planted alleles and read counts

def catalogue_variants(gene, functional=None):
    out = []
    for (pos, op), info in sorted(gene.mutations.items()):
        if functional is None or (info[0] is not None) == functional:
            out.append((pos, op))
    return out


def pick_structure(rng, gene, sizes=(1, 2, 2, 2, 2, 3, 3, 4)):
    """A list of configuration names (0-4 explicit copies, deletion allele included explicitly as the major
    stage expects it, e.g. ['1', '6'])."""
    names = sorted(gene.cn_configs)
    n = rng.choice(list(sizes))
    out = []
    for _ in range(n):
        r = rng.random()
        out.append("1" if r < 0.62 else rng.choice(names))
    return sorted(out)


def majors_of(gene, config):
    return sorted(a for a, v in gene.alleles.items() if v.cn_config == config)


def region_cn(gene, structure, pos):
    reg = gene.region_at(pos)
    if not reg:
        return 0
    return sum(gene.cn_configs[c].cn[reg[0]][reg[1]] for c in structure)


def has_copies(gene, major, pos):
    reg = gene.region_at(pos)
    return bool(reg) and gene.cn_configs[gene.alleles[major].cn_config].cn[reg[0]][reg[1]] > 0


def plant_copies(rng, ctx, gene, structure, p_add=0.12, p_drop=0.1, minors=True, pool=None):
    """One planted gene copy per configuration of the structure: (major, minor, set of variants).  The variant
    set is the catalogue definition, perturbed: every variant is lost with p_drop, every other catalogue
    variant (at a position where the copy has gene copies) is gained with p_add."""
    Mutation = ctx.cls("Mutation")
    copies = []
    allv = catalogue_variants(gene)
    for c in structure:
        cands = majors_of(gene, c)
        if pool:
            cands = [a for a in cands if a in pool] or cands
        if not cands:
            continue
        major = rng.choice(cands)
        al = gene.alleles[major]
        minor = rng.choice(sorted(al.minors))
        vs = set(al.func_muts) | (set(al.minors[minor].neutral_muts) if minors else set())
        vs = {Mutation(*m) for m in vs}
        for m in sorted(vs):
            if rng.random() < p_drop:
                vs.discard(m)
        for m in allv:
            if Mutation(*m) not in vs and has_copies(gene, major, m[0]) and rng.random() < p_add:
                if m[1][:3] == "ins" or not any(x.pos == m[0] and x.op[:3] != "ins" for x in vs):
                    vs.add(Mutation(*m))
        copies.append((major, minor, vs))
    return copies


def plant_counts(rng, gene, structure, copies, depth, noise, positions=None):
    """{pos: {op: read count}}: every copy that has gene copies at a site contributes `depth` reads to the
    non-insertion variant it carries there (or to the reference allele '_'), and `depth` reads to every
    insertion it carries; each count is then multiplied by a factor from [1-noise, 1+noise] and rounded."""
    if positions is None:
        positions = sorted({p for p, _ in gene.mutations})
    table = {}
    for pos in positions:
        ops = Counter()
        for major, _, vs in copies:
            if not has_copies(gene, major, pos):
                continue
            here = [m for m in vs if m.pos == pos and m.op[:3] != "ins"]
            ops[here[0].op if here else "_"] += depth
            for m in vs:
                if m.pos == pos and m.op[:3] == "ins":
                    ops[m.op] += depth
        ops.setdefault("_", 0)
        table[pos] = {op: max(0, int(round(n * rng.uniform(1 - noise, 1 + noise)))) for op, n in sorted(ops.items())}
    return table


def to_pileup(table, qual=(60, 60), keep_zero=True):
    return {pos: {op: Obs([qual] * n) for op, n in ops.items() if n or keep_zero} for pos, ops in table.items()}


def make_planted_coverage(rng, ctx, gene, profile, structure, copies, depth=None, noise=None, spurious=0.0, collide=0.0):
    """Coverage over the catalogue sites, planted from `copies`; `spurious`: probability per catalogue variant
    without reads to receive a few stray reads; `collide`: probability per site label shared by several core
    variants (e.g. an insertion and a substitution) that all of them receive stray reads."""
    Coverage = ctx.cls("Coverage")
    depth = depth or rng.choice([6, 10, 10, 14, 20])
    noise = rng.choice([0.0, 0.0, 0.1, 0.25, 0.4]) if noise is None else noise
    table = plant_counts(rng, gene, structure, copies, depth, noise)
    for (pos, op) in catalogue_variants(gene):
        if table.get(pos, {}).get(op, 0) == 0 and rng.random() < spurious:
            table.setdefault(pos, {"_": 0})[op] = rng.choice([1, 2, 3, depth // 2, depth])
    shared = Counter(pos for pos, _ in catalogue_variants(gene, functional=True))
    for pos in sorted(p for p, k in shared.items() if k > 1):
        if rng.random() < collide:
            for (p, op) in catalogue_variants(gene, functional=True):
                if p == pos and table.get(pos, {}).get(op, 0) == 0:
                    table.setdefault(pos, {"_": 0})[op] = rng.choice([2, 3, depth // 2, depth])
    return Coverage(gene, profile, None, to_pileup(table), None, {}), table


def make_cn_solution(ctx, gene, structure, score=0):
    return ctx.cls("CNSolution")(gene, score, list(structure))


def make_major_solution(ctx, gene, cn_sol, majors, score=0.0, added=()):
    """MajorSolution whose `solution` is a collections.Counter of SolvedAllele(gene, major)."""
    MajorSolution, SolvedAllele, Mutation = ctx.cls("MajorSolution"), ctx.cls("SolvedAllele"), ctx.cls("Mutation")
    cnt = Counter()
    for m in majors:
        cnt[SolvedAllele(gene, m)] += 1
    return MajorSolution(score, cnt, cn_sol, [Mutation(*m) for m in added])


def make_phases(rng, ctx, gene, copies, considered, n_reads=None, wrong=0.15):
    """Read-phase evidence {read: {pos: op}}: each read is drawn from one planted copy and reports, at 2-3
    considered sites where that copy has gene copies, the variant the copy carries there ('_' = reference);
    with probability `wrong` a site is reported from another copy (chimeric / conflicting reads)."""
    sites = sorted({m.pos for m in considered})
    out = {}
    if not copies or len(sites) < 2:
        return out
    n_reads = rng.choice([1, 2, 3, 3, 5, 8]) if n_reads is None else n_reads
    for i in range(n_reads):
        major, _, vs = rng.choice(copies)
        here = [p for p in sites if has_copies(gene, major, p)]
        if len(here) < 2:
            continue
        ps = rng.sample(here, min(len(here), rng.choice([2, 2, 2, 3])))
        read = {}
        for p in ps:
            src = vs
            if rng.random() < wrong:
                src = rng.choice(copies)[2]
            at = sorted(m.op for m in src if m.pos == p)
            read[p] = rng.choice(at) if at else "_"
        out[f"r{i}"] = read
    return out


def attach_phases(ctx, coverage, phases):
    """As the test-suite does: a blank Sample object that only carries `phases`."""
    import importlib
    Sample = importlib.import_module("aldy.sam").Sample
    sam = Sample.__new__(Sample)
    sam.phases = phases
    coverage.sam = sam
    return coverage


def pooled_candidates(ctx, gene, major_sols):
    """The candidate minor alleles and considered variants as aldy.minor.estimate_minor hands them to the
    model: every catalogued minor of every called major allele; their core and silent variants, the novel
    variants of the major solutions and the gene's `random` variants."""
    SolvedAllele = ctx.cls("SolvedAllele")
    alleles, muts = [], set()
    for ms in major_sols:
        for sa in ms.solution:
            al = gene.alleles[sa.major]
            alleles += [SolvedAllele(gene, sa.major, mi) for mi in al.minors]
            muts |= set(al.func_muts)
            for mi in al.minors.values():
                muts |= set(mi.neutral_muts)
        muts |= set(ms.added)
    muts |= set(gene.random_mutations)
    return alleles, muts
