"""Type-driven input generators and object factories for the native contract checker.

Everything here is deterministic for a given random.Random instance.  One factory per schema class
(register with @factory("ClassName")); a type without a factory raises NoFactory, which the checker
turns into status "skipped" with the reason (never a crash).

Extending: add

    @factory("NewClass")
    def make_newclass(rng, ctx): ...

and (optionally) WALK_FIELDS["NewClass"] = [...] to restrict which attributes contribute candidate
values to the quantifier domains, and DESCRIBE["NewClass"] = lambda o, d: "..." for the input dumps.
"""
import ast
import copy
import os
import random
import zlib
from collections import defaultdict, Counter


class NoFactory(Exception):
    """No generator for a type: the contract is reported as skipped."""


# --------------------------------------------------------------------------- value pools (SPEC)

SMALL_INTS = [-1, 0, 1, 2, 3, 4]
FLOATS = [0.0, 0.25, 0.5, 1.0, 2.0, 3.0, 10.0]
QUALS = [0, 5, 9, 10, 11, 30, 40]
EXTRA_OPS = ["_", "insA", "delC", "A>G"]
STRS = ["", "_", "x", "abc"]
UPDATE_VALUES = [None, True, False, 0, 1, 2, 0.5, "true", "FALSE", "1", "0", "abc", "2", "2.5", ""]
UNKNOWN_PARAM_NAMES = ["nonexistent", "Threshold", "min_cov", "_x"]

# (label, file, genome, weight); big genes sparingly
GENE_POOL = [
    ("toy/hg19", "toy", "hg19", 48),
    ("toy/hg38", "toy", "hg38", 48),
    ("cyp2c19/hg19", "cyp2c19", "hg19", 1.5),
    ("cyp2c19/hg38", "cyp2c19", "hg38", 0.5),
    ("cyp2d6/hg19", "cyp2d6", "hg19", 0.5),
    ("cyp2d6/hg38", "cyp2d6", "hg38", 1.5),
]

# attributes that contribute candidate values to quantifier domains (others are skipped: they are
# large look-up tables whose contents only blow up the domains)
WALK_FIELDS = {
    "Gene": ["name", "genome", "chr", "strand", "pseudogenes", "regions", "exons", "mutations",
             "random_mutations", "cn_configs", "unique_regions", "alleles", "common_tandems"],
}

# --------------------------------------------------------------------------- type expressions

PRIMS = {"None": "None", "NoneType": "None", "bool": "bool", "int": "int", "float": "float", "str": "str",
         "Any": "Any", "object": "Any"}
GENERIC = {"Optional": "optional", "Union": "union", "List": "list", "list": "list", "Sequence": "list",
           "Iterable": "list", "Set": "set", "set": "set", "FrozenSet": "set", "Tuple": "tuple", "tuple": "tuple",
           "Dict": "dict", "dict": "dict", "Mapping": "dict", "DefaultDict": "defaultdict",
           "defaultdict": "defaultdict", "Callable": "callable", "Counter": "counter"}


class T:
    """Parsed type expression."""
    __slots__ = ("kind", "name", "args")

    def __init__(self, kind, name=None, args=()):
        self.kind, self.name, self.args = kind, name, tuple(args)

    def __repr__(self):
        if self.kind in ("prim", "cls"):
            return self.name
        if self.kind == "defaultdict":
            return f"DefaultDict[{self.args[0]!r}, {self.args[1]!r}, {self.name!r}]"
        if self.kind == "callable":
            return f"Callable[[{', '.join(map(repr, self.args[:-1]))}], {self.args[-1]!r}]"
        return f"{self.kind}[{', '.join(map(repr, self.args))}]"


def parse_type(expr):
    if isinstance(expr, T):
        return expr
    if not isinstance(expr, str):
        return _from_runtime(expr)
    try:
        node = ast.parse(expr.strip(), mode="eval").body
    except SyntaxError:
        raise NoFactory(f"cannot parse type expression {expr!r}")
    return _pt(node)


def _from_runtime(tp):
    """typing object / class (from inspect) -> T"""
    if tp is None or tp is type(None):
        return T("prim", "None")
    if isinstance(tp, type):
        return _pt(ast.Name(id=tp.__name__))
    s = repr(tp).replace("typing.", "").replace("NoneType", "None")
    return parse_type(s)


def _base_name(n):
    if isinstance(n, ast.Name):
        return n.id
    if isinstance(n, ast.Attribute):
        return n.attr
    return None


def _pt(n):
    if isinstance(n, ast.Constant):
        if n.value is None:
            return T("prim", "None")
        if n.value is Ellipsis:
            return T("ellipsis")
        if isinstance(n.value, str):
            return parse_type(n.value)
        raise NoFactory(f"type literal {n.value!r}")
    if isinstance(n, (ast.Name, ast.Attribute)):
        nm = _base_name(n)
        if nm in PRIMS:
            return T("prim", PRIMS[nm])
        if nm in GENERIC:
            k = GENERIC[nm]
            if k in ("list", "set"):
                return T(k, args=[T("prim", "Any")])
            if k in ("dict",):
                return T(k, args=[T("prim", "Any"), T("prim", "Any")])
            if k == "tuple":
                return T("vartuple", args=[T("prim", "Any")])
            raise NoFactory(f"bare generic type {nm}")
        return T("cls", nm)
    if isinstance(n, ast.BinOp) and isinstance(n.op, ast.BitOr):
        return _union([_pt(n.left), _pt(n.right)])
    if isinstance(n, ast.List):
        return T("arglist", args=[_pt(e) for e in n.elts])
    if isinstance(n, ast.Subscript):
        nm = _base_name(n.value)
        sl = n.slice
        elts = list(sl.elts) if isinstance(sl, ast.Tuple) else [sl]
        k = GENERIC.get(nm)
        if k is None:
            raise NoFactory(f"unknown generic type {nm}")
        if k == "defaultdict":
            kv = [_pt(e) for e in elts[:2]]
            dflt = "int"
            if len(elts) > 2:
                d = elts[2]
                dflt = d.value if isinstance(d, ast.Constant) else _base_name(d)
            if len(kv) < 2:
                raise NoFactory("DefaultDict needs key and value types")
            return T("defaultdict", dflt, kv)
        args = [_pt(e) for e in elts]
        if k == "optional":
            return _union([args[0], T("prim", "None")])
        if k == "union":
            return _union(args)
        if k == "tuple":
            if len(args) == 2 and args[1].kind == "ellipsis":
                return T("vartuple", args=[args[0]])
            return T("tuple", args=args)
        if k == "callable":
            if args and args[0].kind == "arglist":
                return T("callable", args=list(args[0].args) + [args[1] if len(args) > 1 else T("prim", "None")])
            return T("callable", args=[args[-1]])
        if k == "counter":
            return T("dict", args=[args[0], T("prim", "int")])
        if k == "dict" and len(args) != 2:
            raise NoFactory("Dict needs key and value types")
        return T(k, args=args)
    raise NoFactory(f"unsupported type syntax {ast.dump(n)[:60]}")


def _union(args):
    flat = []
    for a in args:
        if a.kind == "union":
            flat += list(a.args)
        else:
            flat.append(a)
    return T("union", args=flat)


# --------------------------------------------------------------------------- generation context

def stable_seed(*parts):
    return zlib.crc32(repr(parts).encode())


class Ctx:
    """Per-case generation context: RNG, the case's gene (one deep copy shared by all arguments of the
    case), the small position/op pools and the arguments generated so far."""

    def __init__(self, rng, seed, schema, classes, repo, genes="all", qualname="", parent=None):
        self.rng = rng
        self.seed = seed
        self.schema = schema
        self.classes = classes
        self.repo = repo
        self.genes = genes
        self.qualname = qualname
        self.args = {}
        self.param = None
        self.shared = {}
        self._gene = parent._gene if parent else None
        self._positions = parent._positions if parent else None
        self.gene_label = parent.gene_label if parent else None
        self.force_gene = None

    # gene -------------------------------------------------------------
    @property
    def gene(self):
        if self._gene is None:
            pool = [g for g in GENE_POOL if self.genes == "all" or g[1] == self.genes]
            if self.force_gene:
                pool = [g for g in GENE_POOL if g[0] == self.force_gene] or pool
            label, name, genome, _ = self.rng.choices(pool, weights=[g[3] for g in pool])[0]
            self.gene_label = label
            g = load_gene(self, name, genome)
            self._gene = copy.deepcopy(g, big_table_memo(g))
        return self._gene

    def has_gene(self):
        return self._gene is not None

    @property
    def positions(self):
        """~6 positions: mutation positions of the gene +-1 (collisions are wanted)."""
        if self._positions is None:
            g = self.gene
            ps = sorted({p for p, _ in g.mutations})
            if not ps:
                ps = sorted({r.start for gr in g.regions for r in gr.values()})[:3]
            pick = self.rng.sample(ps, min(3, len(ps)))
            pool = []
            for p in pick:
                for q in (p, p + self.rng.choice([-1, 1])):
                    if q not in pool:
                        pool.append(q)
            self._positions = pool
        return self._positions

    def ops_at(self, pos):
        real = sorted(op for (p, op) in self.gene.mutations if p == pos)
        return real + [o for o in EXTRA_OPS if o not in real]

    def child(self, rng):
        return Ctx(rng, self.seed, self.schema, self.classes, self.repo, self.genes, self.qualname, parent=self)

    def cls(self, name):
        if name not in self.classes:
            raise NoFactory(f"class {name} is not known")
        return self.classes[name]


_GENE_CACHE = {}


def _atomic(v):
    return v is None or type(v) in (int, str, float, bool) or (type(v) is tuple and all(_atomic(x) for x in v))


def big_table_memo(obj, memo=None):
    """deepcopy memo pre-seeded for the big look-up tables of an object (a Gene): a dict with more than
    1000 entries whose keys and values are immutable is copied shallowly (same result, much faster);
    the raw YAML (`_yml`, debugging only) is shared."""
    memo = {} if memo is None else memo
    for k, v in getattr(obj, "__dict__", {}).items():
        if k == "_yml":
            memo[id(v)] = v
        elif type(v) is dict and len(v) > 1000 and all(_atomic(x) for x in v.values()):
            memo[id(v)] = dict(v)
    return memo


def load_gene(ctx, name, genome):
    """Load with the real loader; cached (callers always deep copy)."""
    key = (name, genome)
    if key not in _GENE_CACHE:
        Gene = ctx.cls("Gene")
        if name == "toy":
            path = os.path.join(ctx.repo, "aldy", "tests", "resources", "toy.yml")
            if not os.path.exists(path):
                path = "/repo/aldy/tests/resources/toy.yml"
        else:
            from aldy.common import script_path
            path = script_path(f"aldy.resources.genes/{name}.yml")
        _GENE_CACHE[key] = Gene(path, genome=genome)
    return _GENE_CACHE[key]


# --------------------------------------------------------------------------- the generator

FACTORIES = {}


def factory(name):
    def deco(fn):
        FACTORIES[name] = fn
        return fn
    return deco


def gen(type_expr, rng, ctx):
    """Generate one value of the given type."""
    t = parse_type(type_expr)
    k = t.kind
    if k == "prim":
        return gen_prim(t.name, rng, ctx)
    if k == "cls":
        if t.name in FACTORIES:
            return FACTORIES[t.name](rng, ctx)
        ent = ctx.schema.get(t.name)
        if ent and ent.get("kind") == "alias":
            return gen(ent["type"], rng, ctx)
        if ent and ent.get("kind") == "opaque":
            raise NoFactory(f"opaque class {t.name} has no factory")
        raise NoFactory(f"no factory for class {t.name}")
    if k == "union":
        alts = [a for a in t.args if can_gen(a, ctx)]
        if not alts:
            raise NoFactory(f"no alternative of {t!r} has a factory")
        nones = [a for a in alts if a.kind == "prim" and a.name == "None"]
        others = [a for a in alts if a not in nones]
        if nones and others:  # Optional-like: None a quarter of the time
            if rng.random() < 0.25:
                return None
            return gen(rng.choice(others), rng, ctx)
        return gen(rng.choice(alts), rng, ctx)
    if k == "list":
        return [gen(t.args[0], rng, ctx) for _ in range(rng.choice([0, 1, 1, 2, 3]))]
    if k == "set":
        return {gen(t.args[0], rng, ctx) for _ in range(rng.choice([0, 1, 2, 3]))}
    if k == "tuple":
        if is_qual(t):
            return gen_qual(rng)
        return tuple(gen(a, rng, ctx) for a in t.args)
    if k == "vartuple":
        return tuple(gen(t.args[0], rng, ctx) for _ in range(rng.choice([0, 1, 2, 3])))
    if k == "dict":
        out = {}
        for _ in range(rng.choice([0, 1, 2, 3])):
            key = gen(t.args[0], rng, ctx)
            out[key] = gen(t.args[1], rng, ctx)
        return out
    if k == "defaultdict":
        dflt = {"int": int, "list": list, "float": float, "set": set, "dict": dict}.get(t.name)
        if dflt is None:
            raise NoFactory(f"DefaultDict default {t.name!r}")
        out = defaultdict(dflt)
        for _ in range(rng.choice([0, 1, 2, 3])):
            key = gen(t.args[0], rng, ctx)
            out[key] = gen(t.args[1], rng, ctx)
        return out
    if k == "callable":
        for a in t.args[-1:]:
            if not can_gen(a, ctx):
                raise NoFactory(f"result type of {t!r} has no factory")
        return PureFn(t.args[:-1], t.args[-1], stable_seed(ctx.seed, ctx.qualname, ctx.param, rng.random()), ctx)
    raise NoFactory(f"no generator for type {t!r}")


def can_gen(t, ctx):
    """Static check: is there a generator for every part of the type?"""
    t = parse_type(t)
    k = t.kind
    if k == "prim":
        return t.name != "Any"
    if k == "cls":
        if t.name in FACTORIES:
            return True
        ent = ctx.schema.get(t.name)
        return bool(ent and ent.get("kind") == "alias" and can_gen(ent["type"], ctx))
    if k == "union":
        return any(can_gen(a, ctx) for a in t.args)
    if k == "callable":
        return can_gen(t.args[-1], ctx)
    if k in ("ellipsis", "arglist"):
        return False
    return all(can_gen(a, ctx) for a in t.args)


def why_not(t, ctx):
    """Reason string for a type that cannot be generated."""
    t = parse_type(t)
    if t.kind == "prim":
        return "type Any/untyped has no generator"
    if t.kind == "cls":
        ent = ctx.schema.get(t.name)
        if ent and ent.get("kind") == "opaque":
            return f"opaque class {t.name} has no factory"
        return f"no factory for class {t.name}"
    for a in t.args:
        if not can_gen(a, ctx):
            return why_not(a, ctx)
    return f"no generator for {t!r}"


def is_qual(t):
    return t.kind == "tuple" and len(t.args) == 2 and all(a.kind == "prim" and a.name == "float" for a in t.args)


def gen_qual(rng):
    """(mapq, base quality)"""
    return (rng.choice(QUALS), rng.choice(QUALS))


def gen_prim(name, rng, ctx):
    if name == "None":
        return None
    if name == "bool":
        return rng.random() < 0.5
    if name == "int":
        pool = list(SMALL_INTS)
        if ctx.has_gene():
            pool += ctx.positions  # an int is often a position
        return rng.choice(pool)
    if name == "float":
        return rng.choice(FLOATS)
    if name == "str":
        pool = list(STRS)
        if ctx.has_gene():
            g = ctx.gene
            pool += sorted(g.regions[0])[:4] + sorted(g.cn_configs)[:3] + sorted(g.alleles)[:3] + EXTRA_OPS
        return rng.choice(pool)
    raise NoFactory("type Any/untyped has no generator")


# --------------------------------------------------------------------------- callables

def is_plain(v):
    """Non-object argument (enters the key of a generated pure function)."""
    if v is None or isinstance(v, (bool, int, float, str, bytes)):
        return True
    if isinstance(v, (tuple, list, set, frozenset)):
        return all(is_plain(x) for x in v)
    if isinstance(v, dict):
        return all(is_plain(x) and is_plain(y) for x, y in v.items())
    return False


class PureFn:
    """Deterministic pure function: a table keyed on the repr of the non-object arguments; values are
    generated lazily from the result type with an RNG seeded from (seed, key)."""

    def __init__(self, arg_types, ret_type, seed, ctx):
        self.arg_types, self.ret_type, self.seed = arg_types, ret_type, seed
        self.table = {}
        self._ctx = ctx

    def __call__(self, *args, **kw):
        key = repr(tuple(a for a in args if is_plain(a)) + tuple(sorted((k, v) for k, v in kw.items() if is_plain(v))))
        if key not in self.table:
            r = random.Random(stable_seed(self.seed, key))
            self.table[key] = gen(self.ret_type, r, self._ctx.child(r))
        return self.table[key]

    def __deepcopy__(self, memo):
        return self

    def __copy__(self):
        return self

    def __repr__(self):
        items = ", ".join(f"{k}: {v!r}" for k, v in list(self.table.items())[:40])
        return f"PureFn(seed={self.seed}, returns={self.ret_type!r}, table={{{items}}})"


# --------------------------------------------------------------------------- object factories

@factory("Gene")
def make_gene(rng, ctx):
    return ctx.gene  # the case's deep copy of a cached, really loaded gene


@factory("GRange")
def make_grange(rng, ctx):
    GRange = ctx.cls("GRange")
    base = rng.choice([1000, 5000] + (ctx.positions[:1] if ctx.has_gene() else []))
    w = rng.choice([0, 1, 2, 3, 5, 8])
    ch = ctx.gene.chr if ctx.has_gene() else "22"
    if rng.random() < 0.08:
        return GRange(ch, base + w, base)  # reversed
    return GRange(ch, base, base + w)


@factory("Mutation")
def make_mutation(rng, ctx):
    Mutation = ctx.cls("Mutation")
    # half of the time an entry that exists in a coverage table already generated for this case
    covs = [v for v in ctx.args.values() if type(v).__name__ == "Coverage"]
    if covs and rng.random() < 0.5:
        c = covs[0]
        entries = [(p, o) for p, d in c._coverage.items() for o in d]
        if c._indels:
            entries += list(c._indels)
        if entries:
            return Mutation(*rng.choice(entries))
    pos = rng.choice(ctx.positions)
    return Mutation(pos, rng.choice(ctx.ops_at(pos)))


def profile_param_kinds(profile):
    """attribute name -> 'bool'|'int'|'float'|'str' from the defaults of a fresh Profile"""
    out = {}
    for n, v in profile.__dict__.items():
        if n in ("name", "cn_region", "data", "cn_solution"):
            continue
        out[n] = type(v).__name__
    return out


@factory("Profile")
def make_profile(rng, ctx):
    Profile = ctx.cls("Profile")
    gene = ctx.gene
    cn_region = None if rng.random() < 0.15 else make_grange(rng, ctx)
    data = None
    if rng.random() >= 0.15:
        # {gene: {region: [value per gene copy]}} for the gene's regions
        data = {gene.name: {r: [rng.choice(FLOATS) for _ in gene.regions] for r in gene.regions[0]}}
        if rng.random() < 0.1 and data[gene.name]:
            r = rng.choice(sorted(data[gene.name]))
            if rng.random() < 0.5:
                del data[gene.name][r]
            else:
                data[gene.name][r] = data[gene.name][r][:-1]
    p = Profile("test", cn_region=cn_region, data=data)
    # random, well-typed parameters.  They are assigned directly (equivalent to passing them through
    # the constructor on the unchanged tree) so that the factory does not depend on Profile.update,
    # which is itself a function under test.
    special = {
        "threshold": [0.0, 0.25, 0.5, 1.0], "min_coverage": [0.0, 1.0, 2.0, 3.0],
        "min_quality": QUALS, "min_mapq": QUALS, "cn_max": [1, 2, 3, 4, 20],
        "sam_mappy_preset": ["map-hifi", "map-ont"], "debug_probe": ["", "", "x"],
        "minor_phase_vars": [0, 1, 3000], "max_minor_solutions": [1, 2], "vcf_sample_idx": [0, 1],
    }
    for n, kind in profile_param_kinds(p).items():
        if rng.random() < 0.5:
            continue
        if n in special:
            v = rng.choice(special[n])
        elif kind == "bool":
            v = rng.random() < 0.5
        elif kind == "int":
            v = rng.choice(SMALL_INTS)
        elif kind == "float":
            v = rng.choice(FLOATS)
        else:
            v = rng.choice(STRS)
        p.__dict__[n] = v
    if cn_region is not None:
        # a usable profile has a neutral depth; keep zero as one of the choices (rejected samples)
        p.neutral_value = rng.choice([0.0, 0.5, 1.0, 2.0, 3.0, 10.0])
    if rng.random() < 0.1:
        p.cn_solution = [rng.choice(sorted(gene.cn_configs)) for _ in range(rng.choice([1, 2]))]
    return p


def gen_pileup(rng, ctx):
    """{pos: {op: [(mapq, q), ...]}}"""
    pool = ctx.positions
    table = {}
    for pos in rng.sample(pool, rng.randint(0, len(pool))):
        ops = ctx.ops_at(pos)
        # '_' (reference) is the usual entry
        chosen = [o for o in ops if rng.random() < (0.8 if o == "_" else 0.4)]
        table[pos] = {o: [gen_qual(rng) for _ in range(rng.choice([0, 1, 1, 2, 2, 3, 4, 6]))] for o in chosen}
    return table


def gen_indel_table(rng, ctx):
    r = rng.random()
    if r < 0.35:
        return None
    if r < 0.45:
        return {}
    out = {}
    for pos in rng.sample(ctx.positions, rng.randint(1, min(3, len(ctx.positions)))):
        ops = [o for o in ctx.ops_at(pos) if o[:3] in ("ins", "del")]
        for o in ops:
            if rng.random() < 0.6:
                out[pos, o] = (rng.choice([0, 1, 2, 5]), rng.choice([0, 1, 2, 3, 5]))
    return out


@factory("Coverage")
def make_coverage(rng, ctx):
    Coverage = ctx.cls("Coverage")
    gene = ctx.gene
    profile = make_profile(rng, ctx)
    table = gen_pileup(rng, ctx)
    indels = gen_indel_table(rng, ctx)
    cnv = defaultdict(int)
    if profile.cn_region is not None:
        lo, hi = sorted((profile.cn_region.start, profile.cn_region.end))
        keys = list(range(lo - 1, hi + 2))
    else:
        keys = [1000, 1001, 1002]
    for k in keys:
        if rng.random() < 0.6:
            cnv[k] = rng.choice([0, 1, 2, 5, 10, 20])
    cov = Coverage(gene, profile, None, table, indels, cnv)
    if cov._indels is not None and rng.random() < 0.1:
        cov._indels = {}  # reachable through filtered()
    if rng.random() < 0.5:
        cov._region_coverage = {(gi, r): rng.choice(FLOATS) for gi, gr in enumerate(gene.regions) for r in gr}
    return cov


@factory("CNConfig")
def make_cnconfig(rng, ctx):
    g = ctx.gene
    return g.cn_configs[rng.choice(sorted(g.cn_configs))]


@factory("MajorAllele")
def make_major_allele(rng, ctx):
    g = ctx.gene
    return g.alleles[rng.choice(sorted(g.alleles))]


@factory("MinorAllele")
def make_minor_allele(rng, ctx):
    a = make_major_allele(rng, ctx)
    return a.minors[rng.choice(sorted(a.minors))]


@factory("CNSolution")
def make_cnsolution(rng, ctx):
    CNSolution = ctx.cls("CNSolution")
    g = ctx.gene
    names = sorted(g.cn_configs)
    sol = [rng.choice(names) for _ in range(rng.choice([0, 1, 2, 2, 3]))]
    return CNSolution(g, rng.choice(FLOATS), sol)


def _gene_mutations(rng, ctx, k):
    Mutation = ctx.cls("Mutation")
    ms = sorted(ctx.gene.mutations)
    if not ms:
        return []
    return [Mutation(*rng.choice(ms)) for _ in range(k)]


@factory("SolvedAllele")
def make_solved_allele(rng, ctx):
    SolvedAllele = ctx.cls("SolvedAllele")
    g = ctx.gene
    major = rng.choice(sorted(g.alleles))
    minors = sorted(g.alleles[major].minors)
    minor = rng.choice(minors) if minors and rng.random() < 0.8 else ""
    return SolvedAllele(g, major, minor, _gene_mutations(rng, ctx, rng.choice([0, 0, 1, 2])),
                        _gene_mutations(rng, ctx, rng.choice([0, 0, 1])))


@factory("MajorSolution")
def make_major_solution(rng, ctx):
    MajorSolution = ctx.cls("MajorSolution")
    sol = Counter()
    for _ in range(rng.choice([1, 2, 2, 3])):
        sol[make_solved_allele(rng, ctx)] += 1
    return MajorSolution(rng.choice(FLOATS), sol, make_cnsolution(rng, ctx), _gene_mutations(rng, ctx, rng.choice([0, 0, 1])))


@factory("MinorSolution")
def make_minor_solution(rng, ctx):
    MinorSolution = ctx.cls("MinorSolution")
    major = make_major_solution(rng, ctx)
    sol = []
    for sa, n in major.solution.items():
        for _ in range(n):
            minors = sorted(ctx.gene.alleles[sa.major].minors)
            sol.append(type(sa)(sa.gene, sa.major, rng.choice(minors) if minors else "", list(sa.added), list(sa.missing)))
    return MinorSolution(rng.choice(FLOATS), sol, major, make_profile(rng, ctx) if rng.random() < 0.7 else None)


# --------------------------------------------------------------------------- --model support

def from_spec(spec, type_expr, rng, ctx, ns):
    """Best-effort decoding of a --model value: python literal, constructor expression, or
    {"__class__": "Name", "field": value, ...} / {"dotted.path": value} overrides on a generated object."""
    t = None
    try:
        t = parse_type(type_expr) if type_expr is not None else None
    except NoFactory:
        pass
    if isinstance(spec, str):
        try:
            return ast.literal_eval(spec)
        except Exception:
            pass
        try:
            return eval(spec, dict(ns))
        except Exception:
            return spec
    if isinstance(spec, dict):
        cls_name = spec.get("__class__")
        obj_t = None
        if cls_name:
            obj_t = T("cls", cls_name)
        elif t is not None and t.kind == "cls" and t.name in FACTORIES:
            obj_t = t
        elif t is not None and t.kind == "union":
            c = [a for a in t.args if a.kind == "cls" and a.name in FACTORIES]
            obj_t = c[0] if len(c) == 1 and any("." in k or k.startswith("_") for k in spec) else None
        if obj_t is not None:
            obj = gen(obj_t, rng, ctx)
            for k, v in spec.items():
                if k == "__class__":
                    continue
                tgt, parts = obj, k.split(".")
                for p in parts[:-1]:
                    tgt = getattr(tgt, p)
                setattr(tgt, parts[-1], from_spec(v, None, rng, ctx, ns))
            return obj
        out = {}
        for k, v in spec.items():
            kk = k
            if t is not None and t.kind in ("dict", "defaultdict") and not (t.args[0].kind == "prim" and t.args[0].name == "str"):
                try:
                    kk = ast.literal_eval(k)
                except Exception:
                    pass
            out[kk] = from_spec(v, t.args[1] if t is not None and t.kind in ("dict", "defaultdict") else None, rng, ctx, ns)
        return out
    if isinstance(spec, list):
        vals = [from_spec(v, None, rng, ctx, ns) for v in spec]
        if t is not None and t.kind in ("tuple", "vartuple"):
            return tuple(vals)
        if t is not None and t.kind == "cls" and t.name in ctx.classes and issubclass(ctx.classes[t.name], tuple):
            return ctx.classes[t.name](*vals)
        return vals
    return spec


# --------------------------------------------------------------------------- descriptions (input dumps)

DESCRIBE = {
    "Gene": lambda o, d: f"Gene({o.name!r}, genome={o.genome!r})",
}


def describe(v, depth=0, budget=None):
    """Readable, deterministic repr of an argument (aldy objects have no useful __repr__)."""
    if depth > 8:
        return "..."
    if v is None or isinstance(v, (bool, int, float, str, bytes)):
        return repr(v)
    cn = type(v).__name__
    if cn in DESCRIBE:
        return DESCRIBE[cn](v, depth)
    if isinstance(v, PureFn):
        return repr(v)
    if isinstance(v, tuple) and hasattr(v, "_fields"):
        return f"{cn}({', '.join(describe(x, depth + 1) for x in v)})"
    if isinstance(v, dict):
        items = list(v.items())
        body = ", ".join(f"{describe(k, depth + 1)}: {describe(x, depth + 1)}" for k, x in items[:60])
        if len(items) > 60:
            body += f", ...(+{len(items) - 60})"
        return (f"{cn}(" if type(v) is not dict else "") + "{" + body + "}" + (")" if type(v) is not dict else "")
    if isinstance(v, (list, tuple, set, frozenset)):
        xs = list(v)
        if isinstance(v, (set, frozenset)):
            xs = sorted(xs, key=repr)
        body = ", ".join(describe(x, depth + 1) for x in xs[:60]) + (f", ...(+{len(xs) - 60})" if len(xs) > 60 else "")
        if isinstance(v, list):
            return f"[{body}]"
        if isinstance(v, tuple):
            return f"({body}{',' if len(xs) == 1 else ''})"
        return "{" + body + "}" if xs else "set()"
    if hasattr(v, "__dict__") and not callable(v):
        body = ", ".join(f"{k}={describe(x, depth + 1)}" for k, x in v.__dict__.items() if k != "_yml")
        return f"{cn}({body})"
    return repr(v)
