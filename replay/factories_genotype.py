"""Constructors for the top-level driver contracts (/verif/contracts/genotype_native.py; C19, C10, C13, C14, C17, C18).

* generated CONSISTENT mini-gene databases ("GTA", "GTB": gene + pseudogene separated by an unannotated gap, 100 bp
  RefSeq, hg19 on the '+' strand and hg38 on the '-' strand at different offsets, substitutions / deletions /
  insertions / multi-nucleotide substitutions, a fusion and a whole-gene deletion), written to lower-case paths
  (genotype() lower-cases the names of a multi-gene run);
* simulated samples: gene copies (structure configuration + minor allele + depth) tiled with short reads that
  carry the allele's variants (real sequence, CIGAR with I/D), the same reads expressed against either build
  (mirrored: reverse-complemented reads, reversed CIGAR);
* indexed BAM writer (pysam), profile BAMs, an in-memory output "file" that can be deep-copied and compared,
  recording wrappers for the solver stages.
"""
import atexit
import copy
import os
import random

from factories import DESCRIBE, describe
from factories_sam import session_tmp, case_dir, COMP

CONTIG = "20"
CONTIG_LEN = 12000
RL = 25                      # read length
REGION_LAYOUT = [("tmp", 0, 10), ("e1", 10, 20), ("e2", 30, 40), ("e3", 50, 60), ("down", 60, 100)]   # introns filled by aldy

# name -> (sequence seed, hg19 base, hg38 base, gap between pseudogene and gene)
GDB = {
    "gta": dict(name="GTA", seed=20240611, b19=5000, b38=7000, gap=40),
    "gtb": dict(name="GTB", seed=20240612, b19=3000, b38=2000, gap=0),
    # named after a shipped gene (regions up/e1..e3/down exist in the shipped illumina profile): usable with the
    # shipped profiles ("exome", "wgs", "illumina"), which only list shipped gene names
    "cyp2a6": dict(name="CYP2A6", seed=20240613, b19=5000, b38=7000, gap=20, first="up"),
    # C01 (planted samples): additionally a site with two catalogued variants (*1.003 / *3.002), a deletion with a
    # substitution of the same allele a few bases away (*10) and an isolated insertion (*11); with and without pseudogene
    "pta": dict(name="PTA", seed=20240614, b19=5000, b38=7000, gap=30, planted=True),
    "ptn": dict(name="PTN", seed=20240615, b19=3000, b38=2000, gap=0, planted=True, pseudo=False),
}
# copy-number neutral regions (per build) on the same contig
NEUTRAL = {"hg19": (CONTIG, 10000, 10060), "hg38": (CONTIG, 11000, 11060)}


# --------------------------------------------------------------------------- databases

def _seq(seed, n=100):
    r = random.Random(seed)
    s = []
    while len(s) < n:
        b = r.choice("ACGT")
        if len(s) >= 1 and s[-1] == b:
            continue
        if len(s) >= 3 and s[-2] == b and s[-3] == s[-1]:
            continue
        s.append(b)
    return "".join(s)


def _other(b, k=1):
    return "ACGT"[("ACGT".index(b) + k) % 4]


def gdb_width(key):
    return 200 + GDB[key]["gap"]


def gdb_text(key):
    """YAML text of the generated database (format of aldy/tests/resources/toy.yml; positions 1-based RefSeq)."""
    spec = GDB[key]
    name, s, gap, b19, b38 = spec["name"], _seq(spec["seed"]), spec["gap"], spec["b19"], spec["b38"]
    W = 200 + gap
    pseudo = spec.get("pseudo", True)

    def sub(p, k=1):
        return f"{s[p - 1]}>{_other(s[p - 1], k)}"

    def mnp(p, mask):
        l = "".join(s[p - 1 + i] if c == "x" else "." for i, c in enumerate(mask))
        r = "".join(_other(s[p - 1 + i], 1 + i) if c == "x" else "." for i, c in enumerate(mask))
        return f"{l}>{r}"

    def dele(p, n):
        return "del" + s[p - 1:p - 1 + n]

    def ins(p, n):
        # [p, insX] = p_(p+1)insX: inserted AFTER RefSeq base p (the convention of the shipped databases, of the
        # loader's strand conversion and of the realignment step); chosen so that the placement is unique
        before, after = s[p - 1], s[p]
        first = next(b for b in "ACGT" if b not in (before, after))
        last = next(b for b in "TGCA" if b not in (before, after, first)) if n > 1 else ""
        return "ins" + first + ("" if n == 1 else last)

    def regions(build):
        out = []
        for rn, a, b in REGION_LAYOUT:
            rn = spec.get("first", rn) if rn == "tmp" else rn
            row = []
            for g0 in ((100 + gap, 0) if pseudo else (100 + gap,)):   # gene, pseudogene (locus coordinate of the first base)
                ua, ub = g0 + a, g0 + b
                if build == "hg19":
                    row += [b19 + ua + 1, b19 + ub + 1]
                else:
                    row += [b38 + W - ub + 1, b38 + W - ua + 1]
            out.append(f"         {rn}: {row}")
        return out

    lines = [
        f"name: {name}", "version: verif-gt-1.0", "generated: '2026-01-01'", "alleles:",
        f"   {name}*1.001:", f"      label: {name}*1", "      activity: normal function", "      mutations: []",
        f"   {name}*1.002:", f"      label: {name}*1B", "      mutations:",
        f"      - [5, {sub(5)}, rs5]",
        f"      - [44, {mnp(44, 'xx')}, rs44]",
        f"      - [57, {dele(57, 1)}, rs57]",
        f"   {name}*2.001:", f"      label: {name}*2", "      mutations:",
        f"      - [11, {dele(11, 2)}, -, frameshift]",
        f"      - [19, {ins(19, 2)}, -, frameshift]",
        f"   {name}*3.001:", f"      label: {name}*3", "      mutations:",
        f"      - [15, {sub(15, 2)}, -, functional]",
        f"      - [48, {ins(48, 1)}, -]",
        f"   {name}*3.002:", f"      label: {name}*3B", "      mutations:",
        f"      - [15, {sub(15, 2)}, -, functional]",
        f"      - [38, {sub(38, 1)}, -]",
        f"   {name}*4.001:", f"      label: {name}*4", "      mutations:",
        f"      - [24, {mnp(24, 'xx')}, -, functional]",
        f"   {name}*5.001:", f"      label: {name}*5", "      mutations:",
        f"      - [34, {mnp(34, 'x.x')}, -, functional]",
        f"   {name}*6.001:", f"      label: {name}*6", "      mutations:",
        f"      - [51, {sub(51, 3)}, -, functional]",
        f"      - [53, {sub(53, 1)}, -]",
        f"   {name}*9.001:", f"      label: {name}*9", "      mutations:",
        f"      - [15, {sub(15, 2)}, -, functional]",
        f"      - [51, {sub(51, 3)}, -, functional]",
        # a function-altering substitution on the base a catalogued insertion follows (same position label on '+')
        f"   {name}*12.001:", f"      label: {name}*12", "      mutations:",
        f"      - [19, {sub(19, 1)}, -, functional]",
        f"      - [63, {sub(63, 1)}, -, functional]",
        *([f"   {name}*1.003:", f"      label: {name}*1C", "      mutations:",
           f"      - [38, {sub(38, 2)}, -]",
           f"   {name}*10.001:", f"      label: {name}*10", "      mutations:",
           f"      - [71, {dele(71, 3)}, -, frameshift]",
           f"      - [76, {sub(76, 1)}, -]",
           f"   {name}*11.001:", f"      label: {name}*11", "      mutations:",
           f"      - [88, {ins(88, 2)}, -, frameshift]"] if spec.get("planted") else []),
        *([f"   {name}*7.001:", f"      label: {name}*7", "      mutations:",
           f"      - [{name}P, i2-]"] if pseudo else []),
        f"   {name}*8.001:", f"      label: {name}*8DEL", "      mutations:",
        f"      - [{name}, deletion]",
        "structure:", f"   genes: [{name}, {name}P]" if pseudo else f"   genes: [{name}]", "   regions:",
        "      hg19:", *regions("hg19"),
        "      hg38:", *regions("hg38"),
        "   cn_regions: [e1, i1, e2, i2, e3]", "   tandems: [['1', '7']]" if pseudo else "   tandems: []",
        "reference:", f"   name: NG_{name}", "   mappings:",
        f"      hg19: ['{CONTIG}', {b19 + 100 + gap + 1}, {b19 + W + 1}, '+', M100]",
        f"      hg38: ['{CONTIG}', {b38 + 1}, {b38 + 101}, '-', M100]",
        "   exons:", "   - [11, 21]", "   - [31, 41]", "   - [51, 61]",
        "   seq: |-", "      " + s,
    ]
    return "\n".join(lines) + "\n"


def gdb_path(key):
    """path of the database file (lower case: genotype() lower-cases the names of a multi-gene run)"""
    p = os.path.join(session_tmp(), f"{key}.yml")
    assert p == p.lower(), p
    if not os.path.exists(p):
        with open(p, "w") as f:
            f.write(gdb_text(key))
    return p


_GENES = {}


def load_gdb(ctx, key, genome):
    """the generated database loaded with the real loader (cached: never hand it to the function under test)"""
    k = (key, genome)
    if k not in _GENES:
        from factories_sam import consistent
        g = ctx.cls("Gene")(gdb_path(key), genome=genome)
        # self-check of the generator on the '+' strand build only: the '-' strand conversion is the loader's job (C08/C13)
        assert genome != "hg19" or consistent(g), f"generated database {key} is not consistent with its reference"
        _GENES[k] = g
    return _GENES[k]


def neutral_region(ctx, genome):
    return ctx.cls("GRange")(*NEUTRAL[genome])


# --------------------------------------------------------------------------- haplotypes and reads (hg19, '+')

def allele_variants(gene, minor):
    """variants (pos, op) of the minor allele `minor` (e.g. '3.001', '7#1.001') in the gene's coordinates"""
    for a in gene.alleles.values():
        if minor in a.minors:
            return sorted({(m.pos, m.op) for m in a.func_muts} | {(m.pos, m.op) for m in a.minors[minor].neutral_muts})
    raise KeyError(minor)


def haplotype(variants):
    """-> (substituted bases {pos: base}, deleted positions set, insertions {pos: bases inserted before pos});
    a catalogued insertion (p, insX) lies AFTER genome position p, i.e. before p + 1"""
    subs, dels, inss = {}, set(), {}
    for pos, op in variants:
        if ">" in op:
            l, r = op.split(">")
            for i, c in enumerate(r):
                if c != ".":
                    subs[pos + i] = c
        elif op.startswith("ins"):
            inss[pos + 1] = op[3:]
        elif op.startswith("del"):
            dels.update(range(pos, pos + len(op) - 3))
    return subs, dels, inss


def make_read(gene, a, b, hap, rng=None, error=0.0):
    """read over the reference interval [a, b) of a copy with haplotype `hap`: (start, cigar, seq) or None"""
    subs, dels, inss = hap
    while a < b and a in dels:
        a += 1
    while b > a and (b - 1) in dels:
        b -= 1
    if a >= b:
        return None
    cigar, seq = [], []

    def push(op, n=1):
        if cigar and cigar[-1][0] == op:
            cigar[-1][1] += n
        else:
            cigar.append([op, n])

    for p in range(a, b):
        if p in inss and p > a:
            push(1, len(inss[p]))
            seq.append(inss[p])
        if p in dels:
            push(2)
            continue
        base = subs.get(p)
        if base is None:
            base = gene[p]
            if base == "N":
                base = "ACGT"[p % 4]
        if rng is not None and error and rng.random() < error:
            base = rng.choice([x for x in "ACGT" if x != base])
        push(0)
        seq.append(base)
    return a, [tuple(c) for c in cigar], "".join(seq)


def tile(s, e, depth, rl=RL):
    """intervals covering every position of [s, e) exactly `depth` times"""
    out = []
    for j in range(depth):
        st = s - (j * rl) // max(depth, 1)
        while st < e:
            a, b = max(st, s), min(st + rl, e)
            if a < b:
                out.append((a, b))
            st += rl
    return out


def config_intervals(gene, config):
    """[(gene index, start, end)]: maximal intervals of the regions the structure configuration contains"""
    out = []
    for gi, cn in enumerate(gene.cn_configs[config].cn):
        regs = sorted((gene.regions[gi][r].start, gene.regions[gi][r].end) for r, n in cn.items() if n > 0)
        cur = None
        for s, e in regs:
            if cur and cur[1] == s:
                cur[1] = e
            else:
                if cur:
                    out.append((gi, cur[0], cur[1]))
                cur = [s, e]
        if cur:
            out.append((gi, cur[0], cur[1]))
    return out


def copy_reads(rng, gene, config, minor, depth, tag, error=0.0, extra=(), parts=("gene", "pseudo"), rl=RL):
    """reads of one gene copy: every region the configuration contains is covered `depth` times; the gene part
    carries the variants of `minor` (+ `extra`)"""
    variants = (allele_variants(gene, minor) if minor else []) + list(extra)
    hap = haplotype(variants)
    none = haplotype([])
    reads = []
    for gi, s, e in config_intervals(gene, config):
        if ("gene" if gi == 0 else "pseudo") not in parts:
            continue
        for (a, b) in tile(s, e, depth, rl):
            r = make_read(gene, a, b, hap if gi == 0 else none, rng, error)
            if r is not None:
                reads.append({"name": f"{tag}_{len(reads)}", "contig": CONTIG, "pos": r[0], "cigar": r[1], "seq": r[2],
                              "flag": rng.choice([0, 16]), "mapq": 60})
    return reads


def filler_reads(rng, s, e, depth, tag):
    """reference-agnostic reads (outside the RefSeq-mapped part: neutral region, gap, elsewhere)"""
    return [{"name": f"{tag}_{i}", "contig": CONTIG, "pos": a, "cigar": [(0, b - a)],
             "seq": "".join("ACGT"[(p * 7 + 3) % 4] for p in range(a, b)), "flag": rng.choice([0, 16]), "mapq": 60}
            for i, (a, b) in enumerate(tile(s, e, depth))]


def sample_reads(rng, gene, copies, neutral_depth, genome="hg19", error=0.0, rl=RL):
    """copies: [(config, minor allele or None, depth[, "gene"])].  Reads of the copies + the neutral region.
    A copy marked "gene" is an additional copy of the gene alone (a duplication does not copy the pseudogene)."""
    reads = []
    for i, (config, minor, depth, *part) in enumerate(copies):
        reads += copy_reads(rng, gene, config, minor, depth, f"c{i}", error,
                            parts=("gene",) if part and part[0] == "gene" else ("gene", "pseudo"), rl=rl)
    if neutral_depth:
        _, s, e = NEUTRAL[genome]
        reads += filler_reads(rng, s, e, neutral_depth, "n")
    return reads


# --------------------------------------------------------------------------- the other build (mirror)

def revcomp(s):
    return "".join(COMP.get(b, b) for b in reversed(s))


def ref_len(cigar):
    return sum(n for op, n in cigar if op in (0, 2, 7, 8))


def mirror_reads(reads, key, neutral=True):
    """the hg19 reads of database `key` expressed against its hg38 build (opposite strand, other offset):
    locus position b19 + u  <->  b38 + (W - 1 - u); reads of the neutral region are moved to the hg38 neutral region"""
    spec = GDB[key]
    W = gdb_width(key)
    lo, hi = spec["b19"], spec["b19"] + W
    n19, n38 = NEUTRAL["hg19"], NEUTRAL["hg38"]
    out = []
    for r in reads:
        s, e = r["pos"], r["pos"] + ref_len(r["cigar"])
        if lo <= s and e <= hi:
            m = dict(r)
            m["pos"] = spec["b38"] + W - (e - spec["b19"])
            m["cigar"] = list(reversed(r["cigar"]))
            m["seq"] = revcomp(r["seq"])
            m["flag"] = r["flag"] ^ 16
            out.append(m)
        elif neutral and n19[1] <= s and e <= n19[2]:
            m = dict(r)
            m["pos"] = n38[1] + (s - n19[1])
            out.append(m)
        else:
            out.append(dict(r))
    return out


# --------------------------------------------------------------------------- BAM files

def write_sample_bam(path, reads, contigs=None):
    """reads: dicts(name, contig, pos, cigar, seq, flag, mapq[, qual]).  Coordinate sorted + indexed."""
    import pysam
    contigs = contigs or [(CONTIG, CONTIG_LEN)]
    header = {"HD": {"VN": "1.6", "SO": "coordinate"}, "SQ": [{"SN": n, "LN": ln} for n, ln in contigs]}
    names = [n for n, _ in contigs]
    order = sorted(range(len(reads)), key=lambda i: (names.index(reads[i]["contig"]), reads[i]["pos"], i))
    with pysam.AlignmentFile(path, "wb", header=header) as out:
        for i in order:
            r = reads[i]
            a = pysam.AlignedSegment(out.header)
            a.query_name = r["name"]
            a.reference_id = names.index(r["contig"])
            a.reference_start = r["pos"]
            a.flag = r["flag"]
            a.mapping_quality = r.get("mapq", 60)
            a.query_sequence = r["seq"]
            q = r.get("qual")
            a.query_qualities = pysam.qualitystring_to_array("".join(chr(33 + x) for x in q) if q else "I" * len(r["seq"]))
            a.cigartuples = r["cigar"]
            out.write(a)
    pysam.index(path)
    return path


_PROFILE_BAMS = {}


def profile_bam(ctx, keys, genome, depth=10, rl=RL):
    """BAM of a two-copy reference sample (every gene *1/*1, uniform depth) used as the coverage profile"""
    k = (tuple(keys), genome, depth, rl)
    if k not in _PROFILE_BAMS:
        rng = random.Random(f"profile/{k}")
        reads = []
        for key in keys:
            g19 = load_gdb(ctx, key, "hg19")
            rs = sample_reads(rng, g19, [("1", "1.001", depth), ("1", "1.001", depth)], 0, rl=rl)
            for i, r in enumerate(rs):
                r["name"] = f"{key}_{r['name']}"
            reads += rs
        _, s, e = NEUTRAL["hg19"]
        reads += filler_reads(rng, s, e, 2 * depth, "n")
        if genome == "hg38":
            for key in keys:
                reads = mirror_reads(reads, key, neutral=(key == keys[-1]))
        path = os.path.join(session_tmp(), f"profile_{'_'.join(keys)}_{genome}_{depth}_{rl}.bam")
        write_sample_bam(path, reads)
        _PROFILE_BAMS[k] = path
    return _PROFILE_BAMS[k]


# --------------------------------------------------------------------------- output "file"

class OutFile:
    """In-memory output file: what genotype() needs (`name`, `write`), deep-copyable and comparable."""

    def __init__(self, name):
        self.name = name
        self.chunks = []

    def write(self, s):
        self.chunks.append(s)
        return len(s)

    def flush(self):
        pass

    def text(self):
        return "".join(self.chunks)

    def __repr__(self):
        return f"OutFile({self.name!r}, {self.text()[:200]!r})"


DESCRIBE.setdefault("OutFile", lambda o, d: repr(o))


# --------------------------------------------------------------------------- stage recorders (C10)

_ACTIVE = []


class StageRecorder:
    """Thin recording wrappers around cn.estimate_cn, major.estimate_major, minor.estimate_minor (and
    minor.solve_minor_model).  Values are copied when the stage returns (genotype() later adds score differences to
    the very objects the major stage returned).  Installed by the input hook, removed by the checker right after
    the call (`__verif_after_call__`), by the next hook and at exit."""

    def __init__(self):
        self.cn = None            # [(text, score)]
        self.cn_dicts = None      # [{configuration: copies}] of the structure stage
        self.major = []           # [(structure text, major text, score as returned)]
        self.minor_in = None      # [(structure text, major text, score)] handed to the minor stage
        self.minor = None         # [(structure text, major text, minor text, score as returned)]
        self.minor_raw = []       # [(structure text, major text, minor text, raw model score)]
        self.calls = []
        self._orig = None

    def __deepcopy__(self, memo):
        return self

    def install(self):
        import aldy.cn
        import aldy.major
        import aldy.minor
        restore_stages()
        rec = self
        o_cn, o_major, o_minor, o_solve = (aldy.cn.estimate_cn, aldy.major.estimate_major, aldy.minor.estimate_minor,
                                           aldy.minor.solve_minor_model)
        self._orig = (o_cn, o_major, o_minor, o_solve)

        def w_cn(*a, **k):
            rec.calls.append("cn")
            res = o_cn(*a, **k)
            rec.cn = [(s._solution_nice(), s.score) for s in res]
            rec.cn_dicts = [{c: n for c, n in s.solution.items() if n} for s in res]
            return res

        def w_major(gene, coverage, cn_solution, *a, **k):
            rec.calls.append("major")
            res = o_major(gene, coverage, cn_solution, *a, **k)
            rec.major += [(cn_solution._solution_nice(), s._solution_nice(), s.score) for s in res]
            return res

        def w_minor(gene, coverage, major_sols, *a, **k):
            rec.calls.append("minor")
            rec.minor_in = [(m.cn_solution._solution_nice(), m._solution_nice(), m.score) for m in major_sols]
            res = o_minor(gene, coverage, major_sols, *a, **k)
            rec.minor = [(s.major_solution.cn_solution._solution_nice(), s.major_solution._solution_nice(),
                          s._solution_nice(), s.score) for s in res]
            return res

        def w_solve(gene, coverage, major_sol, *a, **k):
            res = o_solve(gene, coverage, major_sol, *a, **k)
            rec.minor_raw += [(major_sol.cn_solution._solution_nice(), major_sol._solution_nice(), s._solution_nice(), s.score)
                              for s in res]
            return res

        aldy.cn.estimate_cn, aldy.major.estimate_major = w_cn, w_major
        aldy.minor.estimate_minor, aldy.minor.solve_minor_model = w_minor, w_solve
        _ACTIVE.append(self)
        return self

    def restore(self):
        if self._orig is not None:
            import aldy.cn
            import aldy.major
            import aldy.minor
            aldy.cn.estimate_cn, aldy.major.estimate_major, aldy.minor.estimate_minor, aldy.minor.solve_minor_model = self._orig
            self._orig = None
        if self in _ACTIVE:
            _ACTIVE.remove(self)

    def __verif_after_call__(self):
        self.restore()

    def __repr__(self):
        return f"StageRecorder(cn={self.cn}, major={self.major}, minor={self.minor})"


def restore_stages():
    for r in list(_ACTIVE):
        r.restore()


atexit.register(restore_stages)
DESCRIBE.setdefault("StageRecorder", lambda o, d: repr(o))
