"""Input hooks for the top-level driver contracts (/verif/contracts/genotype_native.py; C19, C10, C14, C17, C13, C18).

Every hook writes small indexed BAM files (generated mini-gene databases, a few hundred 25 bp reads) into the
session temp dir and returns the argument dict of `aldy.genotype.genotype` / `Profile.load` (+ the extra,
non-parameter names the contract lists: `scenario`, `rec`, `other`, `written`).  Inputs on which the real driver
does not come back within a few seconds (enumeration of thousands of near-optimal models) are replaced (`_screened`).
"""
import os

import yaml

import factories_genotype as fg
from factories_sam import case_dir, session_tmp

MINORS = ["1.001", "1.002", "2.001", "3.001", "3.002", "4.001", "5.001", "6.001", "9.001"]
FUSION_MINORS = ["7#1.001", "7#1.002", "7#3.001", "7#6.001"]
STRUCTURES = [(["1", "1"], 10), (["1", "1", "1"], 2), (["1", "8"], 2), (["1", "7"], 2), (["1", "1", "7"], 1), (["8", "8"], 1)]
SAMPLE_NAMES = ["s1", "NA001", "smp_x", "t-2"]


def _structure(rng, pool=STRUCTURES):
    return list(rng.choices([s for s, _ in pool], weights=[w for _, w in pool])[0])


def _copies(rng, structure, depth):
    """two complete copies (gene + pseudogene); further copies of the plain configuration duplicate the gene alone"""
    out = []
    for i, c in enumerate(structure):
        minor = None if c == "8" else rng.choice(FUSION_MINORS) if c == "7" else rng.choice(MINORS)
        out.append((c, minor, depth, "gene") if (i >= 2 and c == "1") else (c, minor, depth))
    return out


def _label(copies):
    return ",".join(f"{c[0]}:{c[1]}x{c[2]}" + ("g" if len(c) > 3 else "") for c in copies)


def _params(rng, extra=None):
    """model parameters of a case (indel realignment off: slow and irrelevant here)"""
    p = {"indelpost": rng.choice([False, "false", "0"])}
    if rng.random() < 0.3:
        p["phase"] = rng.choice([False, "false"])
    if rng.random() < 0.2:
        p["min_coverage"] = rng.choice([2, "3"])
    p.update(extra or {})
    return p


def _genome_args(rng, genome):
    """(genome argument, contigs): the header has no chromosome 1/10/22 unless stated, so hg19 is auto-detected"""
    contigs = [(fg.CONTIG, fg.CONTIG_LEN)]
    if genome == "hg38":
        if rng.random() < 0.3:       # recognisable hg38 header: auto-detection
            return rng.choice([None, "hg38"]), contigs + [("22", 50818468)]
        return "hg38", contigs
    if rng.random() < 0.3:
        contigs = contigs + [("22", 51304566)]
    return rng.choice([None, "hg19"]), contigs


def _build(reads, keys, genome):
    if genome == "hg38":
        for i, k in enumerate(keys):
            reads = fg.mirror_reads(reads, k, neutral=(i == len(keys) - 1))
    return reads


DRIVER_ARGS = ("gene_db", "sam_path", "profile_name", "cn_region", "cn_solution", "genome", "is_simple")


def _fast_enough(args, seconds=2.0):
    """Screen of a generated input: False when the real driver does not come back within `seconds` (or exhausts the
    interpreter's recursion limit).  With a gap > 0 a poorly fitting sample makes the major stage enumerate thousands
    of near-optimal models one nested call per solution; such inputs are replaced, not checked.
    Uses the checker's SIGALRM handler (raises CaseTimeout)."""
    import signal
    from aldy.genotype import genotype
    a = {k: v for k, v in args.items() if k in DRIVER_ARGS}
    if not callable(signal.getsignal(signal.SIGALRM)):
        return True
    signal.setitimer(signal.ITIMER_REAL, seconds)
    try:
        genotype(output_file=fg.OutFile("screen.aldy"), **a, **args["params"])
        return True
    except RecursionError:
        return False
    except BaseException as e:
        if type(e).__name__ == "CaseTimeout":
            return False
        if isinstance(e, Exception):
            return True          # an error of the run: for the contract to judge
        raise
    finally:
        signal.setitimer(signal.ITIMER_REAL, 0)


def _screened(make, rng, ctx, tries=8, seconds=2.0):
    """(the checker counts a case that overruns the remaining budget by 5 s as an error: a case - up to four runs of the
    driver - has to stay short)"""
    for _ in range(tries):
        args = make(rng, ctx)
        if _fast_enough(args, seconds):
            return args
    return args


_YML = {}


def profile_yml(ctx, keys, genome, params=None, cn_region=None, tag=""):
    """a profile FILE as the `aldy profile` command prints it (real Profile.get_sam_profile_data + yaml.dump)"""
    Profile = ctx.cls("Profile")
    k = (tuple(keys), genome, repr(sorted((params or {}).items())), tuple(cn_region) if cn_region else None)
    if k not in _YML:
        regions = {}
        for key in keys:
            g = fg.load_gdb(ctx, key, genome)
            for gi, gr in enumerate(g.regions):
                for r, rng_ in gr.items():
                    regions[g.name, r, gi] = rng_
        d = Profile.get_sam_profile_data(fg.profile_bam(ctx, keys, genome), regions=regions,
                                         cn_region=cn_region or fg.neutral_region(ctx, genome), genome=genome,
                                         params=dict(params or {}))
        path = os.path.join(session_tmp(), f"profile_{len(_YML)}{tag}.yml")
        with open(path, "w") as f:
            f.write(yaml.dump(d, default_flow_style=None))
        _YML[k] = (path, d)
    return _YML[k]


def _route(rng, ctx, keys, genome, structure=None, routes=("bam", "bam", "yml", "user")):
    """how the structure is obtained: (profile_name, cn_region, cn_solution)"""
    route = rng.choice(routes)
    if route == "bam":
        return route, fg.profile_bam(ctx, keys, genome), fg.neutral_region(ctx, genome), None
    if route == "yml":
        return route, profile_yml(ctx, keys, genome)[0], None, None
    return route, rng.choice([None, fg.profile_bam(ctx, keys, genome)]), None, list(structure or ["1", "1"])


def _out(rng, names=("out.aldy", "out.aldy", "out.simple", "out.vcf", "result.txt")):
    return fg.OutFile(rng.choice(names))


def _bam(tag, name, reads, contigs=None):
    path = os.path.join(case_dir(tag), f"{name}.bam")
    fg.write_sample_bam(path, reads, contigs)
    return path


# --------------------------------------------------------------------------- C19  genotype#no-data

NO_DATA_SCENARIOS = [("covered", 5), ("pseudo-only", 3), ("empty-locus", 3), ("gap-only", 3), ("low-depth", 4),
                     ("no-neutral", 3), ("no-reads-at-all", 1)]


def gen_aldy_genotype_genotype_no_data(rng, ctx):
    fg.restore_stages()
    key = rng.choice(["gta", "gta", "gtb"])
    genome = rng.choice(["hg19", "hg38"])
    g19 = fg.load_gdb(ctx, key, "hg19")
    spec = fg.GDB[key]
    scenario = rng.choices([s for s, _ in NO_DATA_SCENARIOS], weights=[w for _, w in NO_DATA_SCENARIOS])[0]
    if scenario == "gap-only" and spec["gap"] == 0:
        scenario = "empty-locus"
    params = _params(rng)
    min_avg = rng.choice([None, None, 2, "5", 10.0])
    if min_avg is not None:
        params["min_avg_coverage"] = min_avg
    m = 2.0 if min_avg is None else float(min_avg)
    depth = 10 if m < 10 else 14
    structure = _structure(rng)
    neutral_depth = 2 * depth
    reads = []
    if scenario == "covered":
        reads = fg.sample_reads(rng, g19, _copies(rng, structure, depth), 0)
    elif scenario == "pseudo-only":
        structure = ["8", "8"]
        reads = fg.sample_reads(rng, g19, [("8", None, depth), ("8", None, depth)], 0)
    elif scenario == "empty-locus":
        reads = fg.filler_reads(rng, 8000, 8000 + rng.choice([30, 120]), depth, "far")
        if rng.random() < 0.5:      # reads that end right before / start right after the locus
            lo, hi = spec["b19"], spec["b19"] + fg.gdb_width(key)
            reads += fg.filler_reads(rng, lo - 40, lo - 1, depth, "left") + fg.filler_reads(rng, hi + 1, hi + 40, depth, "right")
    elif scenario == "gap-only":
        lo = spec["b19"] + 100
        reads = fg.filler_reads(rng, lo, lo + spec["gap"], 2 * depth, "gap")
    elif scenario == "low-depth":
        # average depth clearly below the minimum: 2 -> 1x, 5 -> 2..3x, 10 -> 4..6x over the locus
        total = 1 if m <= 2 else rng.choice([2, 3]) if m <= 5 else rng.choice([4, 6])
        per = [total] if total == 1 else [total // 2, total - total // 2]
        structure = ["1"] * len(per)
        reads = []
        for i, d in enumerate(per):
            reads += fg.copy_reads(rng, g19, "1", rng.choice(MINORS), d, f"c{i}")
    elif scenario == "no-neutral":
        reads = fg.sample_reads(rng, g19, _copies(rng, structure, depth), 0)
        neutral_depth = 0
        if rng.random() < 0.5:      # reads next to the neutral region, none inside
            _, s, e = fg.NEUTRAL["hg19"]
            reads += fg.filler_reads(rng, s - 60, s - 1, depth, "nl") + fg.filler_reads(rng, e + 1, e + 50, depth, "nr")
    elif scenario == "no-reads-at-all":
        neutral_depth = 0
    if neutral_depth:
        _, s, e = fg.NEUTRAL["hg19"]
        reads += fg.filler_reads(rng, s, e, neutral_depth, "n")
    reads = _build(reads, [key], genome)
    genome_arg, contigs = _genome_args(rng, genome)
    route, profile_name, cn_region, cn_solution = _route(rng, ctx, [key], genome, structure)
    if route == "user" and scenario in ("covered", "no-neutral") and rng.random() < 0.5:
        cn_solution = ["1", "1"]
    sam_path = _bam("nodata", rng.choice(SAMPLE_NAMES), reads, contigs)
    return {"gene_db": fg.gdb_path(key), "sam_path": sam_path, "profile_name": profile_name, "output_file": _out(rng),
            "cn_region": cn_region, "cn_solution": cn_solution, "genome": genome_arg,
            "is_simple": rng.random() < 0.35, "params": params, "scenario": f"{scenario}/{route}/{key}/{genome}"}


# --------------------------------------------------------------------------- C10  genotype#selection

def _noisy_copies(rng, depth=10):
    """copies whose depths are not multiples of a whole copy, so that structures / major solutions compete"""
    x = rng.random()
    a, b, c = rng.choice(MINORS), rng.choice(MINORS), rng.choice(MINORS)
    if x < 0.25:      # a variant carried by ~1.5 of 2 copies
        k = rng.choice([4, 5, 6])
        return [("1", a, depth), ("1", a, depth - k), ("1", b, k)]
    if x < 0.45:      # 2.5 copies of the gene
        return [("1", a, depth), ("1", b, depth), ("1", c, rng.choice([5, 6, 6, 7]), "gene")]
    if x < 0.6:       # a fusion at partial depth
        return [("1", a, depth), ("1", b, depth), ("7", rng.choice(FUSION_MINORS), rng.choice([5, 7, 8]))]
    if x < 0.7:       # a deletion next to a weak second copy
        return [("1", a, depth), ("8", None, depth), ("1", b, rng.choice([4, 5, 6]))]
    if x < 0.8:       # three haplotypes sharing two copies
        return [("1", a, depth), ("1", b, depth // 2), ("1", c, depth - depth // 2)]
    return _copies(rng, _structure(rng), depth)


def gen_aldy_genotype_genotype_selection(rng, ctx):
    fg.restore_stages()
    args = _screened(_selection_case, rng, ctx)
    args["rec"] = fg.StageRecorder().install()
    return args


def _selection_case(rng, ctx):
    key = rng.choice(["gta", "gtb"])
    genome = rng.choice(["hg19", "hg19", "hg38"])
    g19 = fg.load_gdb(ctx, key, "hg19")
    depth = 10
    copies = _noisy_copies(rng, depth)
    reads = fg.sample_reads(rng, g19, copies, 2 * depth, error=rng.choice([0.0, 0.0, 0.01]))
    if rng.random() < 0.3:     # a non-catalogue variant at partial depth
        s = fg.GDB[key]["b19"] + 100 + fg.GDB[key]["gap"] + rng.choice([12, 33, 52])
        for r in reads[::rng.choice([3, 5])]:
            if r["pos"] <= s < r["pos"] + len(r["seq"]) and r["cigar"] == [(0, len(r["seq"]))]:
                b = r["seq"][s - r["pos"]]
                r["seq"] = r["seq"][:s - r["pos"]] + fg.COMP[b] + r["seq"][s - r["pos"] + 1:]
    reads = _build(reads, [key], genome)
    genome_arg, contigs = _genome_args(rng, genome)
    route, profile_name, cn_region, cn_solution = _route(rng, ctx, [key], genome,
                                                         [c[0] for c in copies if c[2] >= depth] or ["1", "1"],
                                                         routes=("bam", "bam", "bam", "yml", "user"))
    params = _params(rng, {"gap": rng.choice([0, 0.1, 0.3, "0.1", 0.3]), "max_minor_solutions": rng.choice([1, 2, 3, "3"])})
    if rng.random() < 0.6:
        params["phase"] = False        # the phasing model dominates the run time
    sam_path = _bam("sel", rng.choice(SAMPLE_NAMES), reads, contigs)
    return {"gene_db": fg.gdb_path(key), "sam_path": sam_path, "profile_name": profile_name,
            "output_file": rng.choice([None, fg.OutFile("out.aldy")]), "cn_region": cn_region, "cn_solution": cn_solution,
            "genome": genome_arg, "params": params, "rec": None,
            "scenario": f"{route}/{key}/{genome}/" + _label(copies)}


# --------------------------------------------------------------------------- C14  genotype#multi-gene

def gen_aldy_genotype_genotype_multi_gene(rng, ctx):
    fg.restore_stages()
    return _screened(_multi_gene_case, rng, ctx, seconds=1.0)


def _multi_gene_case(rng, ctx):
    keys = ["gta", "gtb"]
    genome = rng.choice(["hg19", "hg38"])
    depth = 10
    reads, structures, kinds = [], {}, {}
    for key in keys:
        g19 = fg.load_gdb(ctx, key, "hg19")
        kind = rng.choices(["ok", "no-reads", "low-depth"], weights=[7, 2, 1])[0]
        kinds[key] = kind
        structures[key] = _structure(rng)
        if kind == "ok":
            rs = fg.sample_reads(rng, g19, _copies(rng, structures[key], depth), 0)
        elif kind == "low-depth":
            rs = fg.copy_reads(rng, g19, "1", rng.choice(MINORS), 1, "c0")
        else:
            rs = []
        for r in rs:
            r["name"] = f"{key}_{r['name']}"
        reads += rs
    _, s, e = fg.NEUTRAL["hg19"]
    reads += fg.filler_reads(rng, s, e, 2 * depth, "n")
    reads = _build(reads, keys, genome)
    # explicit genome: the header alone (no chromosome 1/10/22) is detected as hg19
    genome_arg, contigs = ("hg38", [(fg.CONTIG, fg.CONTIG_LEN)]) if genome == "hg38" else _genome_args(rng, genome)
    route, profile_name, cn_region, cn_solution = _route(rng, ctx, keys, genome, ["1", "1"],
                                                         routes=("bam", "bam", "yml", "user"))
    order = keys if rng.random() < 0.5 else keys[::-1]
    sam_path = _bam("multi", rng.choice(SAMPLE_NAMES), reads, contigs)
    return {"gene_db": ",".join(fg.gdb_path(k) for k in order), "sam_path": sam_path, "profile_name": profile_name,
            "output_file": _out(rng, ("out.aldy", "out.simple", "out.aldy")), "cn_region": cn_region,
            "cn_solution": cn_solution, "genome": genome_arg, "is_simple": rng.random() < 0.3,
            "params": _params(rng, {"gap": rng.choice([0, 0, 0.1])}),
            "scenario": f"{route}/{genome}/" + ",".join(f"{k}:{kinds[k]}" for k in order)}


# --------------------------------------------------------------------------- C17  genotype#dump-replay

def _chr22_neutral(rng, genome, depth):
    """reads over the neutral region of the shipped profiles (CYP2D8)"""
    s, e = {"hg19": (42547463, 42548249), "hg38": (42151472, 42152258)}[genome]
    out = []
    for i, (a, b) in enumerate(fg.tile(s, e, depth, rl=131)):
        out.append({"name": f"n22_{i}", "contig": "22", "pos": a, "cigar": [(0, b - a)], "seq": "ACGT" * ((b - a) // 4) + "ACGT"[:(b - a) % 4],
                    "flag": 0, "mapq": 60})
    return out


def gen_aldy_genotype_genotype_dump_replay(rng, ctx):
    fg.restore_stages()
    return _screened(_dump_replay_case, rng, ctx, seconds=1.5)


def _dump_replay_case(rng, ctx):
    shipped = rng.random() < 0.35
    key = "cyp2a6" if shipped else rng.choice(["gta", "gtb"])
    genome = rng.choice(["hg19", "hg38"])
    g19 = fg.load_gdb(ctx, key, "hg19")
    depth = 10
    structure = _structure(rng, STRUCTURES + [(["1", "1", "1"], 3), (["1", "8"], 3)]) if shipped else _structure(rng)
    copies = _copies(rng, structure, depth) if rng.random() < 0.6 else _noisy_copies(rng, depth)
    params = _params(rng, {"gap": rng.choice([0, 0, 0.1, 0.3]), "max_minor_solutions": rng.choice([1, 1, 2])})
    if "phase" not in params and rng.random() < 0.5:
        params["phase"] = False
    reads = fg.sample_reads(rng, g19, copies, 2 * depth)
    reads = _build(reads, [key], genome)
    contigs = [(fg.CONTIG, fg.CONTIG_LEN)]
    cn_solution = None
    if shipped:
        # shipped profiles by name: the exome route switches structure calling off for the gene
        profile_name = rng.choice(["exome", "exome", "wxs", "wes", "wgs", "illumina"])
        if rng.random() < 0.5:
            cn_region = fg.neutral_region(ctx, genome)       # -n with the illumina profile
        else:
            cn_region = None                                  # the profile's own neutral region on chromosome 22
            contigs = contigs + [("22", {"hg19": 51304566, "hg38": 50818468}[genome])]
            reads += _chr22_neutral(rng, genome, 2 * depth)
        genome_arg = genome
        route = profile_name
    else:
        route, profile_name, cn_region, cn_solution = _route(rng, ctx, [key], genome, structure)
        genome_arg, contigs = _genome_args(rng, genome)
    name = rng.choice(SAMPLE_NAMES)
    sam_path = _bam("dump", name, reads, contigs)
    # aldy/__main__.py: prefix = f"{tmp}/{basename of the input without extension}"
    dbg = os.path.join(case_dir("dbg"), name)
    return {"gene_db": fg.gdb_path(key), "sam_path": sam_path, "profile_name": profile_name,
            "output_file": _out(rng, ("out.aldy", "out.aldy", "out.simple")), "cn_region": cn_region,
            "cn_solution": cn_solution, "genome": genome_arg, "is_simple": rng.random() < 0.25, "debug": dbg,
            "params": params, "scenario": f"{route}/{key}/{genome}/" + _label(copies)}


# --------------------------------------------------------------------------- C13  genotype#build

def gen_aldy_genotype_genotype_build(rng, ctx):
    fg.restore_stages()
    return _screened(_build_case, rng, ctx, seconds=1.5)


def _build_case(rng, ctx):
    key = rng.choice(["gta", "gtb"])
    g19 = fg.load_gdb(ctx, key, "hg19")
    depth = 10
    copies = _copies(rng, _structure(rng), depth) if rng.random() < 0.7 else _noisy_copies(rng, depth)
    novel_pair = rng.random() < 0.1
    if novel_pair:
        # a copy that carries, outside of their alleles, the catalogued insertion 19_20ins (of *2) and the catalogued
        # substitution on base 19 (of *12): both have to be reported as additions
        pair = [(p, op) for (p, op) in g19.mutations if g19.mutations[p, op][3] == 18 and (op[:3] == "ins" or len(op) == 3)]
        copies = [("1", rng.choice(["1.001", "3.002", "6.001"]), depth), ("1", "1.001", depth)]
        reads19 = fg.copy_reads(rng, g19, "1", copies[0][1], depth, "c0") + fg.copy_reads(rng, g19, "1", "1.001", depth, "c1", extra=pair)
        _, ns, ne = fg.NEUTRAL["hg19"]
        reads19 += fg.filler_reads(rng, ns, ne, 2 * depth, "n")
    else:
        reads19 = fg.sample_reads(rng, g19, copies, 2 * depth, error=rng.choice([0.0, 0.0, 0.01]))
    reads38 = fg.mirror_reads(reads19, key)
    name = rng.choice(SAMPLE_NAMES)
    d = case_dir("build")
    os.makedirs(os.path.join(d, "hg19"))
    os.makedirs(os.path.join(d, "hg38"))
    bam19 = fg.write_sample_bam(os.path.join(d, "hg19", f"{name}.bam"), reads19)
    bam38 = fg.write_sample_bam(os.path.join(d, "hg38", f"{name}.bam"), reads38)
    route = rng.choice(["bam", "bam", "yml", "user"])
    structure = [c[0] for c in copies if c[2] >= depth] or ["1", "1"]
    args = {}
    for genome in ("hg19", "hg38"):
        if route == "bam":
            args[genome] = (fg.profile_bam(ctx, [key], genome), fg.neutral_region(ctx, genome), None)
        elif route == "yml":
            args[genome] = (profile_yml(ctx, [key], genome)[0], None, None)
        else:
            args[genome] = (None, None, list(structure))
    params = _params(rng, {"gap": rng.choice([0, 0, 0.1]), "max_minor_solutions": rng.choice([1, 1, 2])})
    params["phase"] = rng.choice([True, False, False])
    if novel_pair:
        params["gap"] = 0
    out_name = rng.choice(["out.aldy", None])
    other = {"sam_path": bam19, "profile_name": args["hg19"][0], "cn_region": args["hg19"][1],
             "cn_solution": args["hg19"][2], "genome": "hg19"}
    return {"gene_db": fg.gdb_path(key), "sam_path": bam38, "profile_name": args["hg38"][0],
            "output_file": fg.OutFile(out_name) if out_name else None, "cn_region": args["hg38"][1],
            "cn_solution": args["hg38"][2], "genome": "hg38", "params": params, "other": other,
            "scenario": f"{route}/{key}/" + _label(copies) + ("+19sub+19ins" if novel_pair else "")}


# --------------------------------------------------------------------------- C18  Profile.load

PARAM_VALUES = {
    "gap": [0.1, "0.3", 0], "threshold": [0.25, "0.4"], "min_coverage": [3, "5.0", 1.5], "min_quality": [15, "20"],
    "min_mapq": [0, "5", 20], "phase": [False, "false", "TRUE", True, "0"], "cn_max": [10, "7"],
    "cn_pce_penalty": [1.0, "3"], "cn_diff": ["5", 8.0], "cn_fit": [2, "0.5"], "cn_parsimony": [1.0, "0.25", 0],
    "cn_fusion_left": [0.1, "1"], "cn_fusion_right": ["0.5", 0.0], "major_novel": [11, "5.5"], "minor_miss": [2.0, "1"],
    "minor_add": ["0.5", 2], "minor_phase": [0.2, "1"], "minor_phase_vars": [100, "500"], "male": [True, "True", "1", "false"],
    "max_minor_solutions": [2, "3"], "display_format": ["true", True, False], "debug_novel": [True, "false"],
    "min_avg_coverage": [1, "4.5"], "vcf_sample_idx": [1, "2"], "indelpost": [False, "False", "true", 0],
    "sam_mappy_preset": ["map-ont"], "debug_probe": ["rs5"],
}


def _some_params(rng, k):
    names = rng.sample(sorted(PARAM_VALUES), k)
    return {n: rng.choice(PARAM_VALUES[n]) for n in names}


def gen_aldy_profile_Profile_load(rng, ctx):
    fg.restore_stages()
    key = rng.choice(["gta", "gtb"])
    genome = rng.choice(["hg19", "hg38"])
    gene = fg.load_gdb(ctx, key, genome)
    import copy
    from factories import big_table_memo
    gene = copy.deepcopy(gene, big_table_memo(gene))
    ctx._gene = gene
    ctx.gene_label = f"{key}/{genome}"
    kind = rng.choice(["written", "written", "written", "bam"])
    params = _some_params(rng, rng.choice([0, 1, 2, 4]))
    if kind == "bam":
        region = fg.neutral_region(ctx, genome)
        if rng.random() < 0.5:
            region = ctx.cls("GRange")(region.chr, region.start + rng.choice([0, 5, 10]), region.end - rng.choice([0, 7]))
        return {"gene": gene, "profile": fg.profile_bam(ctx, [key], genome), "cn_region": region, "params": params,
                "written": None, "scenario": f"bam/{key}/{genome}"}
    # a profile written by the `profile` command (with parameters, with a custom neutral region) and loaded again
    written = _some_params(rng, rng.choice([0, 1, 3, 5]))
    for n in rng.sample(sorted(params), min(len(params), rng.choice([0, 1, 2]))):
        written[n] = rng.choice(PARAM_VALUES[n])          # both routes set the parameter: the explicit one wins
    custom = None
    if rng.random() < 0.6:
        n = fg.neutral_region(ctx, genome)
        custom = ctx.cls("GRange")(n.chr, n.start + rng.choice([0, 3, 10]), n.end - rng.choice([0, 4, 20]))
    path, _ = profile_yml(ctx, [key], genome, params=written, cn_region=custom, tag="_rt")
    return {"gene": gene, "profile": path, "cn_region": None, "params": params,
            "written": {"params": written, "cn_region": custom or fg.neutral_region(ctx, genome),
                        "bam": fg.profile_bam(ctx, [key], genome)},
            "scenario": f"written/{key}/{genome}"}


# --------------------------------------------------------------------------- C01  genotype#planted

PLANTED_STRUCTURES = {
    # database -> [(structure, weight)]: 1-4 alleles; "1" after the first two configurations = extra copy of the gene
    "pta": [(["1", "1"], 8), (["1", "8"], 2), (["1", "7"], 3), (["1", "1", "1"], 3), (["1", "7", "1"], 1),
            (["1", "1", "1", "1"], 2)],
    "ptn": [(["1", "1"], 8), (["1", "1", "1"], 3), (["1", "1", "1", "1"], 2)],
}
PLANTED_READ_LENGTHS = [25, 25, 50]


def gen_aldy_genotype_genotype_planted(rng, ctx):
    """error-free reads (single end, 25 or 50 bp, clipped at the ends of a copy), every copy tiled at exactly the same
    depth (20 or 24 per copy), alleles drawn from the catalogue of the generated database; profile = a simulated
    two-copy *1/*1 sample of the same depth and read length"""
    fg.restore_stages()
    args = _planted_case(rng, ctx)
    for _ in range(6):      # three or more copies with read phasing: the refinement model can take minutes
        if len(args["planted"]) < 3 or args["params"].get("phase") is False or _fast_enough(args, 2.5):
            break
        args = _planted_case(rng, ctx)
    args["rec"] = fg.StageRecorder().install()
    return args


def _planted_case(rng, ctx):
    key = rng.choice(["pta", "pta", "ptn"])
    genome = rng.choice(["hg19", "hg38"])
    g19 = fg.load_gdb(ctx, key, "hg19")
    depth = rng.choice([20, 20, 24])
    rl = rng.choice(PLANTED_READ_LENGTHS)
    structure = _structure(rng, PLANTED_STRUCTURES[key])
    plain = sorted(m for a in g19.alleles.values() if a.cn_config == "1" for m in a.minors)
    fused = sorted(m for a in g19.alleles.values() if a.cn_config == "7" for m in a.minors)
    copies = []
    for i, c in enumerate(structure):
        minor = None if c == "8" else rng.choice(fused) if c == "7" else rng.choice(plain)
        copies.append((c, minor, depth, "gene") if (i >= 2 and c == "1") else (c, minor, depth))
    reads = fg.sample_reads(rng, g19, copies, 2 * depth, rl=rl)
    reads = _build(reads, [key], genome)
    genome_arg, contigs = _genome_args(rng, genome)
    params = {}
    if rng.random() < 0.4:
        params["phase"] = False
    if rng.random() < 0.15:
        params["indelpost"] = False
    sam_path = _bam("planted", rng.choice(SAMPLE_NAMES), reads, contigs)
    return {"gene_db": fg.gdb_path(key), "sam_path": sam_path, "profile_name": fg.profile_bam(ctx, [key], genome, depth, rl),
            "output_file": rng.choice([None, fg.OutFile("out.aldy")]), "cn_region": fg.neutral_region(ctx, genome),
            "genome": genome_arg, "params": params, "rec": None,
            "planted": [(c[0], c[1]) for c in copies],
            "scenario": f"{key}/{genome}/rl{rl}/" + _label(copies)}
